#!/usr/bin/env python3
"""Confirm a seeded property-breaking change and run a check against it; keep it under /verif/seeded/<id>/.

usage: tools/seedrun.py <Cxx> <dir with patch.diff demo.py meta.json> <seed-id> [--tier quick|thorough] [--check Cyy ...]

1. scratch worktree of /repo HEAD: demo exits 0; patch applies; the unedited suite passes (115); demo exits 1.
2. `git -C /repo apply patch`, `./check Cxx --tier T` (and any extra --check), `git -C /repo checkout -- .`.
3. writes seeded/<id>/{patch.diff,demo.py,meta.json}; meta.json records what was run and which checks caught it.
"""
import json
import re
import shutil
import subprocess
import sys
import tempfile
from pathlib import Path

VERIF = Path(__file__).resolve().parent.parent
PY = "/venv/bin/python"


def sh(cmd, cwd=None, env=None, timeout=3600):
    p = subprocess.run(cmd, cwd=cwd, env=env, capture_output=True, text=True, timeout=timeout)
    return p.returncode, p.stdout + p.stderr


def main():
    a = sys.argv[1:]
    prop, src, sid = a[0], Path(a[1]).resolve(), a[2]
    tier = "quick"
    checks = [prop]
    i = 3
    while i < len(a):
        if a[i] == "--tier":
            tier = a[i + 1]; i += 2
        elif a[i] == "--check":
            checks.append(a[i + 1]); i += 2
        else:
            i += 1
    import os
    # SEEDRUN_REPO: run the checks against this worktree of /repo (UTYPE_REPO) instead of /repo itself, so that several
    # seeds can be run in parallel from separate copies of /verif (tools/reseed_par.sh)
    target = os.environ.get("SEEDRUN_REPO", "/repo")
    cenv = dict(os.environ, UTYPE_REPO=target) if target != "/repo" else None
    head = sh(["git", "-C", "/repo", "rev-parse", "--short", "HEAD"])[1].strip()
    ran = []
    tmp = Path(tempfile.mkdtemp(prefix="seedchk."))
    wt = tmp / "repo"
    sh(["git", "-C", "/repo", "worktree", "add", "-f", "--detach", str(wt), "HEAD"])
    env = dict(os.environ, PYTHONPATH=str(wt))
    try:
        base, _ = sh([PY, str(src / "demo.py")], cwd=tmp, env=env, timeout=600)
        rc, out = sh(["git", "apply", str(src / "patch.diff")], cwd=wt)
        if rc != 0:
            print(f"SEED {sid}: patch does not apply on {head}: {out.strip()[:200]}")
            return 3
        suite_rc, suite_out = sh([PY, "-m", "pytest", "-q", "-p", "no:cacheprovider", "--timeout=180"], cwd=wt)
        suite_line = suite_out.strip().splitlines()[-1] if suite_out.strip() else ""
        demo, demo_out = sh([PY, str(src / "demo.py")], cwd=tmp, env=env, timeout=600)
    finally:
        sh(["git", "-C", "/repo", "worktree", "remove", "--force", str(wt)])
        shutil.rmtree(tmp, ignore_errors=True)
    ran.append(f"scratch worktree of /repo {head}: demo.py exit {base} (unchanged); git apply ok; pytest: {suite_line}; demo.py exit {demo} (changed)")
    confirmed = base == 0 and suite_rc == 0 and demo != 0
    print(f"SEED {sid}: demo_base={base} suite={suite_rc} demo_patched={demo} confirmed={confirmed}")
    if not confirmed:
        return 3
    results = {}
    rc, out = sh(["git", "-C", target, "apply", str(src / "patch.diff")])
    if rc != 0:
        print("cannot apply to /repo:", out)
        return 3
    try:
        for c in checks:
            rc, out = sh([str(VERIF / "check"), c, "--tier", tier], cwd=VERIF, env=cenv, timeout=7200)
            vio = [l for l in out.splitlines() if l.startswith("VIOLATION")]
            kind = None
            replay = None
            if vio:
                kind = "no-failing-input-found" if vio[0].rstrip().endswith("no-failing-input-found") else "failing-input"
                m = re.search(r"replay=(\S+)", vio[0])
                if m and (VERIF / m.group(1)).exists():
                    try:
                        rp = json.loads((VERIF / m.group(1)).read_text())
                        replay = {k: rp.get(k) for k in ("kind", "spec_verdict", "no_longer_checks") if rp.get(k)}
                        if "case" in rp:
                            replay["case"] = json.dumps(rp["case"], sort_keys=True)[:600]
                    except Exception:
                        pass
            results[c] = {"tier": tier, "exit": rc, "violation": kind, "replay": replay}
            ran.append(f"git -C /repo apply patch.diff; ./check {c} --tier {tier} -> exit {rc}" + (f" ({kind})" if kind else ""))
            print(f"  -> check {c} {tier}: exit {rc} {kind or ''}")
    finally:
        sh(["git", "-C", target, "checkout", "--", "."])
        # the evidence files were rewritten by runs against the changed tree: put the committed ones back
        sh(["git", "-C", str(VERIF), "checkout", "--", "evidence"])
    ran.append("git -C /repo checkout -- .")
    dst = VERIF / "seeded" / sid
    dst.mkdir(parents=True, exist_ok=True)
    if src.resolve() != dst.resolve():
        shutil.copy(src / "patch.diff", dst / "patch.diff")
        shutil.copy(src / "demo.py", dst / "demo.py")
    try:
        meta = json.loads((src / "meta.json").read_text())
    except Exception:
        meta = {}
    old = {}
    if (dst / "meta.json").exists():
        try:
            old = json.loads((dst / "meta.json").read_text())
        except Exception:
            old = {}
    hist = old.get("history", [])
    hist.append({"repo_head": head, "verif_head": os.environ.get("SEEDRUN_VERIF_HEAD") or sh(["git", "-C", str(VERIF), "rev-parse", "--short", "HEAD"])[1].strip(), "results": results})
    meta.update({
        "property": prop, "seed_id": sid, "author": "independent sub-agent given only the property text and a scratch worktree",
        "agent_ran": meta.get("ran"), "ran": ran, "confirmed": {"demo_unchanged_exit": base, "suite_with_change": suite_line, "demo_changed_exit": demo},
        "results": results,
        "caught_by_quick": any(r["exit"] == 1 and r["tier"] == "quick" for r in results.values()) or bool(old.get("caught_by_quick") and False),
        "caught_by_thorough": any(r["exit"] == 1 and r["tier"] == "thorough" for r in results.values()),
        "caught_with_failing_input": any(r["violation"] == "failing-input" for r in results.values()),
        "history": hist,
    })
    (dst / "meta.json").write_text(json.dumps(meta, indent=1, sort_keys=True))
    return 0


if __name__ == "__main__":
    sys.exit(main())
