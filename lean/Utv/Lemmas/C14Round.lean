import Utv.Lemmas.C14Text
/-! C14 — the per-type round-trip lemmas, for every `P` that satisfies `PrimLaws`. -/
namespace Utv.C14

theorem firstFormat_none (P : Prims) (s suf : Str) (fs : List Str)
    (h : ∀ f ∈ fs, P.strptime s (f ++ suf) = none) : firstFormat P s suf fs = none := by
  induction fs with
  | nil => rfl
  | cons f fs ih =>
    simp only [firstFormat, h f (by simp)]
    exact ih (fun g hg => h g (by simp [hg]))

theorem firstFormat_unique (P : Prims) (s suf : Str) (fs : List Str) (g : Str) (v : DateTime)
    (hg : g ∈ fs) (hv : P.strptime s (g ++ suf) = some v)
    (ho : ∀ f ∈ fs, f ≠ g → P.strptime s (f ++ suf) = none) : firstFormat P s suf fs = some v := by
  induction fs with
  | nil => simp at hg
  | cons f fs ih =>
    by_cases hf : f = g
    · subst hf; simp [firstFormat, hv]
    · simp only [firstFormat, ho f (by simp) hf]
      rcases List.mem_cons.mp hg with h | h
      · exact absurd h.symm hf
      · exact ih h (fun f' hf' => ho f' (by simp [hf']))

theorem firstFormat_head (P : Prims) (s suf f : Str) (fs : List Str) (v : DateTime)
    (h : P.strptime s (f ++ suf) = some v) : firstFormat P s suf (f :: fs) = some v := by
  simp [firstFormat, h]

theorem lit_GMT : "GMT".toList = ['G', 'M', 'T'] := by decide
theorem lit_UTC : "UTC".toList = ['U', 'T', 'C'] := by decide
theorem lit_TZD : "TZD".toList = ['T', 'Z', 'D'] := by decide

/-- on a string over the `isoformat()` alphabet the clean-up steps of `to_datetime` do nothing -/
theorem toDatetime_iso (cfg : Cfg) (m : Mode) (P : Prims) (df : Bool) (s : Str) (h : s.all isoChar = true) :
    toDatetime cfg m P df s =
      (let formats := if df then DATE_FORMATS ++ DATETIME_FORMATS else DATETIME_FORMATS ++ DATE_FORMATS
       match firstFormat P s [] formats with
       | some v => .ok v
       | none =>
         let signed := contains ['+'] s || (cfg.negOffset && contains ['-'] s)
         match (if signed then firstFormat P s "%z".toList formats else none) with
         | some v => .ok v
         | none => if m.noExplicitCast then .perr else if s.isEmpty then .ok epochUtc
            else if P.floatParses s then .unmodelled "datetime from a numeric string (timestamp)" else .perr) := by
  have hG : 'G' ∉ s := not_mem_of_isoChar h (by decide)
  have hU : 'U' ∉ s := not_mem_of_isoChar h (by decide)
  have hZ : 'Z' ∉ s := not_mem_of_isoChar h (by decide)
  have hSp : ' ' ∉ s := not_mem_of_isoChar h (by decide)
  have hPl : ' ' ∉ s := hSp
  have e1 : contains "GMT".toList s = false := by rw [lit_GMT]; exact contains_of_not_mem hG
  have e2 : contains "UTC".toList s = false := by rw [lit_UTC]; exact contains_of_not_mem hU
  have e3 : endsWith ['Z'] s = false := endsWith_singleton_of_not_mem hZ
  have e4 : removeAll "GMT".toList s = s := by rw [lit_GMT]; exact removeAll_of_not_mem hG
  have e5 : removeAll "UTC".toList s = s := by rw [lit_UTC]; exact removeAll_of_not_mem hU
  have e6 : removeAll "TZD".toList s = s := by rw [lit_TZD]; exact removeAll_of_second_not_mem hZ
  have e7 : rstripChar 'Z' s = s := rstripChar_of_not_mem hZ
  have e8 : strip s = s := strip_of_no_space (fun c hc => isoChar_not_space (List.all_eq_true.mp h c hc))
  have e9 : contains [' ', '+'] s = false := contains_of_not_mem hSp
  have e10 : contains [' ', '-'] s = false := contains_of_not_mem hSp
  simp only [toDatetime, e1, e2, e3, e4, e5, e6, e7, e8, e9, e10, Bool.or_false, Bool.false_and, Bool.and_false,
    Bool.false_eq_true, ↓reduceIte]
  split
  · rename_i v hq; simp only [hq]
  · rename_i hq; simp only [hq]; rfl


theorem isoFmt_mem (c : Clock) : isoFmt c ∈ allFormats := by
  unfold isoFmt; split <;> decide

theorem sign_mem_isoDateTime (dt : DateTime) (o : Int) (h : dt.tz = some o) :
    (if o < 0 then '-' else '+') ∈ isoDateTime dt := by
  simp [isoDateTime, h, isoTz, isoOffset]

theorem rt_datetime (P : Prims) (hP : PrimLaws P) (m : Mode) (dt : DateTime) (hv : dt.valid = true) :
    toDatetime Cfg.fixed m P false (isoDateTime dt) = .ok dt := by
  rw [toDatetime_iso _ _ _ _ _ (all_isoChar_isoDateTime dt)]
  simp only [Bool.false_eq_true, ↓reduceIte]
  change (match firstFormat P (isoDateTime dt) [] allFormats with
    | some v => Res.ok v
    | none => _) = _
  cases htz : dt.tz with
  | none =>
    have := firstFormat_unique P (isoDateTime dt) [] allFormats (isoFmt dt.clock) dt (isoFmt_mem _)
      (by simpa using hP.naive_fmt dt hv htz)
      (fun f hf hne => by simpa using hP.naive_other dt hv htz f hf hne)
    simp [this]
  | some o =>
    have hs : dt.tz.isSome = true := by simp [htz]
    have h1 := firstFormat_none P (isoDateTime dt) [] allFormats
      (fun f hf => by simpa using hP.aware_plain dt hv hs f hf)
    have h2 := firstFormat_unique P (isoDateTime dt) "%z".toList allFormats (isoFmt dt.clock) dt (isoFmt_mem _)
      (hP.aware_fmt dt hv hs) (fun f hf hne => hP.aware_other dt hv hs f hf hne)
    have hsign : (contains ['+'] (isoDateTime dt) || (Cfg.fixed.negOffset && contains ['-'] (isoDateTime dt))) = true := by
      have hm := sign_mem_isoDateTime dt o htz
      by_cases ho : o < 0
      · simp only [ho, ↓reduceIte] at hm
        simp [Cfg.fixed, contains_singleton_of_mem hm]
      · simp only [ho, ↓reduceIte] at hm
        simp [contains_singleton_of_mem hm]
    simp only [h1, hsign, ↓reduceIte]
    change (match firstFormat P (isoDateTime dt) "%z".toList allFormats with
      | some v => Res.ok v
      | none => _) = _
    rw [h2]

theorem rt_date (P : Prims) (hP : PrimLaws P) (m : Mode) (d : Date) (hv : d.valid = true) :
    toDate Cfg.fixed m P (isoDate d) = .ok d := by
  unfold toDate
  rw [toDatetime_iso _ _ _ _ _ (all_isoChar_isoDate d)]
  have : firstFormat P (isoDate d) [] (DATE_FORMATS ++ DATETIME_FORMATS) = some ⟨d, midnight, none⟩ :=
    firstFormat_head P (isoDate d) [] "%Y-%m-%d".toList _ _ (by rw [List.append_nil]; exact hP.date_fmt d hv)
  simp only [↓reduceIte, this, bind]
  have hmid : (midnight == midnight) = true := by decide
  simp [hmid]
  rfl

theorem colon_mem_isoClock (k : Clock) : ':' ∈ isoClock k := by simp [isoClock]
theorem colon_mem_isoClockMs (k : Clock) : ':' ∈ isoClockMs k := by simp [isoClockMs]

theorem colon_mem_fromTime (t : TimeV) : ':' ∈ fromTime Cfg.fixed t := by
  unfold fromTime
  split
  · simp [Cfg.fixed, colon_mem_isoClockMs]
  · simp [isoTime, colon_mem_isoClock]

theorem rt_time (P : Prims) (hP : PrimLaws P) (m : Mode) (t : TimeV) (hv : t.valid = true) (hz : tzWholeOrBig t.tz = true)
    (hms : t.clock.us % 1000 = 0) : toTime Cfg.fixed m P (fromTime Cfg.fixed t) = .ok t := by
  unfold toTime
  rw [contains_singleton_of_mem (colon_mem_fromTime t), hP.time_iso t hv hz hms]
  rfl

theorem rt_delta (P : Prims) (hP : PrimLaws P) (m : Mode) (us : Int) (h : us.natAbs < maxDelta) :
    toTimedelta m P (durationIso us) = .ok us := by
  obtain ⟨g, hg, hsign, htd⟩ := hP.dur_iso us h
  have hne : (durationIso us).isEmpty = false := by
    unfold durationIso
    by_cases h0 : us < 0 <;> simp [h0]
  unfold toTimedelta
  simp only [hne, hP.dur_float us, hP.dur_re0 us, hg, htd, Bool.and_false, Bool.false_eq_true, ↓reduceIte]
  by_cases hneg : us < 0
  · have : (g.sign == ['-']) = true := by simpa [hneg] using hsign
    simp only [this, ↓reduceIte]
    congr 1; omega
  · have : (g.sign == ['-']) = false := by simpa [hneg] using hsign
    simp only [this, Bool.false_eq_true, ↓reduceIte]
    congr 1; omega


theorem Dec.canon_zero (neg : Bool) (e : Int) : (Dec.fin neg 0 e).canon = .fin false 0 0 := by
  simp [Dec.canon]

theorem rt_dec (P : Prims) (hP : PrimLaws P) (m : Mode) (d : Dec) (hd : d.inDomain Cfg.fixed = true) :
    ∃ d', toDecimal m P (fromDecimal Cfg.fixed P d) = .ok d' ∧ d'.canon = d.canon := by
  have hstr : ∀ d : Dec, d.expOk = true → toDecimal m P (.str (P.decStr d)) = .ok d := by
    intro d hok
    have hc := hP.dec_str_clean d
    have hne : (P.decStr d).isEmpty = false := by
      cases h : P.decStr d with
      | nil => exact absurd h hc.2
      | cons _ _ => rfl
    simp [toDecimal, hne, hc.1, hP.dec_str d hok]
  cases d with
  | nan => simp [Dec.inDomain] at hd
  | inf neg => exact ⟨_, hstr _ rfl, rfl⟩
  | fin neg c e =>
    simp only [Dec.inDomain, Bool.and_eq_true, decide_eq_true_eq] at hd
    have hok : (Dec.fin neg c e).expOk = true := by simp [Dec.expOk, hd.1.2]
    unfold fromDecimal
    by_cases hu : jsUnsafe c e = true
    · simp only [hu, ↓reduceIte]; exact ⟨_, hstr _ hok, rfl⟩
    · simp only [hu, Bool.false_eq_true, ↓reduceIte]
      by_cases he : (e == 0) = true
      · simp only [he, ↓reduceIte]
        have he0 : e = 0 := by simpa using he
        subst he0
        by_cases hc0 : c = 0
        · subst hc0
          cases neg <;> exact ⟨_, rfl, by simp [Dec.canon]⟩
        · cases neg
          · refine ⟨_, rfl, ?_⟩
            have : ¬ ((c : Int) < 0) := by omega
            simp [this]
          · refine ⟨_, rfl, ?_⟩
            have h1 : (-(c : Int) < 0) := by omega
            have h2 : 0 < c := by omega
            simp [h2]
      · simp only [he, Bool.false_eq_true, ↓reduceIte]
        by_cases ht : decTiny c e = true
        · simp only [Cfg.fixed, ht, Bool.and_self, ↓reduceIte]; exact ⟨_, hstr _ hok, rfl⟩
        · simp only [ht, Bool.and_false, Bool.false_eq_true, ↓reduceIte]
          obtain ⟨_, hz, hrt⟩ := hP.dec_float neg c e hd.1.1 (by simpa using hu) (by simpa using ht)
          by_cases hzf : (!m.noExplicitCast && (P.floatOfDec (.fin neg c e)).isZero) = true
          · have hz1 : (P.floatOfDec (.fin neg c e)).isZero = true := by
              simp only [Bool.and_eq_true] at hzf; exact hzf.2
            have hc0 : c = 0 := by rw [hz] at hz1; simpa using hz1
            subst hc0
            exact ⟨.fin false 0 0, by simp only [toDecimal, hzf, ↓reduceIte], by simp [Dec.canon]⟩
          · exact ⟨P.decOfFloat (P.floatOfDec (.fin neg c e)), by simp only [toDecimal, hzf, Bool.false_eq_true, ↓reduceIte], hrt⟩

theorem findIdx?_distinct {α β : Type} [BEq β] [LawfulBEq β] (f : α → β) :
    ∀ (l : List α) (i : Nat) (m : α), distinct (l.map f) = true → l[i]? = some m →
      findIdx? (fun x => f x == f m) l = some i
  | [], i, m, _, hm => by simp at hm
  | x :: xs, 0, m, _, hm => by
    have : x = m := by simpa using hm
    subst this; simp [findIdx?]
  | x :: xs, j + 1, m, hd, hm => by
    have hd1 : (xs.map f).contains (f x) = false := by
      simp only [List.map_cons, distinct, Bool.and_eq_true] at hd
      simpa using hd.1
    have hd2 : distinct (xs.map f) = true := by
      simp only [List.map_cons, distinct, Bool.and_eq_true] at hd
      exact hd.2
    have hm' : xs[j]? = some m := by simpa using hm
    have hmem : f m ∈ xs.map f := List.mem_map.mpr ⟨m, List.mem_of_getElem? hm', rfl⟩
    have hne : (f x == f m) = false := by
      cases h : f x == f m with
      | false => rfl
      | true =>
        have e : f x = f m := by simpa using h
        rw [e] at hd1
        have : (xs.map f).contains (f m) = true := by simpa using hmem
        rw [this] at hd1; cases hd1
    simp [findIdx?, hne, findIdx?_distinct f xs j m hd2 hm']

theorem rt_enum (m : Mode) (decl : EnumDecl) (i : Nat) (hwf : decl.wf = true) (hi : i < decl.members.length) :
    ∃ mem, decl.members[i]? = some mem ∧ toEnum Cfg.fixed m decl mem.2.toJson = .ok i := by
  have hm : decl.members[i]? = some decl.members[i] := List.getElem?_eq_getElem hi
  refine ⟨decl.members[i], hm, ?_⟩
  simp only [EnumDecl.wf, Bool.and_eq_true, List.all_eq_true] at hwf
  obtain ⟨⟨hdv, _⟩, hty⟩ := hwf
  have hval : findIdx? (fun m => m.2 == (decl.members[i]).2) decl.members = some i :=
    findIdx?_distinct (fun m : Str × EVal => m.2) decl.members i _ hdv hm
  have hty' := hty _ (List.getElem_mem hi)
  generalize decl.members[i] = mem at hm hval hty'
  obtain ⟨nm, v⟩ := mem
  cases v with
  | int k =>
    cases hmx : decl.mixin <;> simp [hmx] at hty' <;> cases m <;>
      simp [toEnum, EVal.toJson, hmx, hval, Mode.noExplicitCast, Mode.noDataLoss]
  | str s =>
    cases hmx : decl.mixin <;> simp [hmx] at hty' <;> cases m <;>
      simp [toEnum, EVal.toJson, hmx, hval, Cfg.fixed, Mode.noExplicitCast, Mode.noDataLoss]
  | tuple xs =>
    cases hmx : decl.mixin <;> simp [hmx] at hty'

/-- the member values of a declaration in the domain are JSON scalars -/
theorem wf_scalar (decl : EnumDecl) (hwf : decl.wf = true) (i : Nat) (mem : Str × EVal)
    (hm : decl.members[i]? = some mem) : mem.2.toJson.isContainer = false := by
  simp only [EnumDecl.wf, Bool.and_eq_true, List.all_eq_true] at hwf
  have := hwf.2 mem (List.mem_of_getElem? hm)
  obtain ⟨nm, v⟩ := mem
  cases v with
  | int _ => rfl
  | str _ => rfl
  | tuple xs => cases hmx : decl.mixin <;> simp [hmx] at this

theorem lit0 : "0".toList = natStr 0 := by decide
theorem lit1 : "1".toList = natStr 1 := by decide

theorem intStr_ne_alpha (i : Int) (c : Char) (r : Str) (hc : c.isDigit = false) (hm : c ≠ '-') : intStr i ≠ c :: r := by
  obtain ⟨d, r', he, hd⟩ := intStr_head i
  intro h
  rw [he] at h
  injection h with h1 _
  subst h1
  rcases hd with hd | hd
  · simp [hd] at hc
  · exact hm hd

theorem rt_intKey_strict (P : Prims) (s : Str) : toIntegerStr .strict P s = .perr := by
  simp [toIntegerStr, Mode.noExplicitCast]

theorem rt_intKey (P : Prims) (hP : PrimLaws P) (m : Mode) (hm : m.noExplicitCast = false) (i : Int) :
    toIntegerStr m P (intStr i) = .ok i := by
  unfold toIntegerStr
  simp only [hm, Bool.false_eq_true, ↓reduceIte]
  have hne : (intStr i).isEmpty = false := by
    cases h : intStr i with
    | nil => exact absurd h (intStr_ne_nil i)
    | cons _ _ => rfl
  simp only [hne, Bool.false_eq_true, ↓reduceIte, lower_intStr]
  by_cases hF : FALSE_VALUES.contains (intStr i) = true
  · simp only [hF, ↓reduceIte]
    have : intStr i ∈ FALSE_VALUES := by simpa using hF
    simp only [FALSE_VALUES, List.mem_cons, List.not_mem_nil, or_false] at this
    rcases this with h | h | h | h | h
    · rw [lit0] at h; have := intStr_eq_natStr h; subst this; rfl
    all_goals exact absurd h (intStr_ne_alpha i _ _ (by decide) (by decide))
  · simp only [hF, Bool.false_eq_true, ↓reduceIte]
    by_cases hT : TRUE_VALUES.contains (intStr i) = true
    · simp only [hT, ↓reduceIte]
      have : intStr i ∈ TRUE_VALUES := by simpa using hT
      simp only [TRUE_VALUES, List.mem_cons, List.not_mem_nil, or_false] at this
      rcases this with h | h | h | h | h | h
      · rw [lit1] at h; have := intStr_eq_natStr h; subst this; rfl
      all_goals exact absurd h (intStr_ne_alpha i _ _ (by decide) (by decide))
    · simp only [hT, Bool.false_eq_true, ↓reduceIte, hP.dec_int i, Dec.toInt?, BEq.rfl, Bool.not_true, Bool.and_false]
      congr 1
      by_cases hn : i < 0 <;> simp [hn] <;> omega

end Utv.C14
