import Utv.Lemmas.C05Fold
/-! field_first_parse: the lower-casing pass, the alias loop, the field loop and the addition loop. -/
namespace Utv.C05
open Spec

variable {V : Type}

/-- the key after the lower-casing pass of field_first_parse -/
def nrm (W : World V) (P : Parser V) (k : Key) : Key := if W.lower k ∈ P.ciNames then W.lower k else k

/-- the input values given under keys that normalise to `a`, in input order -/
def valuesAt (W : World V) (P : Parser V) (data : List (Key × V)) (a : Key) : List V :=
  data.filterMap fun kv => if nrm W P kv.1 = a then some kv.2 else none

theorem valuesAt_snoc_eq (W : World V) (P : Parser V) (data : List (Key × V)) (kv : Key × V) {a : Key}
    (h : nrm W P kv.1 = a) : valuesAt W P (data ++ [kv]) a = valuesAt W P data a ++ [kv.2] := by
  simp [valuesAt, List.filterMap_append, h]

theorem valuesAt_snoc_ne (W : World V) (P : Parser V) (data : List (Key × V)) (kv : Key × V) {a : Key}
    (h : ¬ nrm W P kv.1 = a) : valuesAt W P (data ++ [kv]) a = valuesAt W P data a := by
  simp [valuesAt, List.filterMap_append, h]

theorem nrm_ci {W : World V} {P : Parser V} {k : Key} (h : W.lower k ∈ P.ciNames) : nrm W P k = W.lower k := by
  simp [nrm, h]

theorem nrm_raw {W : World V} {P : Parser V} {k : Key} (h : W.lower k ∉ P.ciNames) : nrm W P k = k := by
  simp [nrm, h]

/-- no key of the input is normalised onto another (different) raw non-ci key -/
theorem nrm_eq_raw {W : World V} (LL : LowerLaws W) (P : Parser V) {k k' : Key}
    (hk : W.lower k ∉ P.ciNames) (h : nrm W P k' = k) : k' = k := by
  by_cases hc : W.lower k' ∈ P.ciNames
  · rw [nrm_ci hc] at h
    exfalso; apply hk; rw [← h, LL.idem]; exact hc
  · rw [nrm_raw hc] at h; exact h

theorem lookupKey_eq_nrm (W : World V) (P : Parser V) (k : Key) : lookupKey W P k = nrm W P k := by
  unfold lookupKey nrm
  by_cases h : W.lower k ∈ P.ciNames <;> simp [h]

theorem ffMergeStep_eq [DecidableEq V] {W : World V} {P : Parser V} (m : Merged V) (kv : Key × V) :
    ffMergeStep W P m kv =
      match dget (nrm W P kv.1) m.data with
      | some v0 => if v0 ≠ kv.2 ∧ nrm W P kv.1 ∉ m.conflicts
                   then { m with conflicts := m.conflicts ++ [nrm W P kv.1] } else m
      | none => { m with data := dset (nrm W P kv.1) kv.2 m.data } := by
  unfold ffMergeStep
  simp only [lookupKey_eq_nrm]
  cases dget (nrm W P kv.1) m.data with
  | none => rfl
  | some v0 =>
    simp only
    by_cases hc : nrm W P kv.1 ∈ m.conflicts
    · simp [hc]
    · simp [hc]

/-! ### the lower-casing pass -/

structure MergeInv (W : World V) (P : Parser V) (data : List (Key × V)) (m : Merged V) : Prop where
  first : ∀ a, dget a m.data = (valuesAt W P data a).head?
  conf : ∀ a, a ∈ m.conflicts ↔ ∃ v ∈ valuesAt W P data a, some v ≠ (valuesAt W P data a).head?

theorem head?_snoc_of_some {α : Type} {l : List α} {x v : α} (h : l.head? = some v) : (l ++ [x]).head? = some v := by
  cases l with
  | nil => simp at h
  | cons y ys => simpa using h

theorem eq_nil_of_head?_none {α : Type} {l : List α} (h : l.head? = none) : l = [] := by
  cases l with
  | nil => rfl
  | cons y ys => simp at h

theorem mergeInv_step [DecidableEq V] {W : World V} {P : Parser V} {data : List (Key × V)}
    {m : Merged V} (kv : Key × V) (inv : MergeInv W P data m) :
    MergeInv W P (data ++ [kv]) (ffMergeStep W P m kv) := by
  rw [ffMergeStep_eq m kv]
  cases hd : dget (nrm W P kv.1) m.data with
  | some v0 =>
    have hh : (valuesAt W P data (nrm W P kv.1)).head? = some v0 := by rw [← inv.first, hd]
    simp only
    have hdata : ∀ m' : Merged V, m'.data = m.data → ∀ a, dget a m'.data = (valuesAt W P (data ++ [kv]) a).head? := by
      intro m' hm' a
      rw [hm']
      by_cases ha : nrm W P kv.1 = a
      · rw [valuesAt_snoc_eq W P data kv ha, inv.first]
        subst ha
        rw [head?_snoc_of_some hh, hh]
      · rw [valuesAt_snoc_ne W P data kv ha, inv.first]
    constructor
    · intro a
      apply hdata
      split <;> rfl
    · intro a
      by_cases ha : nrm W P kv.1 = a
      · rw [valuesAt_snoc_eq W P data kv ha]
        subst ha
        rw [head?_snoc_of_some hh]
        by_cases hne : v0 ≠ kv.2 ∧ nrm W P kv.1 ∉ m.conflicts
        · rw [if_pos hne]
          constructor
          · intro _
            exact ⟨kv.2, by simp, by intro e; exact hne.1 (Option.some.inj e).symm⟩
          · intro _; simp
        · rw [if_neg hne, inv.conf, hh]
          constructor
          · rintro ⟨v, hv, hvn⟩; exact ⟨v, by simp [hv], hvn⟩
          · rintro ⟨v, hv, hvn⟩
            rcases List.mem_append.mp hv with hv | hv
            · exact ⟨v, hv, hvn⟩
            · have hv : v = kv.2 := by simpa using hv
              subst hv
              have hvn' : v0 ≠ kv.2 := fun e => hvn (by rw [e])
              have hin : nrm W P kv.1 ∈ m.conflicts := by
                by_cases hin : nrm W P kv.1 ∈ m.conflicts
                · exact hin
                · exact absurd ⟨hvn', hin⟩ hne
              have := (inv.conf (nrm W P kv.1)).1 hin
              rw [hh] at this; exact this
      · rw [valuesAt_snoc_ne W P data kv ha]
        have hane : ¬ a = nrm W P kv.1 := fun e => ha e.symm
        split
        · simp only [List.mem_append, List.mem_singleton, hane, or_false]; exact inv.conf a
        · exact inv.conf a
  | none =>
    have hh : (valuesAt W P data (nrm W P kv.1)).head? = none := by rw [← inv.first, hd]
    have hnil : valuesAt W P data (nrm W P kv.1) = [] := eq_nil_of_head?_none hh
    simp only
    constructor
    · intro a
      rw [dget_dset]
      by_cases ha : nrm W P kv.1 = a
      · rw [valuesAt_snoc_eq W P data kv ha]
        subst ha; simp [hnil]
      · rw [valuesAt_snoc_ne W P data kv ha, if_neg ha, inv.first]
    · intro a
      by_cases ha : nrm W P kv.1 = a
      · rw [valuesAt_snoc_eq W P data kv ha]
        subst ha
        rw [inv.conf, hnil]
        simp
      · rw [valuesAt_snoc_ne W P data kv ha]; exact inv.conf a

theorem mergeInv_fold [DecidableEq V] {W : World V} (LL : LowerLaws W) {P : Parser V} (data : List (Key × V))
    (hnd : (data.map (·.1)).Nodup) : MergeInv W P data (data.foldl (ffMergeStep W P) {}) := by
  induction data using Utv.List.rev_ind with
  | nil => exact ⟨fun a => by simp [valuesAt], fun a => by simp [valuesAt]⟩
  | snoc l kv ih =>
    rw [List.foldl_append]
    simp only [List.foldl_cons, List.foldl_nil]
    rw [List.map_append, List.nodup_append] at hnd
    exact mergeInv_step kv (ih hnd.1)

theorem mergeInv [DecidableEq V] {W : World V} (LL : LowerLaws W) {P : Parser V} (data : List (Key × V))
    (hnd : (data.map (·.1)).Nodup) : MergeInv W P data (ffMerge W P data) := by
  unfold ffMerge
  by_cases he : P.ciNames.isEmpty = true
  · simp only [he, if_true]
    have hnil : P.ciNames = [] := by simpa using he
    have hn : ∀ k, nrm W P k = k := by intro k; simp [nrm, hnil]
    have hfirst : ∀ a, dget a data = (valuesAt W P data a).head? := by
      intro a
      clear hnd
      induction data with
      | nil => simp [valuesAt]
      | cons x xs ih =>
        rw [dget_cons]
        simp only [valuesAt, List.filterMap_cons, hn]
        by_cases h : x.1 = a
        · simp [h]
        · simp only [h, if_false]; rw [ih]; simp [valuesAt, hn]
    refine ⟨hfirst, ?_⟩
    intro a
    simp only [List.not_mem_nil, false_iff, not_exists, not_and, ne_eq, Decidable.not_not]
    intro v hv
    -- with distinct keys at most one value is given under `a`
    have : valuesAt W P data a = [v] := by
      unfold valuesAt at hv ⊢
      simp only [hn] at hv ⊢
      clear hfirst
      induction data with
      | nil => simp at hv
      | cons x xs ih =>
        simp only [List.map_cons, List.nodup_cons] at hnd
        simp only [List.filterMap_cons] at hv ⊢
        by_cases h : x.1 = a
        · have hx : xs.filterMap (fun kv => if kv.1 = a then some kv.2 else none) = [] := by
            rw [List.filterMap_eq_nil_iff]
            intro y hy
            have : ¬ y.1 = a := by
              intro e; apply hnd.1; rw [h, ← e]; exact List.mem_map_of_mem (f := (·.1)) hy
            simp [this]
          simp only [h, if_true, hx, List.mem_singleton] at hv ⊢
          rw [hv]
        · simp only [h, if_false] at hv ⊢
          exact ih hnd.2 hv
    rw [this]; rfl
  · simp only [he, Bool.false_eq_true, if_false]
    exact mergeInv_fold LL data hnd

end Utv.C05

namespace Utv.C05
open Spec
variable {V : Type}

/-! ### the alias loop -/

theorem any_ne_false_of [DecidableEq V] {l : List V} {x : V} (h : ¬ ∃ v ∈ l, some v ≠ some x) :
    l.any (· ≠ x) = false := by
  rw [List.any_eq_false]
  intro y hy
  simp only [ne_eq, decide_eq_true_eq, Decidable.not_not]
  by_cases e : y = x
  · exact e
  · exact absurd ⟨y, hy, fun e' => e (Option.some.inj e')⟩ h

theorem ffPick_some [DecidableEq V] (m : Merged V) (vals : Key → List V)
    (h1 : ∀ a, dget a m.data = (vals a).head?)
    (h2 : ∀ a, a ∈ m.conflicts ↔ ∃ v ∈ vals a, some v ≠ (vals a).head?) :
    ∀ (as : List Key) (v : V), ffPick false m as (some v) = (some v, (as.flatMap vals).any (· ≠ v)) := by
  intro as
  induction as with
  | nil => intro v; simp [ffPick]
  | cons a as ih =>
    intro v
    simp only [ffPick, List.flatMap_cons, List.any_append]
    cases hd : dget a m.data with
    | none =>
      have : vals a = [] := eq_nil_of_head?_none (by rw [← h1, hd])
      simp [this, ih]
    | some x =>
      have hh : (vals a).head? = some x := by rw [← h1, hd]
      obtain ⟨xs, hxs⟩ : ∃ xs, vals a = x :: xs := by
        cases hv : vals a with
        | nil => simp [hv] at hh
        | cons y ys => simp [hv] at hh; exact ⟨ys, by rw [hh]⟩
      simp only [Bool.false_eq_true, if_false]
      by_cases hxv : x ≠ v
      · simp [hxv, hxs]
      · have hxv' : x = v := by simpa using hxv
        subst hxv'
        simp only [ne_eq, not_true_eq_false, if_false]
        by_cases hc : a ∈ m.conflicts
        · have hcc : m.conflicts.contains a = true := by simpa using hc
          simp only [hcc, if_true]
          obtain ⟨y, hy, hyn⟩ := (h2 a).1 hc
          rw [hh] at hyn
          have : (vals a).any (· ≠ x) = true := by
            rw [List.any_eq_true]; exact ⟨y, hy, by simpa using fun e => hyn (by rw [e])⟩
          rw [this, Bool.true_or]
        · have hcc : m.conflicts.contains a = false := by simpa using hc
          simp only [hcc, Bool.false_eq_true, if_false]
          have hno : ¬ ∃ v ∈ vals a, some v ≠ some x := by
            intro h; apply hc; rw [h2, hh]; exact h
          rw [ih, any_ne_false_of hno]
          simp

/-- what the alias loop returns: the first candidate, and whether another one differs from it -/
theorem ffPick_none [DecidableEq V] (ig : Bool) (m : Merged V) (vals : Key → List V)
    (h1 : ∀ a, dget a m.data = (vals a).head?)
    (h2 : ∀ a, a ∈ m.conflicts ↔ ∃ v ∈ vals a, some v ≠ (vals a).head?) (as : List Key) :
    ffPick ig m as none = ((as.flatMap vals).head?,
      !ig && (match as.flatMap vals with | [] => false | c :: rest => rest.any (· ≠ c))) := by
  induction as with
  | nil => simp [ffPick]
  | cons a as ih =>
    simp only [ffPick, List.flatMap_cons]
    cases hd : dget a m.data with
    | none =>
      have : vals a = [] := eq_nil_of_head?_none (by rw [← h1, hd])
      simp [this, ih]
    | some x =>
      have hh : (vals a).head? = some x := by rw [← h1, hd]
      obtain ⟨xs, hxs⟩ : ∃ xs, vals a = x :: xs := by
        cases hv : vals a with
        | nil => simp [hv] at hh
        | cons y ys => simp [hv] at hh; exact ⟨ys, by rw [hh]⟩
      cases ig with
      | true => simp [hxs]
      | false =>
        simp only [Bool.false_eq_true, if_false, hxs, List.cons_append, List.head?_cons, Bool.not_false, Bool.true_and]
        by_cases hc : a ∈ m.conflicts
        · have hcc : m.conflicts.contains a = true := by simpa using hc
          simp only [hcc, if_true]
          obtain ⟨y, hy, hyn⟩ := (h2 a).1 hc
          rw [hh] at hyn
          rw [hxs] at hy
          have hy' : y ∈ xs := by
            rcases List.mem_cons.mp hy with e | e
            · exact absurd (by rw [e]) hyn
            · exact e
          have : xs.any (· ≠ x) = true := by
            rw [List.any_eq_true]; exact ⟨y, hy', by simpa using fun e => hyn (by rw [e])⟩
          rw [List.any_append, this, Bool.true_or]
        · have hcc : m.conflicts.contains a = false := by simpa using hc
          simp only [hcc, Bool.false_eq_true, if_false]
          have hno : ¬ ∃ v ∈ xs, some v ≠ some x := by
            rintro ⟨y, hy, hyn⟩; apply hc; rw [h2, hh, hxs]; exact ⟨y, List.mem_cons_of_mem _ hy, hyn⟩
          rw [ffPick_some m vals h1 h2, List.any_append, any_ne_false_of hno, Bool.false_or]

/-! ### candidates of a field, seen through the lower-casing pass -/

theorem flatMap_congr' {α β : Type} {l : List α} {f g : α → List β} (h : ∀ a ∈ l, f a = g a) :
    l.flatMap f = l.flatMap g := by
  induction l with
  | nil => rfl
  | cons x xs ih =>
    simp only [List.flatMap_cons]
    rw [h x (by simp), ih (fun a ha => h a (List.mem_cons_of_mem _ ha))]

theorem filterMap_congr' {α β : Type} {l : List α} {f g : α → Option β} (h : ∀ a ∈ l, f a = g a) :
    l.filterMap f = l.filterMap g := by
  induction l with
  | nil => rfl
  | cons x xs ih =>
    simp only [List.filterMap_cons]
    rw [h x (by simp), ih (fun a ha => h a (List.mem_cons_of_mem _ ha))]

theorem normKey_eq_iff_nrm {W : World V} (LL : LowerLaws W) {P : Parser V} (wf : WF W P) {kf : Key × PField V}
    (hf : kf ∈ P.fields) {a : Key} (ha : a ∈ kf.2.allAliases) (k : Key) :
    normKey W kf.2 k = a ↔ nrm W P k = a := by
  unfold normKey
  cases hci : kf.2.ci
  · -- case-sensitive field
    simp only [Bool.false_eq_true, if_false]
    have hnc : W.lower a ∉ P.ciNames := wf.nonci kf hf hci a ha
    constructor
    · intro e; subst e; exact nrm_raw hnc
    · intro e
      by_cases hc : W.lower k ∈ P.ciNames
      · rw [nrm_ci hc] at e
        exfalso; apply hnc; rw [← e, LL.idem]; exact hc
      · rw [nrm_raw hc] at e; exact e
  · simp only [if_true]
    have hla : W.lower a = a := wf.ci_lower kf hf hci a ha
    have hac : a ∈ P.ciNames := by rw [wf.cin, mem_ciNamesOf]; exact ⟨kf, hf, hci, ha⟩
    constructor
    · intro e; rw [← e] at hac; rw [nrm_ci hac, e]
    · intro e
      by_cases hc : W.lower k ∈ P.ciNames
      · rw [nrm_ci hc] at e; exact e
      · rw [nrm_raw hc] at e
        exfalso; apply hc; rw [e, hla]; exact hac

theorem candidates_eq {W : World V} (LL : LowerLaws W) {P : Parser V} (wf : WF W P) {kf : Key × PField V}
    (hf : kf ∈ P.fields) (data : List (Key × V)) :
    candidates W kf.2 data = kf.2.allAliases.flatMap (valuesAt W P data) := by
  unfold candidates valuesAt
  apply flatMap_congr'
  intro a ha
  apply filterMap_congr'
  intro kv _
  by_cases h : normKey W kf.2 kv.1 = a
  · simp [h, (normKey_eq_iff_nrm LL wf hf ha kv.1).1 h]
  · have : ¬ nrm W P kv.1 = a := fun e => h ((normKey_eq_iff_nrm LL wf hf ha kv.1).2 e)
    simp [h, this]

end Utv.C05

namespace Utv.C05
open Spec
variable {V : Type}

/-! ### the reference run: per-field contracts folded in declaration order -/

def outOf [DecidableEq V] (W : World V) (o : Opts V) (data : List (Key × V)) : PField V → FieldOut V :=
  fun f => fieldContract W o f data

def anyAccepts (W : World V) (P : Parser V) (k : Key) : Bool := P.fields.any fun kf => accepts W kf.2 k

def extras (W : World V) (P : Parser V) (data : List (Key × V)) : List (Key × V) :=
  data.filter fun kv => !anyAccepts W P kv.1

def addAll (W : World V) (P : Parser V) (o : Opts V) (l : List (Key × V)) : List (Key × V) × List Err :=
  l.foldl (addStep W P o) ([], [])

def refRun [DecidableEq V] (W : World V) (P : Parser V) (o : Opts V) (data : List (Key × V)) : St V :=
  let st := depsCheck P (foldOut (outOf W o data) (P.fields.map (·.2)) {})
  let r := addAll W P o (extras W P data)
  { st with result := dupdate st.result r.1, errs := st.errs ++ r.2 }

theorem provided_eq [DecidableEq V] (W : World V) (o : Opts V) (f : PField V) (data : List (Key × V)) :
    (fieldContract W o f data).provided = !(candidates W f data).isEmpty := by
  unfold fieldContract
  cases candidates W f data with
  | nil => simp only; split <;> rfl
  | cons c rest =>
    simp only
    split
    · rfl
    · split
      · rfl
      · split <;> rfl

theorem addAll_ignore (W : World V) (P : Parser V) (o : Opts V) (h : o.addition = .ignore) (l : List (Key × V)) :
    addAll W P o l = ([], []) := by
  unfold addAll
  induction l with
  | nil => rfl
  | cons x xs ih =>
    simp only [List.foldl_cons]
    have : addStep W P o ([], []) x = ([], []) := by simp [addStep, parseAddition, h]
    rw [this]; exact ih

/-! ### the field loop -/

theorem ffFieldStep_eq [DecidableEq V] {W : World V} (LL : LowerLaws W) {P : Parser V} (wf : WF W P) (o : Opts V)
    {data : List (Key × V)} (hnd : (data.map (·.1)).Nodup) {kf : Key × PField V} (hf : kf ∈ P.fields) (s : FfSt V) :
    ffFieldStep {} W o (ffMerge W P data) s kf =
      { st := applyOut kf.2 (outOf W o data kf.2) s.st
        used := if (outOf W o data kf.2).provided then s.used ++ kf.2.allAliases else s.used } := by
  have inv := mergeInv LL (P := P) data hnd
  unfold ffFieldStep outOf
  simp only
  rw [ffPick_none _ _ (valuesAt W P data) inv.first inv.conf, ← candidates_eq LL wf hf, provided_eq]
  cases hc : candidates W kf.2 data with
  | nil =>
    simp only [List.head?_nil, List.isEmpty_nil, Bool.not_true, Bool.false_eq_true, if_false]
    rw [absent_eq W o kf.2 data s.st hc]
  | cons c rest =>
    simp only [List.head?_cons, List.isEmpty_cons, Bool.not_false, if_true]
    rw [provide_eq W o kf.2 data s.st c rest hc]

theorem ff_fold [DecidableEq V] {W : World V} (LL : LowerLaws W) {P : Parser V} (wf : WF W P) (o : Opts V)
    {data : List (Key × V)} (hnd : (data.map (·.1)).Nodup) (l : List (Key × PField V)) (hl : ∀ kf ∈ l, kf ∈ P.fields)
    (s : FfSt V) :
    l.foldl (ffFieldStep {} W o (ffMerge W P data)) s =
      { st := foldOut (outOf W o data) (l.map (·.2)) s.st
        used := s.used ++ (l.filter fun kf => (outOf W o data kf.2).provided).flatMap (·.2.allAliases) } := by
  induction l generalizing s with
  | nil => simp
  | cons kf l ih =>
    rw [List.foldl_cons, ffFieldStep_eq LL wf o hnd (hl kf (by simp)), ih (fun x hx => hl x (List.mem_cons_of_mem _ hx))]
    simp only [List.map_cons, foldOut_cons, List.filter_cons]
    cases (outOf W o data kf.2).provided <;> simp

end Utv.C05

namespace Utv.C05
open Spec
variable {V : Type}

/-! ### the addition loop -/

theorem valuesAt_nil_of_new {W : World V} (LL : LowerLaws W) (P : Parser V) {data : List (Key × V)} {k : Key}
    (hc : W.lower k ∉ P.ciNames) (hnew : k ∉ data.map (·.1)) : valuesAt W P data k = [] := by
  unfold valuesAt
  rw [List.filterMap_eq_nil_iff]
  intro kv' hkv'
  by_cases he : nrm W P kv'.1 = k
  · exfalso; apply hnew
    rw [← nrm_eq_raw LL P hc he]; exact List.mem_map_of_mem (f := (·.1)) hkv'
  · simp [he]

theorem lower_mem_ciNames_accepts {W : World V} {P : Parser V} (wf : WF W P) {k : Key} (h : W.lower k ∈ P.ciNames) :
    anyAccepts W P k = true := by
  rw [wf.cin, mem_ciNamesOf] at h
  obtain ⟨kf, hf, hci, ha⟩ := h
  unfold anyAccepts
  rw [List.any_eq_true]
  refine ⟨kf, hf, ?_⟩
  rw [accepts_iff]; unfold normKey; simp [hci, ha]

/-- for a key in normal form: accepted by a field iff it is one of the field's aliases -/
theorem accepts_nrm_iff {W : World V} (LL : LowerLaws W) {P : Parser V} (wf : WF W P) {kf : Key × PField V}
    (hf : kf ∈ P.fields) (k' : Key) : accepts W kf.2 (nrm W P k') = true ↔ nrm W P k' ∈ kf.2.allAliases := by
  constructor
  · intro h
    rw [accepts_iff] at h
    unfold normKey at h
    cases hci : kf.2.ci
    · simpa [hci] using h
    · simp only [hci, if_true] at h
      have hcn : W.lower (nrm W P k') ∈ P.ciNames := by rw [wf.cin, mem_ciNamesOf]; exact ⟨kf, hf, hci, h⟩
      by_cases hc : W.lower k' ∈ P.ciNames
      · rw [nrm_ci hc] at h ⊢; rw [LL.idem] at h; exact h
      · rw [nrm_raw hc] at hcn; exact absurd hcn hc
  · intro h; exact (wf.accepts_alias hf h).1

/-- the lookup key of an input key belongs to a provided field exactly when some field accepts the key -/
theorem used_lookup_iff [DecidableEq V] {W : World V} (LL : LowerLaws W) {P : Parser V} (wf : WF W P) (o : Opts V)
    {data : List (Key × V)} {kv : Key × V} (hkv : kv ∈ data) :
    ((P.fields.filter fun kf => (outOf W o data kf.2).provided).flatMap (·.2.allAliases)).contains (nrm W P kv.1)
      = anyAccepts W P kv.1 := by
  rw [Bool.eq_iff_iff]
  unfold anyAccepts
  rw [List.contains_iff_mem, List.any_eq_true]
  simp only [List.mem_flatMap, List.mem_filter]
  constructor
  · rintro ⟨kf, ⟨hf, _⟩, hmem⟩
    refine ⟨kf, hf, ?_⟩
    rw [accepts_iff, (normKey_eq_iff_nrm LL wf hf hmem kv.1).2 rfl]; exact hmem
  · rintro ⟨kf, hf, hacc⟩
    have hm : normKey W kf.2 kv.1 ∈ kf.2.allAliases := (accepts_iff W kf.2 kv.1).1 hacc
    have hn : nrm W P kv.1 = normKey W kf.2 kv.1 := (normKey_eq_iff_nrm LL wf hf hm kv.1).1 rfl
    refine ⟨kf, ⟨hf, ?_⟩, by rw [hn]; exact hm⟩
    unfold outOf; rw [provided_eq, candidates_eq LL wf hf]
    have : kv.2 ∈ kf.2.allAliases.flatMap (valuesAt W P data) := by
      rw [List.mem_flatMap]
      refine ⟨nrm W P kv.1, by rw [hn]; exact hm, ?_⟩
      unfold valuesAt; rw [List.mem_filterMap]; exact ⟨kv, hkv, by simp⟩
    cases hl : kf.2.allAliases.flatMap (valuesAt W P data) with
    | nil => rw [hl] at this; simp at this
    | cons _ _ => simp

theorem ffAdditions_eq [DecidableEq V] {W : World V} (LL : LowerLaws W) {P : Parser V} (wf : WF W P) (o : Opts V)
    (data : List (Key × V)) (st : St V) :
    ffAdditions W P o
        ((P.fields.filter fun kf => (outOf W o data kf.2).provided).flatMap (·.2.allAliases)) data st =
      { st with result := dupdate st.result (addAll W P o (extras W P data)).1
                errs := st.errs ++ (addAll W P o (extras W P data)).2 } := by
  unfold ffAdditions
  by_cases hi : o.addition = .ignore
  · simp [hi, addAll_ignore W P o hi, dupdate]
  · simp only [hi, if_false]
    have hfold : ∀ (used : List Key) (l : List (Key × V)) (init : List (Key × V) × List Err),
        l.foldl (fun acc kv => if used.contains (lookupKey W P kv.1) then acc else addStep W P o acc kv) init
          = (l.filter fun kv => !used.contains (lookupKey W P kv.1)).foldl (addStep W P o) init := by
      intro used l
      induction l with
      | nil => intro init; rfl
      | cons x xs ih =>
        intro init
        simp only [List.foldl_cons, List.filter_cons]
        cases hu : used.contains (lookupKey W P x.1)
        · simp only [Bool.false_eq_true, if_false, Bool.not_false, if_true, List.foldl_cons]; exact ih _
        · simp only [if_true, Bool.not_true, Bool.false_eq_true, if_false]; exact ih _
    rw [hfold]
    have hfilter : data.filter (fun kv =>
          !((P.fields.filter fun kf => (outOf W o data kf.2).provided).flatMap (·.2.allAliases)).contains
              (lookupKey W P kv.1))
        = extras W P data := by
      unfold extras
      apply List.filter_congr
      intro kv hkv
      rw [lookupKey_eq_nrm, used_lookup_iff LL wf o hkv]
    rw [hfilter]
    rfl

/-- **field_first_parse is the reference run.** -/
theorem fieldFirst_eq_ref [DecidableEq V] {W : World V} (LL : LowerLaws W) {P : Parser V} (wf : WF W P) (o : Opts V)
    {data : List (Key × V)} (hnd : (data.map (·.1)).Nodup) :
    fieldFirst {} W P o data = refRun W P o data := by
  unfold fieldFirst refRun
  simp only
  rw [ff_fold LL wf o hnd P.fields (fun _ h => h)]
  simp only [List.nil_append]
  rw [ffAdditions_eq LL wf o data]

end Utv.C05
