import Utv.Model.C08Spec
/-!
C08 — decorated functions get Python's binding with conforming arguments and result.
-/
namespace Utv.C08
set_option linter.unusedSectionVars false
variable {N V T : Type} [DecidableEq N] [DecidableEq V]

/-! ### generators: the wrappers are the undecorated generator with every value converted -/

theorem convBy_eq_convO (W : World N V T) (t : Option T) (v : V) :
    convBy W t v = match Spec.convO W t v with | some x => .ok x | none => .error .perr := by
  unfold convBy Spec.convO
  cases t with
  | none => rfl
  | some t => cases W.conv t v <;> rfl

/-- a sent value as the wrapper hands it to the raw generator: converted, or the conversion failed -/
def convInp (W : World N V T) (g : GenTypes T) : Option V → Option (Option V)
  | none => some none
  | some x => (Spec.convO W g.sendT x).map some

theorem genTrace_eq_wrapTrace (W : World N V T) (g : GenTypes T) {σ : Type} (step : σ → Option V → Step σ V)
    (rest : List (Option V)) : ∀ (st : σ) (inp : Option V),
      Spec.genTrace W g step st inp rest
        = match convInp W g inp with
          | none => [.raised]
          | some inp' => wrapTrace W g step st inp' rest := by
  induction rest with
  | nil =>
    intro st inp
    unfold Spec.genTrace wrapTrace
    cases inp with
    | none =>
      simp only [convInp]
      cases step st none with
      | ret r => cases r <;> simp [convBy_eq_convO] <;> (try split <;> simp_all)
      | yield v st' => simp [convBy_eq_convO]; split <;> simp_all
    | some x =>
      simp only [convInp]
      cases hx : Spec.convO W g.sendT x with
      | none => simp
      | some x' =>
        simp only [Option.map_some]
        cases step st (some x') with
        | ret r => cases r <;> simp [convBy_eq_convO] <;> (try split <;> simp_all)
        | yield v st' => simp [convBy_eq_convO]; split <;> simp_all
  | cons nxt more ih =>
    intro st inp
    unfold Spec.genTrace wrapTrace
    have tail : ∀ st', Spec.genTrace W g step st' nxt more =
        (match nxt with
          | none => wrapTrace W g step st' none more
          | some x =>
            match convBy W g.sendT x with
            | .error _ => [Ev.raised]
            | .ok x' => wrapTrace W g step st' (some x') more) := by
      intro st'
      rw [ih st' nxt]
      cases nxt with
      | none => simp [convInp]
      | some x =>
        simp only [convInp, convBy_eq_convO]
        cases Spec.convO W g.sendT x <;> simp
    cases inp with
    | none =>
      simp only [convInp]
      cases step st none with
      | ret r => cases r <;> simp [convBy_eq_convO] <;> (try split <;> simp_all)
      | yield v st' =>
        simp only [convBy_eq_convO, tail]
        cases Spec.convO W g.yieldT v with
        | none => simp
        | some y =>
          cases nxt with
          | none => simp
          | some x2 => simp; cases Spec.convO W g.sendT x2 <;> rfl
    | some x =>
      simp only [convInp]
      cases hx : Spec.convO W g.sendT x with
      | none => simp
      | some x' =>
        simp only [Option.map_some]
        cases step st (some x') with
        | ret r => cases r <;> simp [convBy_eq_convO] <;> (try split <;> simp_all)
        | yield v st' =>
          simp only [convBy_eq_convO, tail]
          cases Spec.convO W g.yieldT v with
          | none => simp
          | some y =>
          cases nxt with
          | none => simp
          | some x2 => simp; cases Spec.convO W g.sendT x2 <;> rfl

/-- **C08 (generators).**  For every raw generator (any state space, any step function), every declared
yield / send / return type, every transformer and every finite sequence of caller inputs (`next()` / `send(x)`
after the initial `next()`), the events the caller of the wrapper observes are exactly those of the undecorated
generator resumed with the converted sends, each yielded and returned value converted, cut at the first value that
does not convert (there the caller gets a ParseError).  `wrapTrace` is the loop shared by `sync_from_generator` and
(after fix C08-asend) `async_from_generator`; the lazy wrappers forward every resumption unchanged. -/
theorem C08_gen_trace (W : World N V T) (g : GenTypes T) {σ : Type} (step : σ → Option V → Step σ V)
    (st : σ) (sends : List (Option V)) :
    wrapTrace W g step st none sends = Spec.genTrace W g step st none sends := by
  rw [genTrace_eq_wrapTrace]; rfl

end Utv.C08
