/-
Python values and operators used by the translated (T1) code: `Constraints` validators etc.

Everything here is *modelled* CPython behaviour (trusted base item 4); the harness audits these
operators against the running interpreter on generated operand pairs on every run (C02 check,
"pyops" stream).  Operators are total and explicit about raising: `M α = Except Exc α`.
Anything outside the modelled fragment raises `Exc.unmodelled`, never a guess.
-/
namespace Utv.Py

inductive Exc where
  | valueError
  | typeError
  | zeroDivision
  | indexError
  | invalidOperation          -- decimal.InvalidOperation (an ArithmeticError)
  | unmodelled (why : String)
  deriving Repr, DecidableEq

abbrev M := Except Exc

inductive Cls where
  | noneType | bool | int | float | decimal | str | list | tuple | set | frozenset
  | enumMeta | enum | other (n : Nat)
  deriving Repr, DecidableEq

/-- finite floats are dyadic rationals `m * 2^e` (order and equality with ints/Decimals are exact in
Python; float *arithmetic* is not modelled) -/
inductive FloatV where
  | fin (m : Int) (e : Int)
  | inf (neg : Bool)
  | nan
  deriving Repr, DecidableEq

/-- `decimal.Decimal`: sign, coefficient, exponent — what `as_tuple()` shows -/
inductive DecV where
  | fin (neg : Bool) (coeff : Nat) (exp : Int)
  | inf (neg : Bool)
  | nan (signaling : Bool)
  deriving Repr, DecidableEq

inductive PyVal where
  | none
  | bool (b : Bool)
  | int (i : Int)
  | float (f : FloatV)
  | dec (d : DecV)
  | str (s : String)
  | seq (k : Cls) (xs : List PyVal)      -- k ∈ {list, tuple, set, frozenset}
  | cls (c : Cls)
  | opaque (n : Nat)                     -- an object the model knows nothing about
  deriving Repr

/-- CPython builtins whose internals are not utype's business.  Every translated function takes
`P : Prims`; every theorem is `∀ P`. -/
structure Prims where
  floatRepr    : FloatV → String
  decStr       : DecV → String
  floatToDec   : FloatV → Option DecV         -- Decimal(str(f)); none = InvalidOperation/ValueError
  reFullmatch  : String → String → Option Bool -- none = re.error
  floatRound   : FloatV → Int → FloatV

/-! ### numbers: exact comparison through a common normal form `n * 2^p2 * 10^p10` -/

structure Q where
  n : Int
  p2 : Int
  p10 : Int
  deriving Repr

inductive NumV where
  | fin (q : Q)
  | inf (neg : Bool)
  | nan
  deriving Repr

def num? : PyVal → Option NumV
  | .bool b => some (.fin ⟨if b then 1 else 0, 0, 0⟩)
  | .int i => some (.fin ⟨i, 0, 0⟩)
  | .float (.fin m e) => some (.fin ⟨m, e, 0⟩)
  | .float (.inf s) => some (.inf s)
  | .float .nan => some .nan
  | .dec (.fin s c e) => some (.fin ⟨if s then -(c : Int) else c, 0, e⟩)
  | .dec (.inf s) => some (.inf s)
  | .dec (.nan _) => some .nan
  | _ => none

/-- both numbers scaled to integers over the common (minimal) exponents -/
def Q.scaled (a b : Q) : Int × Int :=
  let e2 := min a.p2 b.p2
  let e10 := min a.p10 b.p10
  (a.n * 2 ^ (a.p2 - e2).toNat * 10 ^ (a.p10 - e10).toNat,
   b.n * 2 ^ (b.p2 - e2).toNat * 10 ^ (b.p10 - e10).toNat)

def Q.lt (a b : Q) : Bool := let (x, y) := Q.scaled a b; decide (x < y)
def Q.eq (a b : Q) : Bool := let (x, y) := Q.scaled a b; decide (x = y)

def NumV.lt : NumV → NumV → Bool
  | .nan, _ => false
  | _, .nan => false
  | .inf true, .inf true => false
  | .inf true, _ => true
  | _, .inf true => false
  | .inf false, _ => false
  | _, .inf false => true
  | .fin a, .fin b => Q.lt a b

def NumV.eq : NumV → NumV → Bool
  | .nan, _ => false
  | _, .nan => false
  | .inf a, .inf b => a == b
  | .fin a, .fin b => Q.eq a b
  | _, _ => false

def isDecNan : PyVal → Bool
  | .dec (.nan _) => true
  | _ => false

def isDec : PyVal → Bool
  | .dec _ => true
  | _ => false

def isFloatNan : PyVal → Bool
  | .float .nan => true
  | _ => false

/-! ### comparison operators -/

/-- `a < b` -/
def lt (a b : PyVal) : M Bool :=
  match num? a, num? b with
  | some x, some y =>
    -- ordering comparisons involving a Decimal NaN, or a Decimal and a float NaN, raise InvalidOperation
    if isDecNan a || isDecNan b || ((isDec a || isDec b) && (isFloatNan a || isFloatNan b))
    then throw .invalidOperation else pure (NumV.lt x y)
  | _, _ =>
    match a, b with
    | .str s, .str t => pure (decide (s < t))
    | .seq _ _, .seq _ _ => throw (.unmodelled "sequence ordering")
    | .opaque _, _ => throw (.unmodelled "opaque ordering")
    | _, .opaque _ => throw (.unmodelled "opaque ordering")
    | _, _ => throw .typeError

/-- `a == b` on non-containers -/
def eqScalar (a b : PyVal) : Bool :=
  match a, b with
  | .none, .none => true
  | .str s, .str t => s == t
  | .cls c, .cls d => c == d
  | .opaque n, .opaque m => n == m
  | a, b =>
    match num? a, num? b with
    | some x, some y => NumV.eq x y
    | _, _ => false

mutual
/-- `a == b` (never raises on the modelled fragment; signalling NaN is outside it).  Sets are kept
duplicate-free; their elements are compared as scalars (sets of tuples/frozensets are outside the fragment). -/
def eq : PyVal → PyVal → Bool
  | .seq k xs, .seq k' ys =>
    if (k == .set || k == .frozenset) && (k' == .set || k' == .frozenset) then
      xs.length == ys.length && xs.all (fun x => ys.any (fun y => eqScalar x y))
    else if k == k' then eqList xs ys else false
  | .seq _ _, _ => false
  | a, b => eqScalar a b
termination_by structural a => a
def eqList : List PyVal → List PyVal → Bool
  | [], [] => true
  | x :: xs, y :: ys => eq x y && eqList xs ys
  | _, _ => false
termination_by structural xs => xs
end

def memEq : PyVal → List PyVal → Bool
  | _, [] => false
  | x, y :: ys => eq x y || memEq x ys

def ne (a b : PyVal) : Bool := !eq a b

/-- `a <= b`: for numbers and strings `a < b or a == b` (NaN: false) -/
def le (a b : PyVal) : M Bool := do
  let l ← lt a b
  pure (l || eq a b)

def gt (a b : PyVal) : M Bool := lt b a
def ge (a b : PyVal) : M Bool := le b a

/-! ### truthiness, types -/

def truthy : PyVal → Bool
  | .none => false
  | .bool b => b
  | .int i => i != 0
  | .float (.fin m _) => m != 0
  | .float _ => true
  | .dec (.fin _ c _) => c != 0
  | .dec _ => true
  | .str s => s != ""
  | .seq _ xs => !xs.isEmpty
  | .cls _ => true
  | .opaque _ => true

def typeOf : PyVal → Cls
  | .none => .noneType
  | .bool _ => .bool
  | .int _ => .int
  | .float _ => .float
  | .dec _ => .decimal
  | .str _ => .str
  | .seq k _ => k
  | .cls _ => .other 0          -- `type`
  | .opaque n => .other (n + 1)

def Cls.sub (c d : Cls) : Bool := c == d || (c == .bool && d == .int)

def isinstance (v : PyVal) (c : Cls) : Bool := (typeOf v).sub c

def hasLen : PyVal → Bool
  | .str _ => true
  | .seq _ _ => true
  | _ => false

/-- `hasattr(v, name)` for the attribute names the translated code asks about -/
def hasattr (v : PyVal) (name : String) : Bool :=
  if name == "__len__" then hasLen v else false

/-! ### containers -/

def len : PyVal → M PyVal
  | .str s => pure (.int s.length)
  | .seq _ xs => pure (.int xs.length)
  | .opaque _ => throw (.unmodelled "len of opaque")
  | _ => throw .typeError

def iter : PyVal → M (List PyVal)
  | .seq _ xs => pure xs
  | .str s => pure (s.toList.map fun c => .str (String.singleton c))
  | .opaque _ => throw (.unmodelled "iter of opaque")
  | _ => throw .typeError

/-- `item in container` -/
def contains (container item : PyVal) : M Bool :=
  match container with
  | .seq _ xs => pure (memEq item xs)
  | .str _ => match item with
    | .str _ => throw (.unmodelled "substring test")
    | _ => throw .typeError
  | .opaque _ => throw (.unmodelled "contains on opaque")
  | _ => throw .typeError

def append (lst item : PyVal) : M PyVal :=
  match lst with
  | .seq .list xs => pure (.seq .list (xs ++ [item]))
  | _ => throw (.unmodelled "append on non-list")

def index (v i : PyVal) : M PyVal :=
  match v, i with
  | .seq k xs, .int n =>
    if k == .set || k == .frozenset then throw .typeError else
    let j := if n < 0 then n + xs.length else n
    if j < 0 then throw .indexError else
    match xs[j.toNat]? with
    | some x => pure x
    | none => throw .indexError
  | _, _ => throw (.unmodelled "index")

/-- Python slice bound normalisation for `v[:n]` on a container of length `l` -/
def sliceStop (n : Int) (l : Nat) : Nat :=
  if n < 0 then (n + l).toNat else min n.toNat l

def sliceTo (v n : PyVal) : M PyVal :=
  match v, n with
  | .str s, .int n => pure (.str (String.ofList (s.toList.take (sliceStop n s.length))))
  | .seq k xs, .int n =>
    if k == .set || k == .frozenset then throw .typeError
    else pure (.seq k (xs.take (sliceStop n xs.length)))
  | _, _ => throw (.unmodelled "slice")

def sliceFrom (v n : PyVal) : M PyVal :=
  match v, n with
  | .seq k xs, .int n =>
    if k == .set || k == .frozenset then throw .typeError
    else pure (.seq k (xs.drop (sliceStop n xs.length)))
  | _, _ => throw (.unmodelled "slice")

def dedup : List PyVal → List PyVal
  | [] => []
  | x :: xs => let r := dedup xs; if memEq x r then r else x :: r

/-- `list(v)` -/
def toList (v : PyVal) : M PyVal := do pure (.seq .list (← iter v))

/-- calling a class value on one argument: `type(value)(lst)` -/
def construct (c : Cls) (arg : PyVal) : M PyVal := do
  match c with
  | .list => pure (.seq .list (← iter arg))
  | .tuple => pure (.seq .tuple (← iter arg))
  | .set => pure (.seq .set ((dedup (← iter arg).reverse).reverse))
  | .frozenset => pure (.seq .frozenset ((dedup (← iter arg).reverse).reverse))
  | _ => throw (.unmodelled "constructor")

def unpack2 (v : PyVal) : M (PyVal × PyVal) :=
  match v with
  | .seq _ [a, b] => pure (a, b)
  | _ => throw .valueError

/-! ### arithmetic (ints exact; Decimal exact where used; floats unmodelled) -/

def asInt? : PyVal → Option Int
  | .int i => some i
  | .bool b => some (if b then 1 else 0)
  | _ => none

/-- Decimal as `coeff * 10^exp` with a signed coefficient -/
def decParts? : PyVal → Option (Int × Int)
  | .dec (.fin s c e) => some (if s then -(c : Int) else c, e)
  | _ => none

def mkDec (n : Int) (e : Int) : PyVal := .dec (.fin (decide (n < 0)) n.natAbs e)

def isFloat : PyVal → Bool
  | .float _ => true
  | _ => false

/-- align two decimals on the smaller exponent -/
def decAlign (a b : Int × Int) : Int × Int × Int :=
  let e := min a.2 b.2
  (a.1 * 10 ^ (a.2 - e).toNat, b.1 * 10 ^ (b.2 - e).toNat, e)

/-- the operand pair as Decimals when at least one is a Decimal and the other Decimal or int -/
def decPair? (a b : PyVal) : Option ((Int × Int) × (Int × Int)) :=
  match decParts? a, decParts? b with
  | some x, some y => some (x, y)
  | some x, none => (asInt? b).map fun i => (x, (i, 0))
  | none, some y => (asInt? a).map fun i => ((i, 0), y)
  | none, none => none

/-- context precision of the default decimal context -/
def decPrec : Nat := 28

def numDigits (n : Nat) : Nat := (Nat.toDigits 10 n).length

/-- sign bit of an operand (Decimal keeps a signed zero) -/
def signBit : PyVal → Bool
  | .dec (.fin s _ _) => s
  | v => match asInt? v with
    | some i => decide (i < 0)
    | none => false

def mod (a b : PyVal) : M PyVal :=
  match asInt? a, asInt? b with
  | some x, some y => if y == 0 then throw .zeroDivision else pure (.int (x.fmod y))
  | _, _ =>
    if isFloat a || isFloat b then throw (.unmodelled "float %") else
    match decPair? a b with
    | some (x, y) =>
      if y.1 == 0 then throw .invalidOperation else
      let (p, q, e) := decAlign x y
      -- Decimal % truncates towards zero: sign of the dividend
      if numDigits (p.tdiv q).natAbs > decPrec then throw .invalidOperation else
      pure (mkDec' (p.tmod q) e (signBit a))
    | none => throw (.unmodelled "% operands")
  where mkDec' (n : Int) (e : Int) (neg : Bool) : PyVal := .dec (.fin (if n == 0 then neg else decide (n < 0)) n.natAbs e)

def floordiv (a b : PyVal) : M PyVal :=
  match asInt? a, asInt? b with
  | some x, some y => if y == 0 then throw .zeroDivision else pure (.int (x.fdiv y))
  | _, _ =>
    if isFloat a || isFloat b then throw (.unmodelled "float //") else
    match decPair? a b with
    | some (x, y) =>
      if y.1 == 0 then throw .invalidOperation else
      let (p, q, _) := decAlign x y
      if numDigits (p.tdiv q).natAbs > decPrec then throw .invalidOperation else
      pure (.dec (.fin (signBit a != signBit b) (p.tdiv q).natAbs 0))
    | none => throw (.unmodelled "// operands")

def mul (a b : PyVal) : M PyVal :=
  match asInt? a, asInt? b with
  | some x, some y => pure (.int (x * y))
  | _, _ =>
    if isFloat a || isFloat b then throw (.unmodelled "float *") else
    match decPair? a b with
    | some (x, y) =>
      if numDigits (x.1 * y.1).natAbs > decPrec then throw (.unmodelled "decimal rounding in *") else
      pure (.dec (.fin (signBit a != signBit b) (x.1 * y.1).natAbs (x.2 + y.2)))
    | none => throw (.unmodelled "* operands")

def sub (a b : PyVal) : M PyVal :=
  match asInt? a, asInt? b with
  | some x, some y => pure (.int (x - y))
  | _, _ => throw (.unmodelled "- operands")

def add (a b : PyVal) : M PyVal :=
  match asInt? a, asInt? b with
  | some x, some y => pure (.int (x + y))
  | _, _ => throw (.unmodelled "+ operands")

def abs (a : PyVal) : M PyVal :=
  match asInt? a with
  | some x => pure (.int x.natAbs)
  | none => throw (.unmodelled "abs operand")

/-- round half to even of `n / 10^k` -/
def divRoundHalfEven (n : Int) (k : Nat) : Int :=
  let d : Int := 10 ^ k
  let q := n.fdiv d
  let r := n.fmod d          -- 0 ≤ r < d
  if 2 * r < d then q
  else if 2 * r > d then q + 1
  else if q % 2 == 0 then q else q + 1

/-- `Decimal.quantize(Decimal(1).scaleb(-places))` with ROUND_HALF_EVEN = `round(dec, places)` -/
def decQuantize (neg : Bool) (c : Nat) (e : Int) (places : Int) : M PyVal :=
  let target : Int := -places
  if e ≥ target then
    -- pad with zeros
    let c' := c * 10 ^ (e - target).toNat
    if numDigits c' > decPrec then throw .invalidOperation else pure (.dec (.fin neg c' target))
  else
    let c' := (divRoundHalfEven c (target - e).toNat).natAbs
    if numDigits c' > decPrec then throw .invalidOperation else pure (.dec (.fin neg c' target))

/-- `round(value, n)` -/
def round (P : Prims) (v n : PyVal) : M PyVal :=
  match v, asInt? n with
  | .int i, some k => if k ≥ 0 then pure (.int i) else throw (.unmodelled "round int to negative places")
  | .bool b, some k => if k ≥ 0 then pure (.int (if b then 1 else 0)) else throw (.unmodelled "round")
  | .dec (.fin s c e), some k => decQuantize s c e k
  | .dec (.inf _), some _ => throw .invalidOperation
  | .dec (.nan false), some _ => pure v          -- quiet NaN propagates through quantize
  | .dec (.nan true), some _ => throw .invalidOperation
  | .float f, some k => pure (.float (P.floatRound f k))
  | _, _ => throw .typeError

/-- `str(v)` -/
def str (P : Prims) : PyVal → M PyVal
  | .none => pure (.str "None")
  | .bool b => pure (.str (if b then "True" else "False"))
  | .int i => pure (.str (toString i))
  | .str s => pure (.str s)
  | .float f => pure (.str (P.floatRepr f))
  | .dec d => pure (.str (P.decStr d))
  | _ => throw (.unmodelled "str of container/object")

/-- the idiom `Decimal(str(value))` for a non-Decimal `value` (rule.py:902-903) -/
def decimalOfStrOf (P : Prims) : PyVal → M PyVal
  | .int i => pure (.dec (.fin (decide (i < 0)) i.natAbs 0))
  | .bool _ => throw .invalidOperation          -- Decimal('True') is a ConversionSyntax error
  | .float f => match P.floatToDec f with
    | some d => pure (.dec d)
    | none => throw .invalidOperation
  | .dec d => pure (.dec d)
  | .str _ => throw (.unmodelled "Decimal(str)")
  | _ => throw .invalidOperation

def digitsOf (c : Nat) : List PyVal := (Nat.toDigits 10 c).map fun ch => .int (ch.toNat - '0'.toNat)

/-- `value.as_tuple()` as a 3-tuple (sign, digits, exponent); specials carry 'F' / 'n' / 'N' -/
def asTuple : PyVal → M PyVal
  | .dec (.fin s c e) => pure (.seq .tuple [.int (if s then 1 else 0), .seq .tuple (digitsOf c), .int e])
  | .dec (.inf s) => pure (.seq .tuple [.int (if s then 1 else 0), .seq .tuple [.int 0], .str "F"])
  | .dec (.nan sig) => pure (.seq .tuple [.int 0, .seq .tuple [], .str (if sig then "N" else "n")])
  | _ => throw (.unmodelled "as_tuple")

def reFullmatch (P : Prims) (r s : PyVal) : M PyVal :=
  match r, s with
  | .str r, .str s => match P.reFullmatch r s with
    | some b => pure (.bool b)
    | none => throw (.unmodelled "re.error")
  | _, _ => throw (.unmodelled "regex operands")

/-- calling a non-class value / attribute access the model does not cover (Enum classes) -/
def callValue (_f : PyVal) (_arg : PyVal) : M PyVal := throw (.unmodelled "call of enum class")
def getattrValue (_v : PyVal) (_name : String) : M PyVal := throw (.unmodelled "attribute of enum member")

end Utv.Py
