import Utv.Lemmas.C15Object
/-! The object case, main lemma. -/
set_option linter.unusedSimpArgs false
set_option linter.unusedVariables false
namespace Utv.C15
open Utv.JsonSchema

theorem declared_names (N : Names) (kvs : Obj) (ps : List (String × Json)) (h : lookup "properties" kvs = some (.obj ps)) :
    declaredProps kvs (parseKws N kvs) = ps.map fun p => (p.1, parse N p.2) := by
  unfold declaredProps
  simp only [h]
  by_cases ht : truthy (.obj ps) = true
  · simp only [ht, if_true]
    exact subProps_of N kvs ps h
  · have : ps = [] := by cases ps <;> simp_all [truthy]
    subst this
    simp [ht]

theorem declared_none (N : Names) (kvs : Obj) (h : lookup "properties" kvs = none) :
    declaredProps kvs (parseKws N kvs) = [] := by
  simp [declaredProps, h]

/-- the plain-mapping and class parts of `parse_object` -/
theorem object_ok (N : Names) (R : Rx) (C : Ctx) (kvs : Obj) (j : Json) (hd : strDistinct (keys kvs) = true)
    (hf : fragKws kvs kvs = true) (t0 : Ty)
    (hb : parseObject N kvs (parseKws N kvs) (getConstraints kvs (some "object")) = some t0)
    (hc : conforms R t0 j = true) (hone : KnownDefect.oneOfKws C kvs kvs j = true)
    (ih1 : ∀ k v, (k, v) ∈ kvs → SubSound N R C v)
    (ihP : ∀ k ps, (k, Json.obj ps) ∈ kvs → ∀ p ∈ ps, SubSound N R C p.2) :
    (∃ o, j = .obj o) ∧ (∀ c ∈ getConstraints kvs (some "object"), sat R c j = true) ∧
    (∀ k v, (k, v) ∈ kvs → k ∈ ["properties", "required", "additionalProperties", "dependentRequired"] →
      validateEntry C kvs k v j = true) := by
  unfold parseObject at hb
  by_cases hsingle : (keys kvs == ["type"] && (getConstraints kvs (some "object")).isEmpty) = true
  · simp only [hsingle, if_true] at hb
    cases hb
    simp only [Bool.and_eq_true] at hsingle
    refine ⟨?_, ?_, ?_⟩
    · cases j <;> simp [conforms, primOk] at hc; exact ⟨_, rfl⟩
    · intro c hcm
      have : getConstraints kvs (some "object") = [] := by simpa using hsingle.2
      rw [this] at hcm; simp at hcm
    · intro k v hm hk
      have := keys_single kvs hsingle.1 k v hm
      subst this
      simp at hk
  · simp only [hsingle, Bool.false_eq_true, if_false] at hb
    -- the additional type, shared by both shapes
    have hadd_ih : ∀ v t x, ("additionalProperties", v) ∈ kvs → (∃ o, v = .obj o) → inFragment v = true →
        parse N v = some t → conforms R t x = true → KnownDefect.oneOfAtMost C v x = true → validate C v x = true := by
      intro v t x hm _ hfr hp hcx hox
      exact ih1 _ _ hm t x hfr hp hcx hox
    by_cases hplain : ((declaredProps kvs (parseKws N kvs)).isEmpty && (implicitNames kvs (parseKws N kvs)).isEmpty &&
        !((lookup "additionalProperties" kvs).map isFalse).getD false) = true
    · -- a plain mapping
      simp only [hplain, if_true] at hb
      simp only [Bool.and_eq_true] at hplain
      obtain ⟨⟨hdecl, himp⟩, hnotfalse⟩ := hplain
      cases hmv : mapValue kvs (parseKws N kvs) with
      | none => simp [hmv] at hb
      | some val =>
        simp only [hmv] at hb
        have han := annotate_conforms R (.map val) true _ t0 j (by simp) hb hc
        have hcj := han.2.2 rfl
        cases j with
        | obj o =>
          simp only [conforms] at hcj
          refine ⟨⟨_, rfl⟩, han.2.1, ?_⟩
          have hdecl' : declaredProps kvs (parseKws N kvs) = [] := by simpa using hdecl
          have himp' : implicitNames kvs (parseKws N kvs) = [] := by simpa using himp
          have hment : mentioned kvs = [] := by
            unfold implicitNames at himp'
            rw [hdecl'] at himp'
            exact dedupStr_nil _ himp'
          intro k v hm hk
          have hlk := lookup_of_mem_distinct kvs hd k v hm
          simp at hk
          rcases hk with rfl | rfl | rfl | rfl
          · -- properties: none declared
            obtain ⟨ps, rfl, _, _⟩ := frag_properties kvs hf v hm
            rw [declared_names N kvs ps hlk] at hdecl'
            have : ps = [] := by simpa using hdecl'
            subst this
            simp [validateEntry, validateProps]
          · -- required: nothing mentioned
            obtain ⟨names, rfl, hstr⟩ := frag_required kvs hf v hm
            have : requiredNames kvs = [] := by
              unfold mentioned at hment
              simp at hment
              exact hment.1
            simp only [requiredNames, hlk] at this
            simp only [validateEntry]
            simp [checkSimple, kRequired]
            apply requiredOk_of
            intro n hn
            have : n ∈ strsOf (.arr names) := (mem_strsOf names n).mpr hn
            simp_all
          · -- additionalProperties
            simp only [validateEntry]
            simp
            intro a b hab
            right
            rcases frag_additional kvs hf v hm with ⟨b', rfl⟩ | ⟨⟨ov, rfl⟩, hfr⟩
            · cases b' with
              | true => simp [validate]
              | false => simp [hlk, isFalse] at hnotfalse
            · simp only [mapValue, hlk] at hmv
              rw [subOne_additional N kvs _ hlk] at hmv
              have hoe := oneOfKws_mem C kvs (.obj o) kvs hone _ _ hm
              simp only [oneOfEntry] at hoe
              simp at hoe
              exact hadd_ih _ val b hm ⟨_, rfl⟩ hfr hmv (List.all_eq_true.mp hcj (a, b) hab) (hoe a b hab)
          · -- dependentRequired: nothing mentioned
            obtain ⟨deps, rfl, _, _⟩ := frag_deps kvs hf v hm
            have : depsObj kvs = [] := by
              unfold mentioned at hment
              simp at hment
              exact hment.2.1
            simp only [depsObj, hlk] at this
            subst this
            simp [validateEntry, checkSimple, kDependentRequired]
        | _ => simp [conforms] at hcj
    · -- a data class
      simp only [hplain, Bool.false_eq_true, if_false] at hb
      cases hadd : additionOf kvs (parseKws N kvs) with
      | none => simp [hadd] at hb
      | some add =>
        obtain ⟨addK, addTy⟩ := add
        simp only [hadd] at hb
        split at hb
        · simp at hb
        · rename_i props hps
          cases hb
          have hall : ((declaredProps kvs (parseKws N kvs)) ++ (implicitNames kvs (parseKws N kvs)).map
              (fun n => (n, implicitTy kvs (parseKws N kvs)))).map (fun p => p.2.map fun t => (p.1, t)) = props.map some := by
            have := allSome_eq_some _ _ hps
            simpa [List.map_append, List.map_map, Function.comp] using this
          -- members of `props`
          have P1 : ∀ n t, (n, some t) ∈ (declaredProps kvs (parseKws N kvs)) ++ (implicitNames kvs (parseKws N kvs)).map
              (fun n => (n, implicitTy kvs (parseKws N kvs))) → (n, t) ∈ props := by
            intro n t hm
            have : some (n, t) ∈ props.map some := by
              rw [← hall]
              exact List.mem_map.mpr ⟨(n, some t), hm, rfl⟩
            simpa using this
          have P3 : ∀ n, (n, none) ∈ (declaredProps kvs (parseKws N kvs)) ++ (implicitNames kvs (parseKws N kvs)).map
              (fun n => (n, implicitTy kvs (parseKws N kvs))) → False := by
            intro n hm
            have : (none : Option (String × Ty)) ∈ props.map some := by
              rw [← hall]
              exact List.mem_map.mpr ⟨(n, none), hm, rfl⟩
            simp at this
          have P2 : ∀ n, n ∈ props.map (·.1) → n ∈ (declaredProps kvs (parseKws N kvs)).map (·.1) ∨
              n ∈ implicitNames kvs (parseKws N kvs) := by
            intro n hn
            obtain ⟨⟨n', t⟩, hm, rfl⟩ := List.mem_map.mp hn
            have : some (n', t) ∈ props.map some := List.mem_map.mpr ⟨_, hm, rfl⟩
            rw [← hall] at this
            obtain ⟨⟨n'', ot⟩, hm2, he⟩ := List.mem_map.mp this
            cases ot with
            | none => simp at he
            | some t' =>
              simp at he
              obtain ⟨rfl, rfl⟩ := he
              rcases List.mem_append.mp hm2 with h | h
              · exact Or.inl (List.mem_map.mpr ⟨_, h, rfl⟩)
              · obtain ⟨m, hm3, he3⟩ := List.mem_map.mp h
                simp at he3
                exact Or.inr (he3.1 ▸ hm3)
          -- the class under the enum layers
          have hl := layerEnums_conforms R j _ _ hc
          have hcls := hl.1
          unfold objectClass at hcls
          simp only at hcls
          cases j with
          | obj o =>
            simp only [conforms, Bool.and_eq_true] at hcls
            obtain ⟨⟨⟨hdist, hfields⟩, hextra⟩, hcount⟩ := hcls
            have hlen : (assignAttnames N (props.map (·.1)) (props.map (·.1)) []).length = props.length := by
              rw [assignAttnames_length]; simp
            have hfn := fieldNames_mkFields (requiredNames kvs) (depsObj kvs) props _ hlen
            have field_of : ∀ n t, (n, t) ∈ props →
                (∀ x, lookup n o = some x → conforms R t x = true ∧ ∀ d ∈ depsOf (depsObj kvs) n, hasKey d o = true) ∧
                (lookup n o = none → (requiredNames kvs).contains n = false) := by
              intro n t hm
              obtain ⟨a, ha⟩ := mkFields_mem (requiredNames kvs) (depsObj kvs) props _ hlen n t hm
              exact conformsFields_mem R o _ hfields _ ha
            -- a mentioned name is a field
            have mentioned_field : ∀ n, n ∈ mentioned kvs → ∃ t, (n, t) ∈ props := by
              intro n hn
              rcases dedupStr_mem (mentioned kvs) ((declaredProps kvs (parseKws N kvs)).map (·.1)) n hn with h | h
              · obtain ⟨⟨n', ot⟩, hm, rfl⟩ := List.mem_map.mp h
                cases ot with
                | none => exact absurd (List.mem_append_left _ hm) (P3 n')
                | some t => exact ⟨t, P1 _ t (List.mem_append_left _ hm)⟩
              · cases hit : implicitTy kvs (parseKws N kvs) with
                | none =>
                  exact absurd (List.mem_append_right _ (List.mem_map.mpr ⟨n, h, by rw [hit]⟩)) (P3 n)
                | some t =>
                  exact ⟨t, P1 _ t (List.mem_append_right _ (List.mem_map.mpr ⟨n, h, by rw [hit]⟩))⟩
            refine ⟨⟨_, rfl⟩, ?_, ?_⟩
            · -- the kept constraints: sizes through the options, const / enum through the layers
              intro c hcm
              obtain ⟨k, hkv, hck, hkept⟩ := getConstraints_mem kvs _ c hcm
              have hlk := lookup_of_mem_distinct kvs hd _ _ hkv
              simp [kept, groupKeywords_object] at hkept
              obtain ⟨c1, c2⟩ := c
              simp only at hkv hck hlk
              rcases hkept with rfl | rfl | rfl | rfl
              · simp [cmapOf, constraintsMap, List.lookup] at hck
                subst hck
                simp only [countOk, optNum, hlk, Bool.and_eq_true] at hcount
                simp [sat, lenSat, sizeOf?]
                cases c2 <;> simp [numOf] at hcount ⊢
                exact hcount.2
              · simp [cmapOf, constraintsMap, List.lookup] at hck
                subst hck
                simp only [countOk, optNum, hlk, Bool.and_eq_true] at hcount
                simp [sat, lenSat, sizeOf?]
                cases c2 <;> simp [numOf] at hcount ⊢
                exact hcount.1
              · simp [cmapOf, constraintsMap, List.lookup] at hck
                subst hck
                exact (hl.2 _ hcm).2 rfl
              · simp [cmapOf, constraintsMap, List.lookup] at hck
                subst hck
                simpa [sat] using (hl.2 _ hcm).1 rfl
            · intro k v hm hk
              have hlk := lookup_of_mem_distinct kvs hd k v hm
              simp at hk
              rcases hk with rfl | rfl | rfl | rfl
              · -- properties
                obtain ⟨ps, rfl, _, hfps⟩ := frag_properties kvs hf v hm
                have hoe := oneOfKws_mem C kvs (.obj o) kvs hone _ _ hm
                simp only [oneOfEntry] at hoe
                simp at hoe
                simp only [validateEntry]
                simp
                apply (validateProps_iff C o ps).mpr
                intro p hp x hx
                have hdm : (p.1, parse N p.2) ∈ declaredProps kvs (parseKws N kvs) := by
                  rw [declared_names N kvs ps hlk]
                  exact List.mem_map.mpr ⟨p, hp, rfl⟩
                cases hpp : parse N p.2 with
                | none => rw [hpp] at hdm; exact absurd (List.mem_append_left _ hdm) (P3 p.1)
                | some t =>
                  rw [hpp] at hdm
                  have := (field_of p.1 t (P1 _ t (List.mem_append_left _ hdm))).1 x hx
                  exact ihP _ _ hm p hp t x (hfps p hp) hpp this.1 (oneOfProps_mem C o ps hoe p.1 p.2 x hp hx)
              · -- required
                obtain ⟨names, rfl, hstr⟩ := frag_required kvs hf v hm
                simp only [validateEntry]
                simp [checkSimple, kRequired]
                apply requiredOk_of
                intro n hn
                have hreq : n ∈ requiredNames kvs := by
                  simp only [requiredNames, hlk]
                  exact (mem_strsOf names n).mpr hn
                obtain ⟨t, ht⟩ := mentioned_field n (by simp [mentioned, hreq])
                have := field_of n t ht
                cases hlo : lookup n o with
                | none =>
                  have h1 := this.2 hlo
                  have h2 : (requiredNames kvs).contains n = true := by simpa using hreq
                  rw [h2] at h1; simp at h1
                | some x => simp [hasKey, hlo]
              · -- additionalProperties
                simp only [validateEntry]
                simp
                intro a b hab
                have hlo := lookup_of_mem_distinct o hdist a b hab
                have hex := List.all_eq_true.mp hextra (a, b) hab
                simp only [hfn, Bool.or_eq_true] at hex
                have hoe := oneOfKws_mem C kvs (.obj o) kvs hone _ _ hm
                simp only [oneOfEntry] at hoe
                simp at hoe
                rcases frag_additional kvs hf v hm with ⟨b', rfl⟩ | ⟨⟨ov, rfl⟩, hfr⟩
                · cases b' with
                  | true => right; simp [validate]
                  | false =>
                    -- nothing beyond the fields, and a field that is only mentioned accepts nothing
                    simp only [additionOf, hlk] at hadd
                    simp at hadd
                    obtain ⟨rfl, rfl⟩ := hadd
                    simp at hex
                    rcases P2 a (by simpa using hex) with h | h
                    · left
                      cases hlp : lookup "properties" kvs with
                      | none => rw [declared_none N kvs hlp] at h; simp at h
                      | some pv =>
                        obtain ⟨ps, rfl, _, _⟩ := frag_properties kvs hf pv (mem_of_lookup kvs _ _ hlp)
                        rw [declared_names N kvs ps hlp] at h
                        apply isDeclared_of C kvs ps hlp
                        simpa [keys] using h
                    · have hit : implicitTy kvs (parseKws N kvs) = some Ty.never := by simp [implicitTy, hlk]
                      have := (field_of a Ty.never (P1 _ _ (List.mem_append_right _
                        (List.mem_map.mpr ⟨a, h, by rw [hit]⟩)))).1 b hlo
                      simp [Ty.never, conforms, conformsAny] at this
                · simp only [additionOf, hlk] at hadd
                  rw [subOne_additional N kvs _ hlk] at hadd
                  cases hpv : parse N (.obj ov) with
                  | none => simp [hpv] at hadd
                  | some tv =>
                    simp [hpv] at hadd
                    obtain ⟨rfl, rfl⟩ := hadd
                    rcases hex with hex | hex
                    · rcases P2 a (by simpa using hex) with h | h
                      · left
                        cases hlp : lookup "properties" kvs with
                        | none => rw [declared_none N kvs hlp] at h; simp at h
                        | some pv =>
                          obtain ⟨ps, rfl, _, _⟩ := frag_properties kvs hf pv (mem_of_lookup kvs _ _ hlp)
                          rw [declared_names N kvs ps hlp] at h
                          apply isDeclared_of C kvs ps hlp
                          simpa [keys] using h
                      · right
                        have hit : implicitTy kvs (parseKws N kvs) = some tv := by
                          simp [implicitTy, hlk, subOne_additional N kvs _ hlk, hpv]
                        have := (field_of a tv (P1 _ _ (List.mem_append_right _
                          (List.mem_map.mpr ⟨a, h, by rw [hit]⟩)))).1 b hlo
                        exact hadd_ih _ tv b hm ⟨_, rfl⟩ hfr hpv this.1 (hoe a b hab)
                    · right
                      exact hadd_ih _ tv b hm ⟨_, rfl⟩ hfr hpv (by simpa using hex) (hoe a b hab)
              · -- dependentRequired
                obtain ⟨deps, rfl, hdd, hdn⟩ := frag_deps kvs hf v hm
                simp only [validateEntry]
                simp [checkSimple, kDependentRequired]
                intro dk dv hdm
                simp only [depOk, Bool.or_eq_true, Bool.not_eq_true']
                by_cases hk : hasKey dk o = true
                · right
                  obtain ⟨names, hnames, _⟩ := hdn (dk, dv) hdm
                  simp only at hnames
                  subst hnames
                  simp
                  have hdo : depsObj kvs = deps := by simp [depsObj, hlk]
                  obtain ⟨t, ht⟩ := mentioned_field dk (by
                    unfold mentioned; rw [hdo]
                    exact List.mem_append_left _ (List.mem_append_right _ (List.mem_map.mpr ⟨_, hdm, rfl⟩)))
                  obtain ⟨x, hx⟩ := lookup_some_of_hasKey o dk hk
                  have := (field_of dk t ht).1 x hx
                  apply requiredOk_of
                  intro n hn
                  apply this.2
                  simp only [depsOf, hdo, lookup_of_mem_distinct deps hdd _ _ hdm]
                  exact (mem_strsOf names n).mpr hn
                · left; simpa using hk
          | _ => simp [conforms] at hcls

end Utv.C15
