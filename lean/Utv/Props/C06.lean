import Utv.Props.C05
import Utv.Model.C06
/-!
C06 — the result does not depend on the field-lookup strategy.

`C06_df_eq_ff` : for every world, well-formed parser, `Options` and input with distinct keys, data-first and
field-first parsing produce the same data (as a finite map) and handle the same set of errors — obtained from
the two C05 refinements to the common `FieldContract`, not by a simultaneous induction over the two loops.
`C06_same_outcome` : what the caller observes under the two strategies is the same: equal mapping and
attribute views when both succeed; otherwise both raise (fail-fast: a `ParseError`, which one depends on the
iteration order) or both collect (`collect_errors`, no `max_errors`: the same set of ⟨kind, item⟩).
`C06_strategy_unobservable` : whatever `data_first_search` is set to (True, False, None = chosen by
`assign_search_strategy`), the outcome is the same in that sense.
The `C06_legacy_*` witnesses refute all of this for the code before fixes/C06-1..5-*.patch.
-/
namespace Utv.C06
open Utv.C05 Utv.C05.Spec

variable {V : Type}

/-- **C06.** -/
theorem C06_df_eq_ff [DecidableEq V] (W : World V) (LL : LowerLaws W) (P : Parser V) (hwf : P.wf W = true)
    (o : Opts V) (data : List (Key × V)) (hnd : (data.map (·.1)).Nodup) :
    MapEq (dataFirst {} W P o data).result (fieldFirst {} W P o data).result
    ∧ SetEq (dataFirst {} W P o data).errs (fieldFirst {} W P o data).errs := by
  have wf := WF.of_wf hwf
  obtain ⟨h1, h2⟩ := dataFirst_equiv_ref LL wf o data hnd
  rw [fieldFirst_eq_ref LL wf o hnd]
  exact ⟨h1, h2⟩

/-- "equal parsed data when both succeed, and a failure of the same kind otherwise" -/
def SameOutcome (maxErrors : Option Nat) : Outcome V → Outcome V → Prop
  | .ok m a, .ok m' a' => MapEq m m' ∧ MapEq a a'
  | .raised _, .raised _ => True
  | .collected es, .collected es' => maxErrors = none → SetEq es es'
  | _, _ => False

/-- `parse_data` is `parseWith` for the strategy it selects -/
theorem parseData_eq_parseWith [DecidableEq V] (W : World V) (P : Parser V) (o : Opts V) (data : List (Key × V)) :
    parseData {} W P o data = parseWith W P o data (useDataFirst P o) := by
  unfold parseData parseWith; rfl

theorem parseWith_nodup [DecidableEq V] (W : World V) (P : Parser V) (o : Opts V) (data : List (Key × V)) (df : Bool) :
    ((parseWith W P o data df).result.map (·.1)).Nodup := by
  unfold parseWith
  cases df
  · exact fieldFirst_nodup W P o data
  · exact dataFirst_nodup W P o data

theorem parseWith_refines [DecidableEq V] (W : World V) (LL : LowerLaws W) (P : Parser V) (hwf : P.wf W = true)
    (o : Opts V) (data : List (Key × V)) (hnd : (data.map (·.1)).Nodup) (df : Bool) :
    MapEq (parseWith W P o data df).result (contract W P o data).result
    ∧ SetEq (parseWith W P o data df).errs (contract W P o data).errs := by
  unfold parseWith
  cases df
  · exact C05_ff_refines W LL P hwf o data hnd
  · exact C05_df_refines W LL P hwf o data hnd

/-- the two views are functions of the parsed data as a finite map -/
theorem views_congr {W : World V} (LL : LowerLaws W) {P : Parser V} (wf : WF W P) (o : Opts V)
    (r₁ r₂ : List (Key × V)) (h : MapEq r₁ r₂) (hn₁ : (r₁.map (·.1)).Nodup) (hn₂ : (r₂.map (·.1)).Nodup)
    (hok₁ : ResultKeysOk W P r₁) (hok₂ : ResultKeysOk W P r₂) :
    MapEq (views {} W P o r₁).1 (views {} W P o r₂).1 ∧ MapEq (views {} W P o r₁).2 (views {} W P o r₂).2 := by
  obtain ⟨a1, a2⟩ := views_spec LL wf o r₁ hn₁ hok₁
  obtain ⟨b1, b2⟩ := views_spec LL wf o r₂ hn₂ hok₂
  obtain ⟨c1, c2⟩ := views_keys LL wf o r₁ hok₁
  obtain ⟨d1, d2⟩ := views_keys LL wf o r₂ hok₂
  constructor
  · intro k
    cases hk : anyAccepts W P k
    · rw [(a2 k hk).1, (b2 k hk).1]; exact h k
    · by_cases hn : ∃ kf ∈ P.fields, kf.2.name = k
      · obtain ⟨kf, hf, rfl⟩ := hn
        rw [(a1 kf hf).2, (b1 kf hf).2, h kf.2.name]
      · have hn' : ∀ kf ∈ P.fields, kf.2.name ≠ k := fun kf hf e => hn ⟨kf, hf, e⟩
        rw [c1 k hk hn', d1 k hk hn']
  · intro k
    cases hk : anyAccepts W P k
    · rw [(a2 k hk).2, (b2 k hk).2]; exact h k
    · by_cases hn : ∃ kf ∈ P.fields, kf.2.attname = k
      · obtain ⟨kf, hf, rfl⟩ := hn
        rw [(a1 kf hf).1, (b1 kf hf).1, h kf.2.name]
      · have hn' : ∀ kf ∈ P.fields, kf.2.attname ≠ k := fun kf hf e => hn ⟨kf, hf, e⟩
        rw [c2 k hk hn', d2 k hk hn']

/-- **C06 at the level of what the caller observes.** -/
theorem C06_same_outcome [DecidableEq V] (W : World V) (LL : LowerLaws W) (P : Parser V) (hwf : P.wf W = true)
    (o : Opts V) (data : List (Key × V)) (hnd : (data.map (·.1)).Nodup) (b₁ b₂ : Bool) :
    SameOutcome o.maxErrors (runWith W P o data b₁) (runWith W P o data b₂) := by
  have wf := WF.of_wf hwf
  obtain ⟨r1, e1⟩ := parseWith_refines W LL P hwf o data hnd b₁
  obtain ⟨r2, e2⟩ := parseWith_refines W LL P hwf o data hnd b₂
  have hr : MapEq (parseWith W P o data b₁).result (parseWith W P o data b₂).result :=
    fun k => (r1 k).trans (r2 k).symm
  have he : SetEq (parseWith W P o data b₁).errs (parseWith W P o data b₂).errs :=
    fun e => (e1 e).trans (e2 e).symm
  have hok : ∀ b, ResultKeysOk W P (parseWith W P o data b).result := by
    intro b k hk
    apply contract_result_keys W P o data k
    rw [← (parseWith_refines W LL P hwf o data hnd b).1 k]
    intro hc; exact ((dget_eq_none_iff _ _).1 hc) hk
  unfold runWith finish
  cases h1 : (parseWith W P o data b₁).errs with
  | nil =>
    have h2 : (parseWith W P o data b₂).errs = [] := (setEq_nil_iff he).1 h1
    rw [h2]
    exact views_congr LL wf o _ _ hr (parseWith_nodup W P o data b₁) (parseWith_nodup W P o data b₂) (hok b₁) (hok b₂)
  | cons x xs =>
    cases h2 : (parseWith W P o data b₂).errs with
    | nil => exact absurd ((setEq_nil_iff he).2 h2) (by rw [h1]; simp)
    | cons y ys =>
      simp only
      cases o.collectErrors
      · simp [SameOutcome]
      · simp only [Bool.not_true, Bool.false_eq_true, if_false]
        cases hm : o.maxErrors with
        | none => simp only [SameOutcome]; intro _; rw [← h1, ← h2]; exact he
        | some n => simp [SameOutcome]

/-- **Whatever `data_first_search` says — True, False, or None (`assign_search_strategy` decides) — the
outcome is that of either forced strategy.** -/
theorem C06_strategy_unobservable [DecidableEq V] (W : World V) (LL : LowerLaws W) (P : Parser V)
    (hwf : P.wf W = true) (o : Opts V) (data : List (Key × V)) (hnd : (data.map (·.1)).Nodup) (b : Bool) :
    SameOutcome o.maxErrors (finish {} W P o (parseData {} W P o data)) (runWith W P o data b) := by
  rw [parseData_eq_parseWith]
  exact C06_same_outcome W LL P hwf o data hnd (useDataFirst P o) b

/-! ### Non-vacuity, and the code before fixes/C06-1..5-*.patch -/

def P₀ : Parser Nat := mkParser W₀ cA

example : P₀.wf W₀ = true := by decide

/-- the strategies agree after the fix on the witnesses below -/
example : (parseWith W₀ P₀ {} [(0, 10), (2, 10)] true).result = (parseWith W₀ P₀ {} [(0, 10), (2, 10)] false).result
    ∧ (parseWith W₀ P₀ {} [(0, 10), (2, 10)] true).errs = (parseWith W₀ P₀ {} [(0, 10), (2, 10)] false).errs := by decide

/-- (a) the same field under two aliases with the same raw value: data-first compared the *parsed* stored
value with the raw duplicate and reported a conflict, field-first did not -/
theorem C06_legacy_parsed_vs_raw_witness :
    (dataFirstLegacy W₀ P₀ {} [(0, 10), (2, 10)]).errs = [.aliasConflict 0]
    ∧ (fieldFirstLegacy W₀ P₀ {} [(0, 10), (2, 10)]).errs = [] := by decide

/-- (b) `ignore_required=True`: data-first skipped the default-filling loop -/
def cDefault : ClassDecl Nat := { fields := [{ attname := 0, default := some 5 }], opts := { ignoreRequired := true } }

theorem C06_legacy_ignore_required_witness :
    (dataFirstLegacy W₀ (mkParser W₀ cDefault) cDefault.opts []).result = []
    ∧ (fieldFirstLegacy W₀ (mkParser W₀ cDefault) cDefault.opts []).result = [(0, 5)] := by decide

example : (dataFirst {} W₀ (mkParser W₀ cDefault) cDefault.opts []).result = [(0, 5)] := by decide

/-- (c) a callable `no_input` that fires: data-first forgot the field had been given and reported its absence -/
def cCallable : ClassDecl Nat := { fields := [{ attname := 0, noInput := .pred 0 }], opts := {} }

theorem C06_legacy_callable_no_input_witness :
    (dataFirstLegacy W₀ (mkParser W₀ cCallable) {} [(0, 0)]).errs = [.absence 0]
    ∧ (fieldFirstLegacy W₀ (mkParser W₀ cCallable) {} [(0, 0)]).errs = [] := by decide

example : (dataFirst {} W₀ (mkParser W₀ cCallable) {} [(0, 0)]).errs = [] := by decide

/-- (d) a case-insensitive field given as 'a' and 'A' with different values: field-first merged the two
silently (last wins), data-first reported a conflict -/
def cCi : ClassDecl Nat := { fields := [{ attname := 0, ci := some true }], opts := {} }

theorem C06_legacy_case_duplicates_witness :
    (dataFirstLegacy W₀ (mkParser W₀ cCi) {} [(0, 1), (1, 2)]).errs = [.aliasConflict 0]
    ∧ (fieldFirstLegacy W₀ (mkParser W₀ cCi) {} [(0, 1), (1, 2)]).errs = []
    ∧ (fieldFirstLegacy W₀ (mkParser W₀ cCi) {} [(0, 1), (1, 2)]).result = [(0, 2)] := by decide

example : (fieldFirst {} W₀ (mkParser W₀ cCi) {} [(0, 1), (1, 2)]).errs = [.aliasConflict 0] := by decide

/-- (e) `ignore_alias_conflicts=True`: data-first kept the last duplicate in input order (and parsed all of
them), field-first the first alias in declaration order -/
theorem C06_legacy_ignore_conflicts_witness :
    (dataFirstLegacy W₀ P₀ { ignoreAliasConflicts := true } [(0, 8), (2, 7)]).result = [(0, 7)]
    ∧ (fieldFirstLegacy W₀ P₀ { ignoreAliasConflicts := true } [(0, 8), (2, 7)]).result = [(0, 8)] := by decide

example : (dataFirst {} W₀ P₀ { ignoreAliasConflicts := true } [(2, 7), (0, 8)]).result = [(0, 8)] := by decide

/-- (f) conflicting duplicates of a field whose input is ignored (`no_input=True`): field-first raised,
data-first did not -/
def cNoInput : ClassDecl Nat := { fields := [{ attname := 0, aliasFrom := [2], default := some 5, noInput := .yes }], opts := {} }

theorem C06_legacy_no_input_conflict_witness :
    (dataFirstLegacy W₀ (mkParser W₀ cNoInput) {} [(0, 1), (2, 2)]).errs = []
    ∧ (fieldFirstLegacy W₀ (mkParser W₀ cNoInput) {} [(0, 1), (2, 2)]).errs = [.aliasConflict 0] := by decide

example : (fieldFirst {} W₀ (mkParser W₀ cNoInput) {} [(0, 1), (2, 2)]).errs = [] := by decide

end Utv.C06
