import Utv.Lemmas.C15Array
/-! The object case: `parse_object`. -/
set_option linter.unusedSimpArgs false
set_option linter.unusedVariables false
namespace Utv.C15
open Utv.JsonSchema

/-! ### helpers -/

theorem assignAttnames_length (N : Names) (allKeys : List String) : (ks taken : List String) →
    (assignAttnames N allKeys ks taken).length = ks.length
  | [], _ => by simp [assignAttnames]
  | k :: rest, taken => by simp [assignAttnames, assignAttnames_length N allKeys rest]

theorem mkFields_mem (req : List String) (deps : Obj) : (props : List (String × Ty)) → (attnames : List String) →
    attnames.length = props.length → ∀ n t, (n, t) ∈ props →
    ∃ a, Fld.mk a n t (req.contains n) (depsOf deps n) ∈ mkFields props attnames req deps
  | [], _, _, n, t, hm => by simp at hm
  | (n', t') :: ps, [], hl, n, t, hm => by simp at hl
  | (n', t') :: ps, a :: as, hl, n, t, hm => by
    simp only [mkFields]
    rcases List.mem_cons.mp hm with h | h
    · cases h; exact ⟨a, by simp⟩
    · obtain ⟨a', ha'⟩ := mkFields_mem req deps ps as (by simpa using hl) n t h
      exact ⟨a', List.mem_cons_of_mem _ ha'⟩

theorem fieldNames_mkFields (req : List String) (deps : Obj) : (props : List (String × Ty)) → (attnames : List String) →
    attnames.length = props.length → fieldNames (mkFields props attnames req deps) = props.map (·.1)
  | [], _, _ => by simp [mkFields, fieldNames]
  | (n', t') :: ps, [], hl => by simp at hl
  | (n', t') :: ps, a :: as, hl => by
    have := fieldNames_mkFields req deps ps as (by simpa using hl)
    simp only [fieldNames] at this ⊢
    simp [mkFields, Fld.name, this]

theorem dedupStr_mem : (l seen : List String) → ∀ x ∈ l, x ∈ seen ∨ x ∈ dedupStr l seen
  | [], _, x, hx => by simp at hx
  | y :: rest, seen, x, hx => by
    simp only [dedupStr]
    rcases List.mem_cons.mp hx with h | h
    · subst h
      by_cases hs : seen.contains x = true
      · exact Or.inl (by simpa using hs)
      · simp only [hs, Bool.false_eq_true, if_false]
        exact Or.inr (by simp)
    · by_cases hs : seen.contains y = true
      · simp only [hs, if_true]
        exact dedupStr_mem rest seen x h
      · simp only [hs, Bool.false_eq_true, if_false]
        rcases dedupStr_mem rest (seen ++ [y]) x h with h1 | h1
        · rcases List.mem_append.mp h1 with h2 | h2
          · exact Or.inl h2
          · simp at h2; subst h2; exact Or.inr (by simp)
        · exact Or.inr (List.mem_cons_of_mem _ h1)

theorem dedupStr_nil : (l : List String) → dedupStr l [] = [] → l = []
  | [], _ => rfl
  | y :: rest, h => by simp [dedupStr] at h

/-- the classes `layerEnums` puts over a class: the class itself, and every const / enum of the constraints -/
theorem layerEnums_conforms (R : Rx) (j : Json) : (cons : Cons) → (cls : Ty) → conforms R (layerEnums cons cls) j = true →
    conforms R cls j = true ∧ ∀ c ∈ cons, ((c.1 == "const") = true → c.2.eqv j = true) ∧
      ((c.1 == "enum") = true → sat R ("enum", c.2) j = true)
  | [], cls, h => by simp [layerEnums] at h; simp [h]
  | c :: rest, cls, h => by
    simp only [layerEnums, List.foldl] at h
    by_cases h1 : (c.1 == "const") = true
    · simp only [h1, if_true] at h
      have ih := layerEnums_conforms R j rest (Ty.rule cls [("enum", .arr [c.2])]) h
      have hr := ih.1
      simp [conforms, sat, memEqv] at hr
      refine ⟨hr.1, ?_⟩
      intro c' hc'
      rcases List.mem_cons.mp hc' with h2 | h2
      · subst h2
        refine ⟨fun _ => hr.2, fun h3 => ?_⟩
        have : c'.1 = "const" := by simpa using h1
        rw [this] at h3; simp at h3
      · exact ih.2 c' h2
    · have h1' : (c.1 == "const") = false := by simpa using h1
      simp only [h1', Bool.false_eq_true, if_false] at h
      by_cases h2 : (c.1 == "enum") = true
      · simp only [h2, if_true] at h
        have ih := layerEnums_conforms R j rest (Ty.rule cls [("enum", c.2)]) h
        have hr := ih.1
        simp only [conforms, Bool.and_eq_true, List.all_cons, List.all_nil, Bool.and_true] at hr
        refine ⟨hr.1, ?_⟩
        intro c' hc'
        rcases List.mem_cons.mp hc' with h3 | h3
        · subst h3
          exact ⟨fun h4 => by rw [h1'] at h4; simp at h4, fun _ => hr.2⟩
        · exact ih.2 c' h3
      · have h2' : (c.1 == "enum") = false := by simpa using h2
        simp only [h2', Bool.false_eq_true, if_false] at h
        have ih := layerEnums_conforms R j rest cls h
        refine ⟨ih.1, ?_⟩
        intro c' hc'
        rcases List.mem_cons.mp hc' with h3 | h3
        · subst h3
          exact ⟨fun h4 => by rw [h1'] at h4; simp at h4, fun h4 => by rw [h2'] at h4; simp at h4⟩
        · exact ih.2 c' h3

/-- a kept constraint comes from a member of the schema -/
theorem getConstraints_mem (kvs : Obj) (ty : Option String) (c : String × Json) (h : c ∈ getConstraints kvs ty) :
    ∃ k, (k, c.2) ∈ kvs ∧ cmapOf k = some c.1 ∧ kept ty k = true := by
  unfold getConstraints at h
  obtain ⟨⟨k, v⟩, hkv, hkc⟩ := List.mem_filterMap.mp h
  simp only at hkc
  cases hc : cmapOf k with
  | none => simp [hc] at hkc
  | some name =>
    simp only [hc] at hkc
    cases hg : groupKeywords ty with
    | none =>
      simp only [hg] at hkc
      cases hkc
      exact ⟨k, hkv, hc, by simp [kept, hg]⟩
    | some l =>
      simp only [hg] at hkc
      by_cases hl : l.contains k = true
      · simp only [hl, if_true] at hkc
        cases hkc
        exact ⟨k, hkv, hc, by simp only [kept, hg]; exact hl⟩
      · simp only [hl, Bool.false_eq_true, if_false] at hkc
        cases hkc

theorem requiredOk_of (names : List Json) (o : Obj) (h : ∀ n, Json.str n ∈ names → hasKey n o = true) : requiredOk names o = true := by
  unfold requiredOk
  apply List.all_eq_true.mpr
  intro x hx
  cases x <;> simp
  exact h _ hx

theorem mem_strsOf (names : List Json) (n : String) : n ∈ strsOf (.arr names) ↔ Json.str n ∈ names := by
  simp only [strsOf, List.mem_filterMap]
  constructor
  · rintro ⟨x, hx, hs⟩
    cases x <;> simp [strOf] at hs
    subst hs; exact hx
  · intro h
    exact ⟨_, h, rfl⟩

theorem lookup_some_of_hasKey (o : Obj) (k : String) (h : hasKey k o = true) : ∃ x, lookup k o = some x := by
  simp only [hasKey] at h
  cases hl : lookup k o with
  | none => simp [hl] at h
  | some x => exact ⟨x, rfl⟩


/-! ### what the fragment says about the object keywords -/

theorem frag_properties (kvs : Obj) (hf : fragKws kvs kvs = true) (v : Json) (hm : ("properties", v) ∈ kvs) :
    ∃ ps, v = .obj ps ∧ strDistinct (keys ps) = true ∧ ∀ p ∈ ps, inFragment p.2 = true := by
  have hfe := fragKws_mem kvs kvs hf _ _ hm
  simp only [fragEntry, Bool.and_eq_true] at hfe
  have h2 := hfe.2
  simp [manyKeywords] at h2
  cases v with
  | obj ps =>
    simp only [Bool.and_eq_true] at h2
    exact ⟨ps, rfl, h2.1.1, fragProps_mem ps h2.2⟩
  | _ => simp at h2

theorem nonEmptyNames_strs (v : Json) (h : nonEmptyNames v = true) : ∃ names, v = .arr names ∧ ∀ x ∈ names, ∃ n, x = .str n := by
  cases v with
  | arr names =>
    simp only [nonEmptyNames, Bool.and_eq_true] at h
    refine ⟨names, rfl, fun x hx => ?_⟩
    have := List.all_eq_true.mp h.2 x hx
    cases x <;> simp [nonEmptyStr] at this
    exact ⟨_, rfl⟩
  | _ => simp [nonEmptyNames] at h

theorem frag_required (kvs : Obj) (hf : fragKws kvs kvs = true) (v : Json) (hm : ("required", v) ∈ kvs) :
    ∃ names, v = .arr names ∧ ∀ x ∈ names, ∃ n, x = .str n := by
  have hfe := fragKws_mem kvs kvs hf _ _ hm
  simp only [fragEntry, Bool.and_eq_true] at hfe
  have h2 := hfe.2
  simp [manyKeywords, fragSimple] at h2
  exact nonEmptyNames_strs v h2

theorem frag_deps (kvs : Obj) (hf : fragKws kvs kvs = true) (v : Json) (hm : ("dependentRequired", v) ∈ kvs) :
    ∃ deps, v = .obj deps ∧ strDistinct (keys deps) = true ∧
      ∀ d ∈ deps, ∃ names, d.2 = .arr names ∧ ∀ x ∈ names, ∃ n, x = .str n := by
  have hfe := fragKws_mem kvs kvs hf _ _ hm
  simp only [fragEntry, Bool.and_eq_true] at hfe
  have h2 := hfe.2
  simp [manyKeywords, fragSimple] at h2
  cases v with
  | obj deps =>
    simp at h2
    refine ⟨deps, rfl, h2.1, fun d hd => ?_⟩
    exact nonEmptyNames_strs d.2 (h2.2 d.1 d.2 hd).2
  | _ => simp at h2

theorem frag_additional (kvs : Obj) (hf : fragKws kvs kvs = true) (v : Json) (hm : ("additionalProperties", v) ∈ kvs) :
    (∃ b, v = .bool b) ∨ ((∃ o, v = .obj o) ∧ inFragment v = true) := by
  have hfe := fragKws_mem kvs kvs hf _ _ hm
  simp only [fragEntry, Bool.and_eq_true] at hfe
  have h3 : inFragment v = true := by simpa using hfe.2
  cases v with
  | obj o => exact Or.inr ⟨⟨o, rfl⟩, h3⟩
  | bool b => exact Or.inl ⟨b, rfl⟩
  | _ => simp [inFragment] at h3

/-- no `patternProperties` in the fragment: a member is declared iff `properties` names it -/
theorem isDeclared_of (C : Ctx) (kvs : Obj) (ps : List (String × Json)) (h : lookup "properties" kvs = some (.obj ps))
    (name : String) (hn : name ∈ keys ps) : isDeclared C kvs name = true := by
  simp [isDeclared, h, (hasKey_iff_mem_keys ps name).mpr hn]

end Utv.C15
