/-
Parse-level places that read the two preferences (C12):
  * `Options.__init__` (options.py:151-155): no_data_loss ⇒ addition=False unless the caller chose one
    (with fix C12-ndl-addition-default: also when `addition` is left at its default),
  * the tuple prefix parser `_parse_tuple_args` (rule.py:1938-1947): excess items,
  * unknown keys of a data class / function (`parse_addition`, base.py:411-435),
  * list / tuple input of a data class (`transform_dataclass`, cls.py:640-652).
-/
import Utv.Model.Conv
namespace Utv.C12M
open Utv.Conv

/-- the `addition` option: left at its default, `None`, `False`, or `True` / a type -/
inductive Addition where
  | unset | none | no | yes
  deriving DecidableEq, Repr

/-- options.py:151-155 (after the fix): the value of `Options(...).addition` (the class default is `None`) -/
def normAddition (ndl : Bool) (a : Addition) : Addition :=
  if ndl then
    (match a with
     | .unset => .no
     | .none => .no
     | a => a)
  else
    (match a with
     | .unset => .none
     | a => a)

/-- base.py:411-435 `parse_addition` for an unknown key: rejected (ExceedError), dropped, or kept -/
inductive KeyFate where
  | rejected | dropped | kept
  deriving DecidableEq, Repr

def unknownKey (excluded : Bool) (a : Addition) : KeyFate :=
  if excluded then
    -- `key in self.exclude_vars` (base.py:412-418, func.py:604-612; with fix C12-excluded-key-under-ndl): a private /
    -- ClassVar name is never carried as an addition; where unknown keys are refused it is refused too
    (match a with
     | .no => .rejected
     | _ => .dropped)
  else
  match a with
  | .no => .rejected
  | .yes => .kept
  | _ => .dropped

/-- rule.py:1943-1946: the indices handed to `context.handle_error(TupleExceedError)`; with the default
(fail-fast) context the first one raises -/
def tupleExcess (a : Addition) (ndl : Bool) (nargs nvals : Nat) : List Nat :=
  if nvals > nargs && (a == .no || ndl) then List.range' nargs (nvals - nargs) else []

/-- cls.py:640-652: what `transform_dataclass` hands on for a list / tuple input (the data-class instance
shortcuts are outside `V`) -/
def dataclassUnwrap (f : Flags) (v : V) : Outcome V :=
  match v with
  | .seq k _ xs =>
    if (k == .list || k == .tuple) && !f.nec then
      match xs with
      | [] => .ok v
      | x :: rest => if f.ndl && !rest.isEmpty then .perr .typeError else .ok x
    else .ok v
  | _ => .ok v

/-- `transform_dataclass` followed by the input stage of `init_dataclass` (cls.py:598-629): the mapping that
reaches `cls.__init__(**data)`.  `fr` are the preferences of the running transformer (they decide the
unwrapping), `fc` those of the data class's own options (they decide how a non-mapping becomes a dict). -/
def keywordData (d : V) : Outcome V :=
  -- cls.py:579-595 `keyword_data` (cast_keyword_str off): the mapping becomes keyword arguments, keys must be str
  match d with
  | .dict _ kvs => if kvs.all (fun kv => isInst kv.1 .str) then .ok d else .perr .typeError
  | _ => .ok d

def dataclassInput (P : Prims) (E : Env) (fr fc : Flags) (v : V) : Outcome V :=
  dataclassUnwrap fr v >>= fun d =>
    (if isInst d .dict then .ok d
     else if fc.nec then .perr .typeError
     else toDict P E fc 0 d) >>= keywordData

/-! ### `transform_dataclass` with instances of the class among the input (cls.py:640-659) -/

/-- what `transform_dataclass` does with its input: return an object that already is an instance, or hand a
value to `init_dataclass` -/
inductive DcResult where
  | instance (v : V)
  | init (v : V)
  deriving Repr

/-- cls.py:640-659 (since ea05768 the unwrapping runs inside a `try` that re-raises as `ParseError`, a TypeError
subclass: still `perr typeError` here).  `isExact d` = `type(d) == cls`, `isInst d` = `isinstance(d, cls)`, `allowSub` =
`Options.allow_subclasses` (of the running transformer).  The length check under no_data_loss comes
*before* the look at the first item: several items never collapse, whatever they are. -/
def dataclassStep (isExact isInst : V → Bool) (allowSub : Bool) (f : Flags) (v : V) : Outcome DcResult :=
  let unwrapped : Outcome (V × Bool) :=
    match v with
    | .seq k _ xs =>
      if (k == .list || k == .tuple) && !f.nec then
        match xs with
        | [] => .ok (v, false)
        | x :: rest => if f.ndl && !rest.isEmpty then .perr .typeError else .ok (x, true)
      else .ok (v, false)
    | _ => .ok (v, false)
  unwrapped >>= fun (d, fromList) =>
    if fromList && isExact d then .ok (.instance d)
    else if allowSub && isInst d then .ok (.instance d)
    else .ok (.init d)

/-! ### Union types: the stages of `LogicalType.logical_parse` built from the flags (rule.py:386-435) -/

/-- `for con in args: try: return transformer(value, con) except Exception: collect` — the first member that
converts; every exception class is caught, a hang is not -/
def firstOk (g : Target → Outcome V) : List Target → Outcome (Option V)
  | [] => .ok none
  | t :: ts =>
    match g t with
    | .ok r => .ok (some r)
    | .perr _ => firstOk g ts
    | .escape _ => firstOk g ts
    | .diverge => .diverge
    | .unmodelled w => .unmodelled w

/-- the stage skeleton of rule.py:386-435 over an abstract pass `pass flags` = "the first member that converts
under these flags": 1. exact type; 2. strict pass unless both preferences are set; 3. no-loss pass if none is
set; 4. the context's own flags; else the collected errors are raised -/
def unionStages (exact : Bool) (pass : Flags → Outcome (Option V)) (f : Flags) (v : V) : Outcome V :=
  if exact then .ok v else
  (if !f.ndl || !f.nec then pass ⟨true, true⟩ else .ok none) >>= fun s2 =>
  match s2 with
  | some r => .ok r
  | none =>
    (if !f.ndl && !f.nec then pass ⟨false, true⟩ else .ok none) >>= fun s3 =>
    match s3 with
    | some r => .ok r
    | none =>
      pass f >>= fun s4 =>
      match s4 with
      | some r => .ok r
      | none => .perr .typeError

/-- rule.py:386-435 over an abstract member converter `conv flags member value`:
1. a value whose exact type is a member passes through; 2. unless both preferences are already set, every
member is tried under both (the strict stage); 3. if neither is set, every member under no_data_loss;
4. every member under the context's own flags; else the collected errors are raised (a ParseError). -/
def unionParse (conv : Flags → Target → V → Outcome V) (f : Flags) (ts : List Target) (v : V) : Outcome V :=
  unionStages (ts.any (fun t => typeEq v t)) (fun g => firstOk (fun t => conv g t v) ts) f v

/-! ### members of a Union that are Rules: parametrised generics and constrained types (rule.py:1706-1777,
`_parse_seq_args` :1997-2023, `_parse_map_args` :2026-2092, `_parse_tuple_args` :1938-1995), default options
(fail-fast context: the first `handle_error` raises a ParseError) -/

/-- one constraint of a constrained Rule (`class R(int, Rule): gt = 0`) -/
inductive Constraint where
  | intGt (n : Int) | intLe (n : Int) | strMaxLen (n : Nat)
  deriving Repr

inductive Ty where
  | plain (t : Target)
  | seqOf (k : SeqK) (e : Ty)              -- List[e] / Set[e] / Tuple[e, ...] …
  | mapOf (kt vt : Ty)                     -- Dict[kt, vt]
  | tupleOf (ts : List Ty)                 -- Tuple[t1, …, tn]
  | cons (t : Target) (c : Constraint)     -- constrained Rule over a plain origin
  deriving Repr

/-- a Rule raises ParseError whatever its parts raised (`except Exception … handle_error`); a hang stays a hang -/
def wrapRule (o : Outcome V) : Outcome V :=
  match o with
  | .ok r => .ok r
  | .perr _ => .perr .typeError
  | .escape _ => .perr .typeError
  | .diverge => .diverge
  | .unmodelled w => .unmodelled w

def mapMO (g : V → Outcome V) : List V → Outcome (List V)
  | [] => .ok []
  | x :: xs => g x >>= fun y => mapMO g xs >>= fun ys => .ok (y :: ys)

/-- `_parse_map_args`: keys then values, entries inserted in order (`result[key] = val`) -/
def mapEntries (gk gv : V → Outcome V) : List (V × V) → List (V × V) → Outcome (List (V × V))
  | [], acc => .ok acc
  | (k, v) :: rest, acc =>
    gk k >>= fun k' => gv v >>= fun v' =>
      if hashable k' then mapEntries gk gv rest (dictSet acc k' v') else .perr .typeError

def checkConstraint (c : Constraint) (v : V) : Outcome V :=
  match c, v with
  | .intGt n, .int _ i => if i > n then .ok v else .perr .valueError
  | .intGt n, .bool b => if (if b then 1 else 0) > n then .ok v else .perr .valueError
  | .intLe n, .int _ i => if i ≤ n then .ok v else .perr .valueError
  | .intLe n, .bool b => if (if b then 1 else 0) ≤ n then .ok v else .perr .valueError
  | .strMaxLen n, .str _ s => if s.length ≤ n then .ok v else .perr .valueError
  | _, _ => .unmodelled "constraint on this value"

mutual
/-- `transformer(value, member)` for a member type under flags `f` (the flags of the sub-context the union
entered for this member; element sub-contexts inherit them) -/
def parseTy (P : Prims) (E : Env) (f : Flags) : Ty → V → Outcome V
  | .plain t, v => transform P E f t v
  | .cons t c, v => wrapRule (transform P E f t v >>= checkConstraint c)
  | .seqOf k e, v => wrapRule (
      transform P E f (.cls k.base 0) v >>= fun s =>
      match s with
      | .seq k' _ xs =>
        if k'.isSet && xs.length > 1 then .unmodelled "iteration order of a set"
        else mapMO (parseTy P E f e) xs >>= fun ys => construct k 0 ys      -- re-wrap `origin(result)`
      | _ => .unmodelled "origin transform did not give a sequence")
  | .mapOf kt vt, v => wrapRule (
      transform P E f (.cls .dict 0) v >>= fun s =>
      match s with
      | .dict _ kvs => mapEntries (parseTy P E f kt) (parseTy P E f vt) kvs [] >>= fun r => .ok (.dict 0 r)
      | _ => .unmodelled "origin transform did not give a dict")
  | .tupleOf ts, v => wrapRule (
      transform P E f (.cls .tuple 0) v >>= fun s =>
      match s with
      | .seq _ _ xs =>
        -- excess items: reported under no_data_loss (addition is None here); missing items: AbsenceError
        if xs.length > ts.length && f.ndl then .perr .typeError
        else if xs.length < ts.length then .perr .typeError
        else parseTuple P E f ts xs >>= fun ys => .ok (.seq .tuple 0 ys)
      | _ => .unmodelled "origin transform did not give a tuple")
termination_by structural t => t
/-- the prefix items of a fixed tuple (excess items are dropped: `addition` is None) -/
def parseTuple (P : Prims) (E : Env) (f : Flags) : List Ty → List V → Outcome (List V)
  | [], _ => .ok []
  | _ :: _, [] => .perr .typeError
  | t :: ts, x :: xs => parseTy P E f t x >>= fun y => parseTuple P E f ts xs >>= fun ys => .ok (y :: ys)
termination_by structural ts => ts
end

/-! #### the context a member runs in (rule.py:397-398: `with context.enter(...)` *inside* the loop) -/

/-- `RuntimeContext.handle_error` keeps the error in `context.errors` even when it raises, and `Rule.parse`
ends with `context.raise_error()`: a Rule run in a context that already holds an error fails.  `runMember
isRule poisoned clean` = (outcome, context holds an error afterwards) for a member whose outcome in a
clean context is `clean`. -/
def runMember (isRule : Bool) (poisoned : Bool) (clean : Outcome V) : Outcome V × Bool :=
  if !isRule then (clean, poisoned)
  else match clean with
    | .ok r => if poisoned then (.perr .typeError, true) else (.ok r, false)
    | .diverge => (.diverge, poisoned)
    | .unmodelled w => (.unmodelled w, poisoned)
    | _ => (.perr .typeError, true)

/-- one pass of the union with a **fresh** context per member (what the code does) -/
def passFresh : List (Bool × Outcome V) → Outcome (Option V)
  | [] => .ok none
  | (isRule, clean) :: rest =>
    match (runMember isRule false clean).1 with
    | .ok r => .ok (some r)
    | .perr _ => passFresh rest
    | .escape _ => passFresh rest
    | .diverge => .diverge
    | .unmodelled w => .unmodelled w

/-- one pass with **one** context shared by all members (the hoisted `with`): an earlier failing Rule
poisons every later Rule -/
def passShared : Bool → List (Bool × Outcome V) → Outcome (Option V)
  | _, [] => .ok none
  | p, (isRule, clean) :: rest =>
    match runMember isRule p clean with
    | (.ok r, _) => .ok (some r)
    | (.perr _, p') => passShared p' rest
    | (.escape _, p') => passShared p' rest
    | (.diverge, _) => .diverge
    | (.unmodelled w, _) => .unmodelled w

def Ty.isRule : Ty → Bool
  | .plain _ => false
  | _ => true

/-- the Union over member *types* (rule.py:386-435): `unionParse` with `parseTy` as member converter; the
exact-type shortcut only applies to plain members -/
def unionParseTy (P : Prims) (E : Env) (f : Flags) (ts : List Ty) (v : V) : Outcome V :=
  unionStages (ts.any fun t => match t with | .plain t' => typeEq v t' | _ => false)
    (fun g => passFresh (ts.map fun t => (t.isRule, parseTy P E g t v))) f v

/-! ### preferences that reach a class by inheritance / from an overriding outer class (hand models of
`BaseParser.apply_for` base.py:41-67 and `Options.make_context` options.py:249-258; tied by the `inherit` cases only) -/

/-- `getattr(cls, '__options__', None)` along the MRO (the class itself first): the nearest declaration -/
def declaredFlags : List (Option Flags) → Flags
  | [] => ⟨false, false⟩
  | some f :: _ => f
  | none :: rest => declaredFlags rest

/-- `Options.make_context(context=outer)`: the outer context's options replace the class's own only when the
outer ones say `override` and the own ones do not -/
def contextFlags (own : Flags × Bool) (outer : Option (Flags × Bool)) : Flags :=
  match outer with
  | some (fo, true) => if own.2 then own.1 else fo
  | _ => own.1


end Utv.C12M
