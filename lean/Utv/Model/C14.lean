/-
C14 — model of the JSON encoders (`utype/utils/encode.py:51-177`) and of the decoding paths
`to_datetime to_date to_time to_timedelta to_decimal to_uuid to_enum to_bytes to_integer
to_array_types to_dict` (`utype/utils/transform.py:195-662`), the generic argument parsers
(`utype/parser/rule.py:1892-2035`) and "data class from a JSON object" (`utype/parser/cls.py:551-618`).

Hand-written, branch for branch, on the inputs JSON can deliver (null, bool, int, float, str, array,
object).  Branches that JSON values reach only outside a round trip (query-string / literal_eval
guessing, timestamps) answer `unmodelled`.  `Optional[T]` runs the union stages of `logical_parse`
under the three converter preferences (`Mode`).

Text is `List Char`.  The *formatters* that the encoders call (`isoformat`, `str(int)`,
`"{:02d}".format`) are modelled concretely (fixed-width decimal digits); the *parsers* and the
number / UUID / UTF-8 conversions of CPython are the abstract structure `Prims`, so every theorem
holds for every implementation of them that satisfies `PrimLaws` (Props/C14.lean).  `Model/C14P0.lean`
gives a concrete instance; the driver runs it.

`Cfg` selects, per repaired defect, the code before (`false`) and after (`true`) the `fix:` patch.
-/
namespace Utv.C14

abbrev Str := List Char

/-! ### values -/

/-- a float is an opaque token to utype (only `not x`, `isfinite`, `x != x` are observed);
the driver uses `m * 2^e` -/
inductive F where
  | fin (neg : Bool) (m : Nat) (e : Int)
  | inf (neg : Bool)
  | nan
  deriving DecidableEq, Repr

def F.isZero : F → Bool
  | .fin _ 0 _ => true
  | _ => false

def F.isFinite : F → Bool
  | .fin _ _ _ => true
  | _ => false

def F.isNan : F → Bool
  | .nan => true
  | _ => false

/-- `decimal.Decimal` as `as_tuple()` shows it -/
inductive Dec where
  | fin (neg : Bool) (c : Nat) (e : Int)
  | inf (neg : Bool)
  | nan
  deriving DecidableEq, Repr

structure Date where
  y : Nat
  m : Nat
  d : Nat
  deriving DecidableEq, Repr

structure Clock where
  h : Nat
  mi : Nat
  s : Nat
  us : Nat
  deriving DecidableEq, Repr

/-- `tz` = utcoffset in microseconds (`timezone(timedelta(microseconds=tz))`), `none` = naive -/
structure DateTime where
  date : Date
  clock : Clock
  tz : Option Int
  deriving DecidableEq, Repr

structure TimeV where
  clock : Clock
  tz : Option Int
  deriving DecidableEq, Repr

inductive EVal where
  | int (i : Int)
  | str (s : Str)
  | tuple (xs : List Int)       -- a member value JSON cannot carry in its own type (written as an array)
  deriving DecidableEq, Repr

inductive Mixin where
  | none | int | str
  deriving DecidableEq, Repr

/-- an `Enum` class: `(name, value)` per member in definition order, and the mixed-in data type -/
structure EnumDecl where
  mixin : Mixin
  members : List (Str × EVal)
  deriving DecidableEq, Repr

inductive Key where
  | str (s : Str)
  | int (i : Int)
  deriving DecidableEq, Repr

inductive Js where
  | null
  | bool (b : Bool)
  | int (i : Int)
  | float (f : F)
  | str (s : Str)
  | arr (xs : List Js)
  | obj (kvs : List (Str × Js))
  deriving Repr

inductive Val where
  | none
  | bool (b : Bool)
  | int (i : Int)
  | float (f : F)
  | str (s : Str)
  | bytes (b : List UInt8)
  | dec (d : Dec)
  | date (d : Date)
  | datetime (dt : DateTime)
  | time (t : TimeV)
  | delta (us : Int)                       -- timedelta as total microseconds
  | uuid (n : Nat)
  | enum (decl : EnumDecl) (idx : Nat)     -- member number `idx` of the class
  | list (xs : List Val)
  | set (xs : List Val)
  | tuple (xs : List Val)
  | dict (kvs : List (Key × Val))
  | data (fields : List (Str × Val))       -- a Schema instance (dict subclass)
  deriving Repr

inductive KeyTy where
  | str | int
  deriving DecidableEq, Repr

/-- a literal default value -/
inductive Lit where
  | none | bool (b : Bool) | int (i : Int) | str (s : Str)
  deriving DecidableEq, Repr

def Lit.toVal : Lit → Val
  | .none => .none
  | .bool b => .bool b
  | .int i => .int i
  | .str s => .str s

/-- the body of an output `@property`, over the output names of its declared dependencies -/
inductive PropExpr where
  | sumInt (deps : List Str)               -- sum of int fields
  | concat (deps : List Str)               -- concatenation of str fields
  deriving DecidableEq, Repr

/-- how a field takes part in input and output (field.py `no_input` / `no_output` / `mode` / `required` /
`default`, `@property`) -/
inductive Kind where
  | input (required : Bool) (default : Option Lit)  -- taken from the input, stored in the instance
  | noOutput                                        -- taken from the input, never part of the instance's data
  | noInput (default : Lit)                         -- never taken from the input: the default is stored
  | prop (e : PropExpr)                             -- output property: recomputed from its dependencies
  deriving DecidableEq, Repr

/-- a field of a data class as the parser sees it: `name` is the output key (alias / generated alias /
attribute name), `keys` is `field.all_aliases` before lower-casing (`name` first), `ci` is
`field.is_case_insensitive(options)` -/
structure FieldMeta where
  name : Str
  keys : List Str
  ci : Bool
  kind : Kind
  deriving DecidableEq, Repr

structure ClassOpts where
  maxDepth : Option Nat      -- Options(max_depth)
  dataFirst : Bool           -- the lookup strategy parse_data uses (base.py:391-403)
  deriving DecidableEq, Repr

inductive Ty where
  | none | bool | int | float | str | bytes | dec | date | datetime | time | delta | uuid
  | enum (decl : EnumDecl)
  | list (t : Ty)
  | set (t : Ty)
  | tuple (ts : List Ty)                   -- Tuple[T1, ..., Tn]
  | tupleVar (t : Ty)                      -- Tuple[T, ...]
  | dict (k : KeyTy) (v : Ty)
  | data (fields : List (FieldMeta × Ty)) (opts : ClassOpts)   -- a Schema subclass
  | optional (t : Ty)
  | cut                                    -- where the unrolling of a self-referencing class stops
  deriving Repr

/-! ### CPython builtins that are not utype's business -/

/-- named groups of `DURATION_REGS[1]` (transform.py:97-107) -/
structure DurGroups where
  sign : Str
  days : Option Str
  hours : Option Str
  minutes : Option Str
  seconds : Option Str
  deriving DecidableEq, Repr

structure Prims where
  /-- `datetime.strptime(s, fmt)`; `none` = ValueError -/
  strptime : Str → Str → Option DateTime
  /-- `time.fromisoformat(s)`; `none` = ValueError -/
  timeFromIso : Str → Option TimeV
  /-- does `float(s)` succeed -/
  floatParses : Str → Bool
  /-- does `DURATION_REGS[0].match(s)` succeed -/
  reDuration0 : Str → Bool
  /-- `DURATION_REGS[1].match(s).groupdict()` -/
  reDurationIso : Str → Option DurGroups
  /-- `timedelta(**{k: float(v)})` over the non-`None` groups, as microseconds; `none` = raises -/
  tdOfGroups : DurGroups → Option Int
  /-- `float(d)` for a finite Decimal -/
  floatOfDec : Dec → F
  /-- `Decimal(str(f))` -/
  decOfFloat : F → Dec
  /-- `str(d)` -/
  decStr : Dec → Str
  /-- `Decimal(s)`; `none` = InvalidOperation -/
  decOfStr : Str → Option Dec
  /-- `str(uuid)` -/
  uuidStr : Nat → Str
  /-- `UUID(s).int`; `none` = ValueError -/
  uuidOfStr : Str → Option Nat
  /-- `b.decode("utf-8", errors="replace")` -/
  utf8Decode : List UInt8 → Str
  /-- `s.encode()` -/
  utf8Encode : Str → List UInt8
  /-- `json.dumps(tree)` / `json.loads(text)` on trees of builtin values -/
  jsonDumps : Js → Str
  jsonLoads : Str → Option Js

/-- which `fix:` patches are applied (`true` = repaired code) -/
structure Cfg where
  negOffset : Bool      -- to_datetime detects a negative UTC offset (transform.py:539-544)
  timeTz : Bool         -- from_time keeps the offset of an aware time with milliseconds (encode.py:127-132)
  decTiny : Bool        -- from_decimal writes Decimals below the normal float range as strings (encode.py:147-149)
  enumValueFirst : Bool -- to_enum converts by value first, member names are a lenient fallback (transform.py:659-677)
  deriving DecidableEq, Repr

/-- the converter preferences a conversion runs under: the defaults, `Options(no_data_loss=True)` and
`Options(no_data_loss=True, no_explicit_cast=True)` — the union stages of `logical_parse` (rule.py:375-420) -/
inductive Mode where
  | lenient | noloss | strict
  deriving DecidableEq, Repr

def Mode.noExplicitCast : Mode → Bool
  | .strict => true
  | _ => false

def Mode.noDataLoss : Mode → Bool
  | .lenient => false
  | _ => true

def Cfg.fixed : Cfg := ⟨true, true, true, true⟩
def Cfg.legacy : Cfg := ⟨false, false, false, false⟩

/-! ### text helpers (Python `str` methods on the fragment used) -/

def natStr (n : Nat) : Str := Nat.toDigits 10 n

/-- `str(i)` -/
def intStr (i : Int) : Str :=
  if i < 0 then '-' :: natStr i.natAbs else natStr i.toNat

/-- `"{:0<w>d}".format(n)` for `n ≥ 0` -/
def pad (w n : Nat) : Str :=
  List.replicate (w - (natStr n).length) '0' ++ natStr n

/-- `pat in s` -/
def contains (pat : Str) : Str → Bool
  | [] => pat.isEmpty
  | c :: cs => pat.isPrefixOf (c :: cs) || contains pat cs

/-- `s.replace(pat, "")` for a non-empty `pat`: leftmost non-overlapping occurrences -/
def removeAll (pat : Str) (s : Str) : Str := go 0 s
where
  go (skip : Nat) : Str → Str
    | [] => []
    | c :: cs =>
      if skip > 0 then go (skip - 1) cs
      else if pat.isPrefixOf (c :: cs) then go (pat.length - 1) cs
      else c :: go 0 cs

/-- Python's `str.isspace` on ASCII (the fragment: non-ASCII whitespace is not modelled) -/
def isSpace (c : Char) : Bool :=
  c == ' ' || c == '\t' || c == '\n' || c == '\r' || c == '\x0b' || c == '\x0c'
    || c == '\x1c' || c == '\x1d' || c == '\x1e' || c == '\x1f'

def lstrip (s : Str) : Str := s.dropWhile isSpace
def rstrip (s : Str) : Str := (s.reverse.dropWhile isSpace).reverse
def strip (s : Str) : Str := rstrip (lstrip s)
def rstripChar (c : Char) (s : Str) : Str := (s.reverse.dropWhile (· == c)).reverse
def endsWith (suffix s : Str) : Bool := suffix.reverse.isPrefixOf s.reverse

/-- `s.lower()` on ASCII -/
def lower (s : Str) : Str := s.map Char.toLower

/-! ### the encoders (encode.py) -/

/-- `date.isoformat()` -/
def isoDate (d : Date) : Str :=
  pad 4 d.y ++ '-' :: pad 2 d.m ++ '-' :: pad 2 d.d

/-- `_format_time` with `timespec="auto"` -/
def isoClock (c : Clock) : Str :=
  pad 2 c.h ++ ':' :: pad 2 c.mi ++ ':' :: pad 2 c.s ++ (if c.us != 0 then '.' :: pad 6 c.us else [])

/-- `_format_time` with `timespec="milliseconds"` -/
def isoClockMs (c : Clock) : Str :=
  pad 2 c.h ++ ':' :: pad 2 c.mi ++ ':' :: pad 2 c.s ++ '.' :: pad 3 (c.us / 1000)

/-- `_format_offset`: `+HH:MM[:SS[.ffffff]]` -/
def isoOffset (off : Int) : Str :=
  let a := off.natAbs
  let hh := a / 3600000000
  let r := a % 3600000000
  let mm := r / 60000000
  let r2 := r % 60000000
  let ss := r2 / 1000000
  let us := r2 % 1000000
  (if off < 0 then '-' else '+') :: pad 2 hh ++ ':' :: pad 2 mm ++
    (if ss != 0 || us != 0 then ':' :: pad 2 ss ++ (if us != 0 then '.' :: pad 6 us else []) else [])

def isoTz : Option Int → Str
  | none => []
  | some o => isoOffset o

/-- `datetime.isoformat()` — `from_datetime`, encode.py:111-113 -/
def isoDateTime (dt : DateTime) : Str :=
  isoDate dt.date ++ 'T' :: isoClock dt.clock ++ isoTz dt.tz

/-- `time.isoformat()` -/
def isoTime (t : TimeV) : Str := isoClock t.clock ++ isoTz t.tz

/-- `from_time`, encode.py:126-132 -/
def fromTime (cfg : Cfg) (t : TimeV) : Str :=
  if t.clock.us != 0 then
    if cfg.timeTz then isoClockMs t.clock ++ isoTz t.tz     -- isoformat(timespec="milliseconds")
    else (isoTime t).take 12                                 -- r[:12]  (before the fix)
  else isoTime t

/-- `duration_iso_string`, encode.py:51-71, on a timedelta of `us` microseconds -/
def durationIso (us : Int) : Str :=
  let a := us.natAbs                      -- `duration *= -1` when negative
  let days := a / 86400000000
  let rem := a % 86400000000
  let secs := rem / 1000000               -- duration.seconds
  let micro := rem % 1000000              -- duration.microseconds
  let minutes := secs / 60
  let seconds := secs % 60
  let hours := minutes / 60
  let minutes := minutes % 60
  let ms := if micro != 0 then '.' :: pad 6 micro else []
  (if us < 0 then ['-'] else []) ++ 'P' :: natStr days ++ 'D' :: 'T' :: pad 2 hours ++ 'H' :: pad 2 minutes
    ++ 'M' :: pad 2 seconds ++ ms ++ ['S']

def maxSafe : Nat := 9007199254740991     -- MAX_SAFE_NUMBER = -MIN_SAFE_NUMBER, encode.py:175-176

/-- `js_unsafe(d)` for a finite Decimal `±c·10^e`: `d > MAX_SAFE_NUMBER or d < MIN_SAFE_NUMBER` (exact) -/
def jsUnsafe (c : Nat) (e : Int) : Bool :=
  if e ≥ 0 then c * 10 ^ e.toNat > maxSafe else c > maxSafe * 10 ^ (-e).toNat

/-- `d and d.copy_abs() < MIN_NORMAL_FLOAT` (= 2^-1022) -/
def decTiny (c : Nat) (e : Int) : Bool :=
  c != 0 && (if e ≥ 0 then false else c * 2 ^ 1022 < 10 ^ (-e).toNat)

/-- `from_decimal`, encode.py:139-152 -/
def fromDecimal (cfg : Cfg) (P : Prims) (d : Dec) : Js :=
  match d with
  | .fin neg c e =>
    if jsUnsafe c e then .str (P.decStr d)
    else if e == 0 then .int (if neg then -(c : Int) else c)
    else if cfg.decTiny && decTiny c e then .str (P.decStr d)
    else .float (P.floatOfDec d)
  | _ => .str (P.decStr d)

def EVal.toJson : EVal → Js
  | .int i => .int i
  | .str s => .str s
  | .tuple xs => .arr (xs.map Js.int)      -- from_enum gives the tuple, json writes a list

/-- how `json.dumps` writes a dict key: `str`, `int` (→ `str(i)`) -/
def Key.toStr : Key → Str
  | .str s => s
  | .int i => intStr i

inductive Res (α : Type) where
  | ok (a : α)
  | perr                         -- an exception the field layer turns into ParseError / the encoder's TypeError
  | unmodelled (why : String)
  deriving Repr

instance : Monad Res where
  pure := .ok
  bind x f := match x with
    | .ok a => f a
    | .perr => .perr
    | .unmodelled w => .unmodelled w

mutual
/-- `json.dumps(v, cls=JSONEncoder)` as a tree: builtin handling of dict/list/tuple/str/int/float/bool/None,
`JSONEncoder.default` + the registered encoders for the rest (encode.py:19-25, 74-170) -/
def encode (cfg : Cfg) (P : Prims) : Val → Res Js
  | .none => .ok .null
  | .bool b => .ok (.bool b)
  | .int i => .ok (.int i)
  | .float f => .ok (.float f)
  | .str s => .ok (.str s)
  | .bytes b => .ok (.str (P.utf8Decode b))                 -- from_bytes
  | .dec d => .ok (fromDecimal cfg P d)                      -- from_decimal
  | .date d => .ok (.str (isoDate d))                        -- from_datetime
  | .datetime dt => .ok (.str (isoDateTime dt))              -- from_datetime
  | .time t => .ok (.str (fromTime cfg t))                   -- from_time
  | .delta us => .ok (.str (durationIso us))                 -- from_duration
  | .uuid n => .ok (.str (P.uuidStr n))                      -- from_uuid
  | .enum decl i =>                                          -- from_enum (or the builtin int/str path of a mixin)
    match decl.members[i]? with
    | some (_, v) => .ok v.toJson
    | none => .unmodelled "enum member index"
  | .list xs => do pure (.arr (← encodeList cfg P xs))
  | .set xs => do pure (.arr (← encodeList cfg P xs))        -- from_set: list(data)
  | .tuple xs => do pure (.arr (← encodeList cfg P xs))
  | .dict kvs => do pure (.obj (← encodeKVs cfg P kvs))
  | .data fs => do pure (.obj (← encodeFields cfg P fs))
def encodeList (cfg : Cfg) (P : Prims) : List Val → Res (List Js)
  | [] => .ok []
  | x :: xs => do
    let j ← encode cfg P x
    let js ← encodeList cfg P xs
    pure (j :: js)
def encodeKVs (cfg : Cfg) (P : Prims) : List (Key × Val) → Res (List (Str × Js))
  | [] => .ok []
  | (k, v) :: kvs => do
    let j ← encode cfg P v
    let js ← encodeKVs cfg P kvs
    pure ((k.toStr, j) :: js)
def encodeFields (cfg : Cfg) (P : Prims) : List (Str × Val) → Res (List (Str × Js))
  | [] => .ok []
  | (k, v) :: kvs => do
    let j ← encode cfg P v
    let js ← encodeFields cfg P kvs
    pure ((k, j) :: js)
end

/-! ### the decoders (transform.py) -/

-- TypeTransformer.DATETIME_FORMATS / DATE_FORMATS, transform.py:49-74 (compared with the source on every run)
def DATETIME_FORMATS : List Str := [
  "%Y-%m-%d %H:%M:%S".toList, "%Y-%m-%d %H:%M:%S.%f".toList, "%Y-%m-%d %H:%M:%S %f".toList,
  "%Y-%m-%d %I:%M:%S %p".toList, "%Y-%m-%dT%H:%M:%S".toList, "%Y-%m-%dT%H:%M:%S.%f".toList,
  "%a, %d %b %Y %H:%M:%S".toList, "%a %b %d %H:%M:%S %Y".toList, "%b %d %H:%M:%S %Y".toList,
  "%Y-%m-%d %H:%M".toList]

def DATE_FORMATS : List Str := [
  "%Y-%m-%d".toList, "%d %b %Y".toList, "%d %B %Y".toList, "%Y/%m/%d".toList, "%d/%m/%Y".toList,
  "%m/%d/%Y".toList, "%d-%m-%Y".toList, "%A, %d %B %Y".toList, "%a, %d %b %Y".toList, "%Y%m%d".toList]

def NULL_VALUES : List Str := ["null".toList, "none".toList, "nil".toList]
def FALSE_VALUES : List Str := ["0".toList, "false".toList, "no".toList, "off".toList, "f".toList]
def TRUE_VALUES : List Str := ["1".toList, "true".toList, "yes".toList, "on".toList, "t".toList, "y".toList]

def midnight : Clock := ⟨0, 0, 0, 0⟩

/-- the `for f in formats: try: return strptime(data, f + suffix) except: continue` loops -/
def firstFormat (P : Prims) (s suffix : Str) : List Str → Option DateTime
  | [] => none
  | f :: fs => match P.strptime s (f ++ suffix) with
    | some v => some v
    | none => firstFormat P s suffix fs

/-- `to_datetime(data: str)`, transform.py:508-560 -/
def epochUtc : DateTime := ⟨⟨1970, 1, 1⟩, midnight, some 0⟩

def toDatetime (cfg : Cfg) (m : Mode) (P : Prims) (dateFirst : Bool) (data : Str) : Res DateTime :=
  let isUtc := contains "GMT".toList data || contains "UTC".toList data
                || (endsWith ['Z'] data && contains ['T'] data)
  let data := strip (rstripChar 'Z' (removeAll "TZD".toList (removeAll "UTC".toList (removeAll "GMT".toList data))))
  let formats := if dateFirst then DATE_FORMATS ++ DATETIME_FORMATS else DATETIME_FORMATS ++ DATE_FORMATS
  let fixTz (v : DateTime) : DateTime := if isUtc then { v with tz := some 0 } else v
  match firstFormat P data [] formats with
  | some v => .ok (fixTz v)
  | none =>
    let signed := contains ['+'] data || (cfg.negOffset && contains ['-'] data)
    let spaced := contains [' ', '+'] data || (cfg.negOffset && contains [' ', '-'] data)
    match (if signed then firstFormat P data (if spaced then " %z".toList else "%z".toList) formats else none) with
    | some v => .ok (fixTz v)
    | none =>
      -- `self.to_float(data)`: refused under no_explicit_cast; `not data → 0` (transform.py:178-181), so what is
      -- left of "", "Z", "GMT" is the epoch; otherwise `float(data)`
      if m.noExplicitCast then .perr
      else if data.isEmpty then .ok epochUtc
      else if P.floatParses data then .unmodelled "datetime from a numeric string (timestamp)"
      else .perr                                            -- TypeError('invalid datetime')

/-- `to_date(data: str)`, transform.py:491-506 -/
def toDate (cfg : Cfg) (m : Mode) (P : Prims) (data : Str) : Res Date := do
  let dt ← toDatetime cfg m P true data
  if m.noDataLoss && !(dt.clock == midnight) then .perr     -- "got time part"
  else pure dt.date

/-- `to_time(data: str)`, transform.py:603-620 -/
def toTime (cfg : Cfg) (m : Mode) (P : Prims) (data : Str) : Res TimeV :=
  if contains [':'] data then
    match P.timeFromIso data with
    | some t => .ok t
    | none => do                                           -- except ValueError
      let dt ← toDatetime cfg m P false ("1970-01-01 ".toList ++ data)
      pure ⟨dt.clock, none⟩                                -- .time() drops the tzinfo
  else .perr

/-- `to_timedelta(data: str)`, transform.py:561-601 -/
def toTimedelta (m : Mode) (P : Prims) (data : Str) : Res Int :=
  -- to_float(str) raises under no_explicit_cast and the code moves on to the patterns
  if !m.noExplicitCast && data.isEmpty then .ok 0           -- to_float("") is 0: timedelta(seconds=0)
  else if !m.noExplicitCast && P.floatParses data then .unmodelled "timedelta from a numeric string"
  else if P.reDuration0 data then .unmodelled "DURATION_REGS[0]"
  else match P.reDurationIso data with
    | some g =>
      let sign : Int := if g.sign == ['-'] then -1 else 1
      match P.tdOfGroups g with
      | some t => .ok (sign * t)
      | none => .perr
    | none =>
      if m.noExplicitCast then .perr                        -- ValueError("Invalid timedelta")
      else match P.timeFromIso data with
      | some t => .ok ((((t.clock.h * 60 + t.clock.mi) * 60 + t.clock.s) * 1000000 + t.clock.us : Nat) : Int)
      | none => .perr

/-- `int(d)` -/
def Dec.toInt? : Dec → Option Int
  | .fin neg c e =>
    let n : Nat := if e ≥ 0 then c * 10 ^ e.toNat else c / 10 ^ (-e).toNat
    some (if neg then -(n : Int) else n)
  | _ => none

/-- `to_integer(data: str)`, transform.py:401-435 (dict keys arrive as strings) -/
def toIntegerStr (m : Mode) (P : Prims) (s : Str) : Res Int :=
  if m.noExplicitCast then .perr                            -- a str is not (int, float, Decimal): TypeError
  else if s.isEmpty then .ok 0                              -- _attempt_from_number: `not data` → 0
  else if FALSE_VALUES.contains (lower s) then .ok 0
  else if TRUE_VALUES.contains (lower s) then .ok 1
  else match P.decOfStr s with
    | none => .perr
    | some d =>
      -- no_data_loss: finite and `not exponent`
      if m.noDataLoss && !(match d with | .fin _ _ e => e == 0 | _ => false) then .perr
      else match d.toInt? with
      | some i => .ok i
      | none => .perr

/-- `to_decimal`, transform.py:437-449 -/
def toDecimal (m : Mode) (P : Prims) : Js → Res Dec
  | .null => if m.noExplicitCast then .perr else .ok (.fin false 0 0)     -- `not data` → 0
  | .bool b => if m.noExplicitCast || b then .perr else .ok (.fin false 0 0)  -- Decimal('True') is invalid; False → 0
  | .int i => .ok (.fin (decide (i < 0)) i.natAbs 0)
  | .float f => if !m.noExplicitCast && f.isZero then .ok (.fin false 0 0) else .ok (P.decOfFloat f)
  | .str s =>
    if !m.noExplicitCast && s.isEmpty then .ok (.fin false 0 0)
    else match P.decOfStr (strip s) with
      | some d => .ok d
      | none => .perr
  | _ => .unmodelled "Decimal from a container"

def findIdx? {α : Type} (p : α → Bool) : List α → Option Nat
  | [] => none
  | x :: xs => if p x then some 0 else (findIdx? p xs).map (· + 1)

/-- `to_enum`, transform.py:649-668: member number for a JSON scalar -/
def toEnum (cfg : Cfg) (m : Mode) (decl : EnumDecl) (j : Js) : Res Nat :=
  let byValue (v : EVal) : Option Nat := findIdx? (fun m => m.2 == v) decl.members
  let byName (s : Str) : Option Nat := findIdx? (fun m => m.1 == s) decl.members
  let conv (v : EVal) : Res Nat :=
    -- `if type(data) != member_type: data = self(data, member_type)` then `t(data)`
    match decl.mixin, v with
    | .none, v => match byValue v with | some i => .ok i | none => .perr
    | .int, .int i => match byValue (.int i) with | some i => .ok i | none => .perr
    | .str, .str s => match byValue (.str s) with | some i => .ok i | none => .perr
    | _, _ => .unmodelled "enum mixin conversion"
  let strictly (v : EVal) : Res Nat := match byValue v with | some i => .ok i | none => .perr   -- `return t(data)`
  match j with
  | .int i => if m.noExplicitCast then strictly (.int i) else conv (.int i)
  | .str s =>
    if m.noExplicitCast then strictly (.str s)
    else if cfg.enumValueFirst then
      -- conversion by value first; a member *name* is only a lenient fallback for a str (transform.py:664-677)
      match conv (.str s) with
      | .ok i => .ok i
      | .perr => if m.noDataLoss then .perr else (match byName s with | some n => .ok n | none => .perr)
      | .unmodelled w => .unmodelled w
    else if m.noDataLoss then conv (.str s)
    else match byName s with                                 -- before the repair: `data in t.__members__` first
      | some n => .ok n
      | none => conv (.str s)
  | .arr _ =>
    -- `t([..])`: a list is no member value (a tuple value is not equal to it): ValueError; no name fallback for a non-str
    (match decl.mixin with | .none => .perr | _ => .unmodelled "enum mixin conversion")
  | _ => .unmodelled "enum from a non-scalar"

def Js.isContainer : Js → Bool
  | .arr _ => true
  | .obj _ => true
  | _ => false

def lookup {β : Type} (k : Str) : List (Str × β) → Option β
  | [] => none
  | (k', v) :: r => if k' == k then some v else lookup k r

/-- the scalar part of Python `==` between parsed values of one declared type; Decimals compare by value -/
def stripZeros : Nat → Nat → Int → Nat × Int
  | 0, c, e => (c, e)
  | fuel + 1, c, e => if c != 0 && c % 10 == 0 then stripZeros fuel (c / 10) (e + 1) else (c, e)

def Dec.canon : Dec → Dec
  | .fin neg c e => if c == 0 then .fin false 0 0 else let (c', e') := stripZeros c c e; .fin neg c' e'
  | d => d

mutual
/-- canonical representative of a value: structural equality up to the representation of a Decimal (finer than
Python's `==`, which also identifies aware datetimes of one instant and `0.0 == -0.0`) -/
def Val.canon : Val → Val
  | .dec d => .dec d.canon
  | .list xs => .list (canonList xs)
  | .set xs => .set (canonList xs)
  | .tuple xs => .tuple (canonList xs)
  | .dict kvs => .dict (canonKVs kvs)
  | .data fs => .data (canonFields fs)
  | v => v
def canonList : List Val → List Val
  | [] => []
  | x :: xs => x.canon :: canonList xs
def canonKVs : List (Key × Val) → List (Key × Val)
  | [] => []
  | (k, v) :: r => (k, v.canon) :: canonKVs r
def canonFields : List (Str × Val) → List (Str × Val)
  | [] => []
  | (k, v) :: r => (k, v.canon) :: canonFields r
end

mutual
def Val.beq : Val → Val → Bool
  | .none, .none => true
  | .bool a, .bool b => a == b
  | .int a, .int b => a == b
  | .float a, .float b => a == b && !a.isNan            -- NaN != NaN
  | .str a, .str b => a == b
  | .bytes a, .bytes b => a == b
  | .dec a, .dec b => a == b && !(a == .nan)
  | .date a, .date b => a == b
  | .datetime a, .datetime b => a == b
  | .time a, .time b => a == b
  | .delta a, .delta b => a == b
  | .uuid a, .uuid b => a == b
  | .enum d i, .enum d' i' => d == d' && i == i'
  | .list a, .list b => beqList a b
  | .set a, .set b => beqList a b
  | .tuple a, .tuple b => beqList a b
  | .dict a, .dict b => beqKVs a b
  | .data a, .data b => beqFields a b
  | _, _ => false
def beqList : List Val → List Val → Bool
  | [], [] => true
  | x :: xs, y :: ys => x.beq y && beqList xs ys
  | _, _ => false
def beqKVs : List (Key × Val) → List (Key × Val) → Bool
  | [], [] => true
  | (k, x) :: xs, (k', y) :: ys => k == k' && x.beq y && beqKVs xs ys
  | _, _ => false
def beqFields : List (Str × Val) → List (Str × Val) → Bool
  | [], [] => true
  | (k, x) :: xs, (k', y) :: ys => k == k' && x.beq y && beqFields xs ys
  | _, _ => false
end

/-- `set(values)`: the first of equal elements stays (hash/eq of the parsed values) -/
def dedupVals : List Val → List Val
  | [] => []
  | x :: xs => x :: (dedupVals xs).filter (fun y => !(y.canon.beq x.canon))

/-- `for item in value: result.append(transform(item))` with `invalid_items` = throw -/
def mapRes {α β : Type} (f : α → Res β) : List α → Res (List β)
  | [] => .ok []
  | x :: xs => do
    let v ← f x
    let vs ← mapRes f xs
    pure (v :: vs)

/-- `_parse_map_args`, rule.py:1977-2035: `result[key] = val` in input order (a later equal key
overwrites the value and keeps the earlier position) -/
def parseMapWith (fk : Str → Res Key) (fv : Js → Res Val) : List (Str × Js) → Res (List (Key × Val))
  | [] => .ok []
  | (s, j) :: kvs => do
    let key ← fk s
    let v ← fv j
    let rest ← parseMapWith fk fv kvs
    pure (match rest.find? (fun kv => kv.1 == key) with
      | some kv => (key, kv.2) :: rest.filter (fun kv => !(kv.1 == key))
      | none => (key, v) :: rest)

def parseKey (m : Mode) (P : Prims) : KeyTy → Str → Res Key
  | .str, s => .ok (.str s)
  | .int, s => do pure (.int (← toIntegerStr m P s))

/-- `to_null`, transform.py:195-204 -/
def toNull (m : Mode) : Js → Res Val
  | .null => .ok .none
  | .str s => if !m.noExplicitCast && NULL_VALUES.contains (lower s) then .ok .none else .perr
  | _ => .perr

/-- `try: … except: collect` of the union stages: the first conversion that succeeds wins -/
def orElse {α : Type} (a : Res α) (b : Unit → Res α) : Res α :=
  match a with
  | .ok v => .ok v
  | .perr => b ()
  | .unmodelled w => .unmodelled w

/-! ### which field takes which key (base.py:141-152, 291-347, 557-600) -/

/-- `field.all_aliases` after `ParserField.setup`: lower-cased for a case-insensitive field -/
def FieldMeta.aliases (f : FieldMeta) : List Str := if f.ci then f.keys.map lower else f.keys

/-- `parser.case_insensitive_names` -/
def ciNames (ms : List FieldMeta) : List Str := ms.flatMap fun f => if f.ci then f.keys.map lower else []

/-- field-first search: the key under which `field_first_parse` files a given key -/
def normKey (cin : List Str) (k : Str) : Str := if cin.contains (lower k) then lower k else k

/-- field-first search: does field `f` take the given key (`alias in data` for an alias of the field) -/
def acceptsFF (cin : List Str) (f : FieldMeta) (k : Str) : Bool := f.aliases.contains (normKey cin k)

/-- Python `str.islower` on ASCII: some cased character and no upper-case one -/
def isLower (s : Str) : Bool := s.any Char.isLower && !s.any Char.isUpper

/-- the key of `parser.fields`: the output name, lower-cased for a case-insensitive field (cls.py:205-217) -/
def FieldMeta.key (f : FieldMeta) : Str := if f.ci then lower f.name else f.name

/-- `field.aliases` after `setup`: the accepted keys other than the name, lower-cased for a case-insensitive field -/
def FieldMeta.al (f : FieldMeta) : List Str :=
  (f.keys.filter (fun k => !(k == f.name))).map (fun k => if f.ci then lower k else k)

/-- `fields[key]` / `field_alias_map[key]` without the case fall-back (base.py:141-145) -/
def getFieldExact (ms : List FieldMeta) (k : Str) : Option FieldMeta :=
  match ms.find? (fun f => f.key == k) with
  | some f => some f
  | none => ms.find? (fun f => (f.al.filter (fun a => !(a == f.key))).contains k)

/-- data-first search: `parser.get_field(key)` -/
def getField (ms : List FieldMeta) (k : Str) : Option FieldMeta :=
  match getFieldExact ms k with
  | some f => some f
  | none => if !isLower k && (ciNames ms).contains (lower k) then getFieldExact ms (lower k) else none

/-- does field `f` take the key `k` under the class's lookup strategy -/
def takes (ms : List FieldMeta) (dataFirst : Bool) (f : FieldMeta) (k : Str) : Bool :=
  if dataFirst then (getField ms k).map (·.name) == some f.name else acceptsFF (ciNames ms) f k

inductive Found where
  | absent
  | one (j : Js)
  | several                                 -- the field is given under more than one key (alias conflict rules: not modelled)

def findValue (p : Str → Bool) (kvs : List (Str × Js)) : Found :=
  match kvs.filter (fun kv => p kv.1) with
  | [] => .absent
  | [kv] => .one kv.2
  | _ => .several

/-- what the declaration must provide for a round trip: every output name is taken by its own field and by
no other (`f` and `g` range over the fields; output names identify fields) -/
def keysAccepted (ms : List FieldMeta) (dataFirst : Bool) : Bool :=
  ms.all fun f => ms.all fun g => takes ms dataFirst f g.name == (f.name == g.name)

def distinct {α : Type} [BEq α] : List α → Bool
  | [] => true
  | x :: xs => !(xs.contains x) && distinct xs

/-- `field_alias_map` is built without a clash (base.py:297-309) -/
def aliasMapOk (seen : List Str) : List FieldMeta → Bool
  | [] => true
  | f :: r =>
    let own := (f.al.filter (fun a => !(a == f.key))).eraseDups
    own.all (fun a => !seen.contains a) && aliasMapOk (own ++ seen) r

/-- the conditions under which utype accepts a declaration (otherwise `ConfigError` at class creation), stated on
the declaration alone: `all_aliases` starts with the output name (field.py:464-476); output names and `fields` keys
are distinct (cls.py:205-217); no alias is the key of a field (`apply_fields`, field.py:701-706); aliases do not
clash (`generate_aliases`, base.py:297-309); a case-sensitive field does not meet a case-insensitive name in any
letter case (base.py:316-332) -/
def declChecked (ms : List FieldMeta) : Bool :=
  ms.all (fun f => f.keys.contains f.name)
  && distinct (ms.map (·.name))
  && distinct (ms.map FieldMeta.key)
  && ms.all (fun f => f.al.all fun a => !(ms.map FieldMeta.key).contains a)
  && aliasMapOk [] ms
  && ((ciNames ms).isEmpty || ms.all fun f => f.ci || (f.al.map lower ++ [lower f.key]).all fun a => !(ciNames ms).contains a)

def intOf : Val → Option Int
  | .int i => some i
  | _ => none

def strOf : Val → Option Str
  | .str s => some s
  | _ => none

def sumInts (items : List (Str × Val)) : List Str → Option Int
  | [] => some 0
  | d :: ds => match (lookup d items).bind intOf, sumInts items ds with
    | some a, some b => some (a + b)
    | _, _ => none

def concatStrs (items : List (Str × Val)) : List Str → Option Str
  | [] => some []
  | d :: ds => match (lookup d items).bind strOf, concatStrs items ds with
    | some a, some b => some (a ++ b)
    | _, _ => none

/-- the value of an output property on an instance with the given items; `none` when a dependency is missing -/
def evalProp (items : List (Str × Val)) : PropExpr → Option Val
  | .sumInt deps => (sumInts items deps).map Val.int
  | .concat deps => (concatStrs items deps).map Val.str

/-- a context that enters a data class is one level deeper (options.py:352-355); beyond `max_depth` it raises -/
def tooDeep (o : ClassOpts) (d : Nat) : Bool :=
  match o.maxDepth with
  | some n => n != 0 && decide (d > n)
  | none => false

mutual
/-- `transformer(value, T)` for a declared field type `T` on a JSON value, under the preferences `m`:
exact-type shortcut (transform.py:713-715), registry dispatch, `Rule.parse` for generics (rule.py:1682-1749),
`logical_parse` for `Optional[T]` (rule.py:375-420) -/
def parse (cfg : Cfg) (P : Prims) (m : Mode) (d : Nat) : Ty → Js → Res Val
  | .none, j => toNull m j
  | .bool, j => match j with
    | .bool b => .ok (.bool b)
    | _ => .unmodelled "bool from a non-bool"
  | .int, j => match j with
    | .int i => .ok (.int i)
    | .bool b => .ok (.int (if b then 1 else 0))            -- to_integer: isinstance(data, int)
    | _ => .unmodelled "int from a non-int"
  | .float, j => match j with
    | .float f => .ok (.float f)
    | _ => .unmodelled "float from a non-float"
  | .str, j => match j with
    | .str s => .ok (.str s)
    | _ => .unmodelled "str from a non-str"
  | .bytes, j => match j with
    | .str s => .ok (.bytes (P.utf8Encode s))               -- to_bytes: data.encode()
    | _ => .unmodelled "bytes from a non-str"
  | .dec, j => do pure (.dec (← toDecimal m P j))
  | .date, j => match j with
    | .str s => do pure (.date (← toDate cfg m P s))
    | .null => .perr
    | _ => .unmodelled "date from a number/container"
  | .datetime, j => match j with
    | .str s => do pure (.datetime (← toDatetime cfg m P false s))
    | .null => .perr
    | _ => .unmodelled "datetime from a number/container"
  | .time, j => match j with
    | .str s => do pure (.time (← toTime cfg m P s))
    | _ => .unmodelled "time from a non-str"
  | .delta, j => match j with
    | .str s => do pure (.delta (← toTimedelta m P s))
    | _ => .unmodelled "timedelta from a non-str"
  | .uuid, j => match j with
    | .str s => match P.uuidOfStr s with                    -- to_uuid: t(data)
      | some n => .ok (.uuid n)
      | none => .perr
    | _ => .unmodelled "UUID from a non-str"
  | .enum decl, j => do pure (.enum decl (← toEnum cfg m decl j))
  | .list t, j => match j with
    | .arr xs => do pure (.list (← mapRes (parse cfg P m d t) xs))   -- to_array_types: isinstance(data, list)
    | _ => .unmodelled "list from a non-array"
  | .set t, j => match j with
    | .arr xs =>
      -- to_array_types: set(data) on the raw JSON values — unhashable list/dict items raise TypeError
      if xs.any Js.isContainer then .perr
      else do pure (.set (dedupVals (← mapRes (parse cfg P m d t) xs)))   -- origin(value) after the element parse
    | _ => .unmodelled "set from a non-array"
  | .tupleVar t, j => match j with
    | .arr xs => do pure (.tuple (← mapRes (parse cfg P m d t) xs))
    | _ => .unmodelled "tuple from a non-array"
  | .tuple ts, j => match j with
    | .arr xs => do pure (.tuple (← parseTuple cfg P m d ts xs))
    | _ => .unmodelled "tuple from a non-array"
  | .dict k t, j => match j with
    | .obj kvs => do pure (.dict (← parseMapWith (parseKey m P k) (parse cfg P m d t) kvs))
    | _ => .unmodelled "dict from a non-object"
  | .data fs o, j => match j with
    -- transform_dataclass → init_dataclass: a new context one level deeper, under the class's own (default)
    -- options; parse_data, then the output properties
    | .obj kvs =>
      if tooDeep o (d + 1) then .perr                        -- DepthExceedError
      else do
        let items ← parseFields cfg P (d + 1) (fs.map (·.1)) o.dataFirst [] fs kvs
        pure (.data items)
    | _ => .unmodelled "data class from a non-object"
  | .cut, _ => .unmodelled "deeper than the unrolled declaration"
  | .optional t, j => match j with
    | .null => .ok .none                                    -- stage 1: type(value) == NoneType
    | _ =>
      -- per stage, the arguments of Union[T, None] in order; a stage runs only when it is stricter than the
      -- current preferences, the last one under the current preferences
      match m with
      | .strict => orElse (parse cfg P .strict d t j) fun _ => toNull .strict j
      | .noloss => orElse (parse cfg P .strict d t j) fun _ => orElse (toNull .strict j) fun _ =>
          orElse (parse cfg P .noloss d t j) fun _ => toNull .noloss j
      | .lenient => orElse (parse cfg P .strict d t j) fun _ => orElse (toNull .strict j) fun _ =>
          orElse (parse cfg P .noloss d t j) fun _ => orElse (toNull .noloss j) fun _ =>
          orElse (parse cfg P .lenient d t j) fun _ => toNull .lenient j
/-- `_parse_tuple_args`, rule.py:1892-1946: missing prefix items are an error; extra items are dropped
(`addition` is None by default), an error under `no_data_loss` -/
def parseTuple (cfg : Cfg) (P : Prims) (m : Mode) (d : Nat) : List Ty → List Js → Res (List Val)
  | [], js => if m.noDataLoss && !js.isEmpty then .perr else .ok []
  | _ :: _, [] => .perr
  | t :: ts, j :: js => do
    let v ← parse cfg P m d t j
    let vs ← parseTuple cfg P m d ts js
    pure (v :: vs)
/-- `parse_data` (base.py:367-403, both lookup strategies) field by field: the value the field takes from the
input, then absence / default / no_input / no_output handling; an output property is computed from the fields
before it (`acc`, latest first) — its dependencies must be declared before it -/
def parseFields (cfg : Cfg) (P : Prims) (d : Nat) (ms : List FieldMeta) (dataFirst : Bool) :
    List (Str × Val) → List (FieldMeta × Ty) → List (Str × Js) → Res (List (Str × Val))
  | _, [], _ => .ok []
  | acc, (f, t) :: fs, kvs =>
    match f.kind with
    | .prop e =>
      -- the input is ignored
      match evalProp acc e with
      | some v => do
        let rest ← parseFields cfg P d ms dataFirst ((f.name, v) :: acc) fs kvs
        pure ((f.name, v) :: rest)
      | none => .unmodelled "a property whose dependencies are not declared before it"
    | .noInput dflt => do
      let rest ← parseFields cfg P d ms dataFirst ((f.name, dflt.toVal) :: acc) fs kvs
      pure ((f.name, dflt.toVal) :: rest)
    | .noOutput =>
      match findValue (takes ms dataFirst f) kvs with
      | .several => .unmodelled "a field given under several keys"
      | .absent => parseFields cfg P d ms dataFirst acc fs kvs
      | .one j => do
        let _ ← parse cfg P .lenient d t j                    -- parsed, kept as an attribute only
        parseFields cfg P d ms dataFirst acc fs kvs
    | .input req dflt =>
      match findValue (takes ms dataFirst f) kvs with
      | .several => .unmodelled "a field given under several keys"
      | .absent =>
        if req then .perr                                    -- AbsenceError
        else match dflt with
          | some v => do
            let rest ← parseFields cfg P d ms dataFirst ((f.name, v.toVal) :: acc) fs kvs
            pure ((f.name, v.toVal) :: rest)
          | none => parseFields cfg P d ms dataFirst acc fs kvs
      | .one j => do
        let v ← parse cfg P .lenient d t j
        let rest ← parseFields cfg P d ms dataFirst ((f.name, v) :: acc) fs kvs
        pure ((f.name, v) :: rest)
end

/-- `Cls.__from__(text)`: `to_dict` → `json.loads` (transform.py:347-349), then init -/
def parseText (cfg : Cfg) (P : Prims) (fs : List (FieldMeta × Ty)) (o : ClassOpts) (text : Str) : Res Val :=
  match P.jsonLoads text with
  | some j => parse cfg P .lenient 0 (.data fs o) j
  | none => .unmodelled "text that is not JSON"

/-! ### the stated domain -/

def isLeap (y : Nat) : Bool := y % 4 == 0 && (y % 100 != 0 || y % 400 == 0)

/-- days of month `m` of year `y` (proleptic Gregorian calendar, as `datetime.date`) -/
def daysIn (y m : Nat) : Nat :=
  if m == 2 then (if isLeap y then 29 else 28)
  else if m == 4 || m == 6 || m == 9 || m == 11 then 30 else 31

def Date.valid (d : Date) : Bool := 1 ≤ d.y && d.y ≤ 9999 && 1 ≤ d.m && d.m ≤ 12 && 1 ≤ d.d && d.d ≤ daysIn d.y d.m
def Clock.valid (c : Clock) : Bool := c.h < 24 && c.mi < 60 && c.s < 60 && c.us < 1000000
def tzValid : Option Int → Bool
  | none => true
  | some o => o.natAbs < 86400000000
def DateTime.valid (dt : DateTime) : Bool := dt.date.valid && dt.clock.valid && tzValid dt.tz
def TimeV.valid (t : TimeV) : Bool := t.clock.valid && tzValid t.tz

/-- CPython's `time.fromisoformat` reads an offset of less than one second (`+00:00:00.ffffff`) as UTC
(interpreter defect, not utype's): such offsets are outside the domain of `time` values -/
def tzWholeOrBig : Option Int → Bool
  | none => true
  | some o => o == 0 || o.natAbs ≥ 1000000

def maxDelta : Nat := 86400000000 * 1000000000     -- |timedelta| < 10^9 days

/-- "UTF-8 bytes" -/
def validUtf8 (b : List UInt8) : Bool := (ByteArray.mk b.toArray).validateUTF8

/-- the exponents CPython's `decimal` can hold (|adjusted exponent| ≤ 999999999999999999), with room for the digits -/
def Dec.expOk : Dec → Bool
  | .fin _ _ e => decide (e.natAbs < 10 ^ 17)
  | _ => true

/-- "Decimal up to 15 significant digits"; before the `decTiny` repair: not below the normal float range -/
def Dec.inDomain (cfg : Cfg) : Dec → Bool
  | .fin _ c e => c < 10 ^ 15 && decide (e.natAbs < 10 ^ 17) && (cfg.decTiny || !(decTiny c e))
  | .inf _ => true
  | .nan => false

/-- member `i`'s value is the name of another member (`KnownDefect` before the `enumValueFirst` repair) -/
def EnumDecl.shadow (decl : EnumDecl) (i : Nat) : Bool :=
  match decl.members[i]? with
  | some (_, .str s) =>
    match findIdx? (fun m => m.1 == s) decl.members with
    | some n => n != i
    | none => false
  | _ => false

def EnumDecl.wf (decl : EnumDecl) : Bool :=
  -- distinct values (aliases are one member), distinct names, values of the mixin's type
  distinct (decl.members.map (·.2)) && distinct (decl.members.map (·.1)) &&
  decl.members.all (fun m => match decl.mixin, m.2 with
    | .none, .tuple _ => false                -- `KnownDefect` `EnumDecl.nonJsonValue`
    | .none, _ => true | .int, .int i => decide (i.natAbs < 10 ^ 4300) | .str, .str _ => true | _, _ => false)

/-- `KnownDefect`: a member whose value JSON cannot carry in its own type (a tuple is written as an array and
`E([1, 2])` is not `E((1, 2))`) -/
def EnumDecl.nonJsonValue (decl : EnumDecl) : Bool :=
  decl.members.any (fun m => match m.2 with | .tuple _ => true | _ => false)

def Key.hasTy : KeyTy → Key → Bool
  | .str, .str _ => true
  | .int, .int _ => true
  | _, _ => false

def distinctCanon : List Val → Bool
  | [] => true
  | x :: xs => xs.all (fun y => !(y.canon.beq x.canon)) && distinctCanon xs

mutual
/-- `x` is an instance of the declared type `T` with all values in the property's domain -/
def inDomain (cfg : Cfg) (d : Nat) : Ty → Val → Bool
  | .none, v => match v with | .none => true | _ => false
  | .bool, v => match v with | .bool _ => true | _ => false
  | .int, v => match v with | .int i => decide (i.natAbs < 10 ^ 4300) | _ => false     -- CPython's int/str digit limit
  | .float, v => match v with | .float f => !f.isNan | _ => false
  | .str, v => match v with | .str _ => true | _ => false
  | .bytes, v => match v with | .bytes b => validUtf8 b | _ => false
  | .dec, v => match v with | .dec d => d.inDomain cfg | _ => false
  | .date, v => match v with | .date d => d.valid | _ => false
  | .datetime, v => match v with
    | .datetime dt => dt.valid && (cfg.negOffset || match dt.tz with | some o => decide (o ≥ 0) | none => true)
    | _ => false
  | .time, v => match v with
    | .time t => t.valid && tzWholeOrBig t.tz && t.clock.us % 1000 == 0 && (cfg.timeTz || t.tz.isNone || t.clock.us == 0)
    | _ => false
  | .delta, v => match v with | .delta us => decide (us.natAbs < maxDelta) | _ => false
  | .uuid, v => match v with | .uuid n => decide (n < 2 ^ 128) | _ => false
  | .enum decl, v => match v with
    | .enum decl' i => decl == decl' && decl.wf && decide (i < decl.members.length)
        && (cfg.enumValueFirst || !decl.shadow i)
    | _ => false
  | .list t, v => match v with | .list xs => xs.all (inDomain cfg d t) | _ => false
  | .set t, v => match v with | .set xs => xs.all (inDomain cfg d t) && distinctCanon xs | _ => false
  | .tupleVar t, v => match v with | .tuple xs => xs.all (inDomain cfg d t) | _ => false
  | .tuple ts, v => match v with | .tuple xs => inDomainTuple cfg d ts xs | _ => false
  | .dict k t, v => match v with
    | .dict kvs => kvs.all (fun kv => kv.1.hasTy k && inDomain cfg d t kv.2) && distinct (kvs.map (·.1))
    | _ => false
  | .data fs o, v => match v with
    -- within the depth limit; a declaration utype accepts; every field as its kind requires
    | .data vs => !tooDeep o (d + 1) && declChecked (fs.map (·.1)) && distinct (fs.map (·.1.name))
        && inDomainFields cfg (d + 1) [] fs vs
    | _ => false
  | .cut, _ => false
  | .optional t, v =>
    -- Optional[T] for a `T` that is not itself nullable
    (match t with | .none | .optional _ => false | _ => true)
      && ((match v with | .none => true | _ => false) || inDomain cfg d t v)
def inDomainTuple (cfg : Cfg) (d : Nat) : List Ty → List Val → Bool
  | [], xs => xs.isEmpty
  | t :: ts, xs => match xs with
    | x :: xs => inDomain cfg d t x && inDomainTuple cfg d ts xs
    | [] => false
/-- the items of an instance against the declared fields, in field order (`acc`: the items so far, latest first) -/
def inDomainFields (cfg : Cfg) (d : Nat) : List (Str × Val) → List (FieldMeta × Ty) → List (Str × Val) → Bool
  | _, [], vs => vs.isEmpty
  | acc, (f, t) :: fs, vs =>
    match f.kind with
    | .noOutput => inDomainFields cfg d acc fs vs
    | .noInput dflt => match vs with
      | (n, x) :: vs' => n == f.name && x.beq dflt.toVal && inDomainFields cfg d ((n, x) :: acc) fs vs'
      | [] => false
    | .prop e => match vs with
      -- the stored value is what the property computes from the current values of its dependencies
      | (n, x) :: vs' => n == f.name && (match evalProp acc e with | some v => x.beq v | none => false)
          && inDomainFields cfg d ((n, x) :: acc) fs vs'
      | [] => false
    | .input req dflt => match vs with
      | (n, x) :: vs' =>
        if n == f.name then inDomain cfg d t x && inDomainFields cfg d ((n, x) :: acc) fs vs'
        else !req && dflt.isNone && inDomainFields cfg d acc fs vs      -- an optional field that was not given
      | [] => !req && dflt.isNone && inDomainFields cfg d acc fs []
end

/-- values of this type are written as a JSON array / object -/
def Ty.arrivesAsContainer : Ty → Bool
  | .list _ | .set _ | .tuple _ | .tupleVar _ | .dict _ _ | .data _ _ => true
  | .optional t => t.arrivesAsContainer
  | _ => false

mutual
/-- `KnownDefect`: a set whose elements are written as JSON arrays/objects (`Set[Tuple[...]]`):
`set(data)` is applied to the raw JSON lists first (transform.py:260-261) and raises "unhashable" -/
def Ty.setOfContainers : Ty → Bool
  | .set t => t.arrivesAsContainer || t.setOfContainers
  | .list t => t.setOfContainers
  | .tupleVar t => t.setOfContainers
  | .tuple ts => setOfContainersList ts
  | .dict _ t => t.setOfContainers
  | .data fs _ => setOfContainersFields fs
  | .optional t => t.setOfContainers
  | _ => false
def setOfContainersList : List Ty → Bool
  | [] => false
  | t :: ts => t.setOfContainers || setOfContainersList ts
def setOfContainersFields : List (FieldMeta × Ty) → Bool
  | [] => false
  | (_, t) :: fs => t.setOfContainers || setOfContainersFields fs
end

mutual
/-- `KnownDefect`: the value contains an infinite float (`json.dumps` writes `Infinity`) -/
def Val.hasInf : Val → Bool
  | .float f => !f.isFinite && !f.isNan
  | .list xs => hasInfList xs
  | .set xs => hasInfList xs
  | .tuple xs => hasInfList xs
  | .dict kvs => hasInfKVs kvs
  | .data fs => hasInfFields fs
  | _ => false
def hasInfList : List Val → Bool
  | [] => false
  | x :: xs => x.hasInf || hasInfList xs
def hasInfKVs : List (Key × Val) → Bool
  | [] => false
  | (_, x) :: r => x.hasInf || hasInfKVs r
def hasInfFields : List (Str × Val) → Bool
  | [] => false
  | (_, x) :: r => x.hasInf || hasInfFields r
end

mutual
/-- the tree is standard JSON when written out: every number is finite (RFC 8259 has no NaN / Infinity) -/
def Js.standard : Js → Bool
  | .float f => f.isFinite
  | .arr xs => standardList xs
  | .obj kvs => standardKVs kvs
  | _ => true
def standardList : List Js → Bool
  | [] => true
  | x :: xs => x.standard && standardList xs
def standardKVs : List (Str × Js) → Bool
  | [] => true
  | (_, x) :: r => x.standard && standardKVs r
end


/-! ### laws of the builtins (hypotheses of the theorems; audited against CPython on every run;
satisfied by the concrete instance `P0`, Lemmas/C14P0.lean) -/

/-- the `strptime` format that reads `datetime.isoformat()` back (without the offset) -/
def isoFmt (c : Clock) : Str :=
  if c.us != 0 then "%Y-%m-%dT%H:%M:%S.%f".toList else "%Y-%m-%dT%H:%M:%S".toList

def allFormats : List Str := DATETIME_FORMATS ++ DATE_FORMATS

mutual
/-- object keys are pairwise distinct (what `json.loads` can return) -/
def Js.wf : Js → Bool
  | .arr xs => wfList xs
  | .obj kvs => wfKVs kvs && distinct (kvs.map (·.1))
  | _ => true
def wfList : List Js → Bool
  | [] => true
  | x :: xs => x.wf && wfList xs
def wfKVs : List (Str × Js) → Bool
  | [] => true
  | (_, x) :: r => x.wf && wfKVs r
end

structure PrimLaws (P : Prims) : Prop where
  /-- `strptime(d.isoformat(), "%Y-%m-%d")` is `d` at midnight -/
  date_fmt : ∀ d : Date, d.valid = true →
    P.strptime (isoDate d) "%Y-%m-%d".toList = some ⟨d, midnight, none⟩
  /-- a naive `isoformat()` is read by its own format … -/
  naive_fmt : ∀ dt : DateTime, dt.valid = true → dt.tz = none →
    P.strptime (isoDateTime dt) (isoFmt dt.clock) = some dt
  /-- … and by no other format of the two tables -/
  naive_other : ∀ dt : DateTime, dt.valid = true → dt.tz = none →
    ∀ f, f ∈ allFormats → f ≠ isoFmt dt.clock → P.strptime (isoDateTime dt) f = none
  /-- an aware `isoformat()` is read by no format without `%z` … -/
  aware_plain : ∀ dt : DateTime, dt.valid = true → dt.tz.isSome = true →
    ∀ f, f ∈ allFormats → P.strptime (isoDateTime dt) f = none
  /-- … by its own format followed by `%z`, for either sign of the offset … -/
  aware_fmt : ∀ dt : DateTime, dt.valid = true → dt.tz.isSome = true →
    P.strptime (isoDateTime dt) (isoFmt dt.clock ++ "%z".toList) = some dt
  /-- … and by no other format followed by `%z` -/
  aware_other : ∀ dt : DateTime, dt.valid = true → dt.tz.isSome = true →
    ∀ f, f ∈ allFormats → f ≠ isoFmt dt.clock → P.strptime (isoDateTime dt) (f ++ "%z".toList) = none
  /-- `time.fromisoformat` reads what `from_time` writes (millisecond precision) -/
  time_iso : ∀ t : TimeV, t.valid = true → tzWholeOrBig t.tz = true → t.clock.us % 1000 = 0 →
    P.timeFromIso (fromTime Cfg.fixed t) = some t
  /-- an ISO-8601 duration is not a float literal and is not matched by the "days, h:m:s" pattern -/
  dur_float : ∀ us : Int, P.floatParses (durationIso us) = false
  dur_re0 : ∀ us : Int, P.reDuration0 (durationIso us) = false
  /-- the ISO pattern matches the encoder's output; its sign group is "-" exactly for negative durations;
  `timedelta(**{k: float(v)})` over the groups is the absolute duration -/
  dur_iso : ∀ us : Int, us.natAbs < maxDelta →
    ∃ g, P.reDurationIso (durationIso us) = some g ∧ (g.sign == ['-']) = decide (us < 0)
      ∧ P.tdOfGroups g = some (us.natAbs : Int)
  /-- `Decimal(str(float(d))) == d` for up to 15 significant digits inside the normal float range -/
  dec_float : ∀ (neg : Bool) (c : Nat) (e : Int), c < 10 ^ 15 → jsUnsafe c e = false → decTiny c e = false →
    (P.floatOfDec (.fin neg c e)).isFinite = true
    ∧ (P.floatOfDec (.fin neg c e)).isZero = (c == 0)
    ∧ (P.decOfFloat (P.floatOfDec (.fin neg c e))).canon = (Dec.fin neg c e).canon
  /-- `Decimal(str(d))` is `d`; `str(d)` is non-empty and has no surrounding whitespace -/
  dec_str : ∀ d : Dec, d.expOk = true → P.decOfStr (P.decStr d) = some d
  dec_str_clean : ∀ d : Dec, strip (P.decStr d) = P.decStr d ∧ P.decStr d ≠ []
  /-- `Decimal(str(i))` for an int -/
  dec_int : ∀ i : Int, P.decOfStr (intStr i) = some (.fin (decide (i < 0)) i.natAbs 0)
  uuid_rt : ∀ n : Nat, n < 2 ^ 128 → P.uuidOfStr (P.uuidStr n) = some n
  utf8_rt : ∀ b : List UInt8, validUtf8 b = true → P.utf8Encode (P.utf8Decode b) = b
  json_rt : ∀ j : Js, j.wf = true → P.jsonLoads (P.jsonDumps j) = some j

end Utv.C14
