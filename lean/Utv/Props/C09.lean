import Utv.Model.C09
import Utv.Lemmas.C09
/-!
C09 — logical type combinators mean what they say.

Part A: laws of `logical_parse` for EVERY list of argument parsers, every option set and every input
(no bound on the number of arguments; arguments may themselves be combinators).
Part B: the algebra of construction (`combine`, `combine_by`, the operators of `LogicalType` and `LogicalMeta`).

The `^` branch of the pinned tree violated the property (value threading, exact-type shortcut); it was
repaired (fixes/C09-xor-exactly-one.patch), the model mirrors the repaired code and the full statements
`C09_xor_exactly_one` / `C09_xor_perm` hold.  The pre-fix branch is kept as `logicalXorLegacy` and the two
negation witnesses are proved of it by `decide`.
-/
namespace Utv.C09

variable {V : Type}

/-! ### vocabulary of the property (independent of the code) -/

/-- "argument `a` accepts `v`" under options `o` — the argument measured in isolation (fresh context) -/
def Arg.accepts (a : Arg V) (o : Opts) (v : V) : Bool := (a.out o v).isOk

/-- the outputs of the accepting arguments, in argument order -/
def oks (as : List (Arg V)) (o : Opts) (v : V) : List V := as.filterMap fun a => (a.out o v).toOption

/-- C12's subset law for the arguments: the option sets of the union stages only restrict -/
def Mono (as : List (Arg V)) (o : Opts) : Prop :=
  ∀ a ∈ as, ∀ s ∈ stages o, ∀ v, (a.out s v).isOk = true → (a.out o v).isOk = true

/-- transform.py:706-708: a value of exactly the argument's type is returned as it is -/
def ExactLaw (as : List (Arg V)) : Prop := ∀ a ∈ as, ∀ o v, a.exact v = true → a.out o v = .ok v

/-- a context without recorded errors: what a top-level call `T(value)` starts from -/
def Ctx.clean (c : Ctx) : Prop := c.errors = [] ∧ c.tmp = []

/-- an argument that returns normally leaves a clean context clean (needed only for `&`, whose conditions share
its context; proved for every node of every tree below: `C09_tree_clean_on_ok`) -/
def CleanOnOk (as : List (Arg V)) : Prop :=
  ∀ a ∈ as, ∀ o v c' r, a.run o {} v = (c', .ok r) → c' = {}

/-- specification of a union: the input itself for an exact type, otherwise the output of the first
accepting argument of the first stage in which some argument accepts -/
def unionSpec (as : List (Arg V)) (o : Opts) (v : V) : Option V :=
  if as.any (fun a => a.exact v) then some v
  else (stages o).findSome? fun s => as.findSome? fun a => (a.out s v).toOption

/-- specification of exclusive-or: the output of the one and only accepting argument -/
def xorSpec (as : List (Arg V)) (o : Opts) (v : V) : Option V :=
  match oks as o v with
  | [r] => some r
  | _ => none

/-- specification of conjunction: the arguments (each as measured in isolation) applied in order to the running value -/
def allSpec (as : List (Arg V)) (o : Opts) (v : V) : Except Err V := as.foldlM (fun w a => a.out o w) v

/-! ### helper lemmas -/

theorem isOk_iff_toOption {ε α : Type} (x : Except ε α) : x.isOk = true ↔ ∃ r, x.toOption = some r := by
  cases x <;> simp [Except.isOk, Except.toBool, Except.toOption]

theorem toOption_ok {ε α : Type} (x : Except ε α) (r : α) : x.toOption = some r ↔ x = .ok r := by
  cases x <;> simp [Except.toOption]

theorem clean_iff (c : Ctx) : c.clean ↔ c = {} := by
  cases c; simp [Ctx.clean]

theorem raiseError_empty (v : V) : raiseError ({} : Ctx) v = ({}, .ok v) := rfl

theorem raiseError_errors (c : Ctx) (v : V) (h : c.errors ≠ []) :
    raiseError c v = (c, .error (.collected (c.errors ++ c.tmp))) := by
  unfold raiseError
  cases he : c.errors with
  | nil => exact absurd he h
  | cons x xs => simp

theorem raiseError_tmp (c : Ctx) (v : V) (h : c.tmp ≠ []) :
    raiseError c v = (c, .error (.collected (c.errors ++ c.tmp))) := by
  unfold raiseError
  cases he : c.tmp with
  | nil => exact absurd he h
  | cons x xs => simp

/-- `raise_error(); return value` returns only from a clean context, and returns it clean -/
theorem raiseError_ok (c c' : Ctx) (v r : V) (h : raiseError c v = (c', .ok r)) : c = {} ∧ c' = {} ∧ r = v := by
  unfold raiseError at h
  obtain ⟨es, ts⟩ := c
  cases es <;> cases ts <;> simp at h
  obtain ⟨h1, h2⟩ := h
  exact ⟨rfl, h1.symm, h2.symm⟩

/-- whatever `handle_error` does, the error stays recorded -/
theorem handleError_fst (o : Opts) (c : Ctx) (e : Err) : (handleError o c e).1 = c.push e := by
  unfold handleError
  split
  · rfl
  · split
    · split <;> rfl
    · rfl

theorem push_errors (c : Ctx) (e : Err) : (c.push e).errors ≠ [] := by simp [Ctx.push]

theorem handleError_errors (o : Opts) (c : Ctx) (e : Err) : (handleError o c e).1.errors ≠ [] := by
  rw [handleError_fst]; exact push_errors c e

/-- after `handle_error`, logical_parse cannot return normally -/
theorem handle_then_raise (o : Opts) (c : Ctx) (e : Err) (v : V) :
    ∃ c' e', afterHandle (handleError o c e) v = (c', .error e') := by
  have h := handleError_errors o c e
  generalize handleError o c e = p at h
  obtain ⟨c', r⟩ := p
  cases r with
  | some e' => exact ⟨c', e', rfl⟩
  | none => exact ⟨_, _, raiseError_errors c' v h⟩

/-! ### conjunction (its conditions run on its own context) -/

theorem allLoop_spec (o : Opts) (as : List (Arg V)) (v : V) (hc : CleanOnOk as) :
    (∃ r, allSpec as o v = .ok r ∧ allLoop o as {} v = ({}, r, none)) ∨
    (∃ e w c', allSpec as o v = .error e ∧ allLoop o as {} v = (c', w, some e)) := by
  induction as generalizing v with
  | nil => exact Or.inl ⟨v, rfl, rfl⟩
  | cons a as ih =>
    have hc' : CleanOnOk as := fun x hx => hc x (List.mem_cons_of_mem _ hx)
    unfold allSpec
    simp only [List.foldlM_cons, allLoop]
    cases h : a.run o {} v with
    | mk c' res =>
      have hout : a.out o v = res := by unfold Arg.out; rw [h]
      cases res with
      | error e => rw [hout]; exact Or.inr ⟨e, v, c', rfl, rfl⟩
      | ok w =>
        have : c' = {} := hc a List.mem_cons_self o v c' w h
        subst this
        rw [hout]
        exact ih w hc'

/-- Conjunction applies its arguments in order to the running value: called with a clean context it returns exactly
what the fold of the arguments (each measured in isolation) returns, and fails exactly when the fold fails — all
options, incl. collecting errors.  The conditions share the conjunction's context; `CleanOnOk` is what makes that
unobservable (it holds for every tree: `C09_tree_clean_on_ok`). -/
theorem C09_all_fold (as : List (Arg V)) (o : Opts) (v : V) (hc : CleanOnOk as) :
    (logicalAll as o {} v).2.toOption = (allSpec as o v).toOption := by
  unfold logicalAll
  rcases allLoop_spec o as v hc with ⟨r, hs, hl⟩ | ⟨e, w, c', hs, hl⟩
  · rw [hl, hs]; rfl
  · rw [hl, hs]
    obtain ⟨c2, e', he'⟩ := handle_then_raise o c' e.wrapParse w
    simp only [he']; rfl

/-- without error collection even the exception is the one the failing argument raised — as it is when it is a
`ParseError`, wrapped into a `ParseError` otherwise -/
theorem C09_all_fold_exact (as : List (Arg V)) (o : Opts) (v : V) (hc : CleanOnOk as) (h : o.collectErrors = false) :
    (logicalAll as o {} v).2 = (allSpec as o v).mapError Err.wrapParse := by
  unfold logicalAll
  rcases allLoop_spec o as v hc with ⟨r, hs, hl⟩ | ⟨e, w, c', hs, hl⟩
  · rw [hl, hs]; rfl
  · rw [hl, hs]; simp [handleError, h, afterHandle, Except.mapError]

/-- (about the model's class-id convention `Err.nonParseBase`, which the harness derives from `isinstance(e,
ParseError)` on the real exception; not a statement about Python by itself) in the model, the exception that leaves
a fail-fast conjunction carries a ParseError id -/
theorem C09_all_error_id_is_parse_error_by_convention (as : List (Arg V)) (o : Opts) (v : V) (e : Err)
    (hc : CleanOnOk as) (h : o.collectErrors = false) (he : (logicalAll as o {} v).2 = .error e) :
    e.isParseError = true := by
  rw [C09_all_fold_exact as o v hc h] at he
  cases hs : allSpec as o v with
  | ok r => rw [hs] at he; cases he
  | error e0 =>
    rw [hs] at he
    simp only [Except.mapError, Except.error.injEq] at he
    subst he
    unfold Err.wrapParse
    split
    · assumption
    · decide

/-- whatever the incoming context, a conjunction that returns normally returns a clean context -/
theorem all_clean_on_ok (as : List (Arg V)) (o : Opts) (c c' : Ctx) (v r : V)
    (h : logicalAll as o c v = (c', .ok r)) : c' = {} := by
  unfold logicalAll at h
  generalize allLoop o as c v = p at h
  obtain ⟨c1, v1, e1⟩ := p
  cases e1 with
  | none => exact (raiseError_ok c1 c' v1 r h).2.1
  | some e =>
    obtain ⟨c2, e', he'⟩ := handle_then_raise o c1 e.wrapParse v1
    simp only [he'] at h; cases h

/-! ### union (each condition runs in a context of its own) — laws for EVERY incoming context -/

theorem tryArgs_spec (s : Opts) (v : V) (as : List (Arg V)) (tmp : List Err) :
    (∃ r, (as.findSome? fun a => (a.out s v).toOption) = some r ∧ tryArgs s v as tmp = (some r, [])) ∨
    ((as.findSome? fun a => (a.out s v).toOption) = none ∧
      ∃ t, tryArgs s v as tmp = (none, t) ∧ t.length = tmp.length + as.length) := by
  induction as generalizing tmp with
  | nil => exact Or.inr ⟨rfl, tmp, rfl, by simp⟩
  | cons a as ih =>
    simp only [List.findSome?_cons, tryArgs]
    cases h : a.out s v with
    | ok r => exact Or.inl ⟨r, rfl, rfl⟩
    | error e =>
      simp only [Except.toOption]
      rcases ih (tmp ++ [e]) with ⟨r, h1, h2⟩ | ⟨h1, t, h2, h3⟩
      · exact Or.inl ⟨r, h1, h2⟩
      · exact Or.inr ⟨h1, t, h2, by simp at h3 ⊢; omega⟩

theorem unionStages_spec (as : List (Arg V)) (v : V) (ss : List Opts) (tmp : List Err) :
    (∃ r, (ss.findSome? fun s => as.findSome? fun a => (a.out s v).toOption) = some r ∧
      unionStages as v ss tmp = (some r, [])) ∨
    ((ss.findSome? fun s => as.findSome? fun a => (a.out s v).toOption) = none ∧
      ∃ t, unionStages as v ss tmp = (none, t) ∧ t.length = tmp.length + ss.length * as.length) := by
  induction ss generalizing tmp with
  | nil => exact Or.inr ⟨rfl, tmp, rfl, by simp⟩
  | cons s ss ih =>
    simp only [List.findSome?_cons, unionStages]
    rcases tryArgs_spec s v as tmp with ⟨r, h1, h2⟩ | ⟨h1, t, h2, h3⟩
    · rw [h1, h2]; exact Or.inl ⟨r, rfl, rfl⟩
    · rw [h1, h2]
      rcases ih t with ⟨r, h4, h5⟩ | ⟨h4, t', h5, h6⟩
      · exact Or.inl ⟨r, h4, h5⟩
      · refine Or.inr ⟨h4, t', h5, ?_⟩
        rw [h6, h3, List.length_cons, Nat.succ_mul]; omega

theorem stages_ne_nil (o : Opts) : stages o ≠ [] := by
  unfold stages; simp

theorem self_mem_stages (o : Opts) : o ∈ stages o := by
  unfold stages; simp

/-- A value of exactly one of the argument types is accepted unchanged (and the context is not touched). -/
theorem C09_union_exact (as : List (Arg V)) (o : Opts) (c : Ctx) (v : V) (h : as.any (fun a => a.exact v) = true) :
    logicalUnion as o c v = (c, .ok v) := by
  unfold logicalUnion; rw [if_pos h]

/-- The union returns exactly what its specification says — whatever the incoming context holds: the input for an
exact type, otherwise the output of the first accepting argument at the first stage (strict, then lossless, then the
caller's options) at which any argument accepts; it fails iff no argument accepts at any stage. -/
theorem C09_union_refines (as : List (Arg V)) (o : Opts) (c : Ctx) (v : V) (hne : as ≠ []) :
    (logicalUnion as o c v).2.toOption = unionSpec as o v := by
  unfold logicalUnion unionSpec
  split
  · rfl
  · rcases unionStages_spec as v (stages o) c.tmp with ⟨r, h1, h2⟩ | ⟨h1, t, h2, h3⟩
    · rw [h1, h2]; rfl
    · rw [h1, h2]
      have : t ≠ [] := by
        intro ht
        have h0 : (stages o).length * as.length = 0 := by
          rw [ht] at h3; simp at h3; omega
        rcases Nat.mul_eq_zero.mp h0 with h | h
        · exact stages_ne_nil o (List.length_eq_zero_iff.mp h)
        · exact hne (List.length_eq_zero_iff.mp h)
      show (raiseError ({ c with tmp := t } : Ctx) v).2.toOption = none
      rw [raiseError_tmp ({ c with tmp := t } : Ctx) v this]; rfl

/-- … and otherwise accepts exactly when at least one argument accepts (at some stage's options). -/
theorem C09_union_accepts_iff_stage (as : List (Arg V)) (o : Opts) (c : Ctx) (v : V) (hne : as ≠ [])
    (hx : as.any (fun a => a.exact v) = false) :
    (logicalUnion as o c v).2.isOk = true ↔ ∃ s ∈ stages o, ∃ a ∈ as, (a.out s v).isOk = true := by
  rw [isOk_iff_toOption, C09_union_refines as o c v hne]
  unfold unionSpec
  simp only [hx, Bool.false_eq_true, if_false]
  constructor
  · rintro ⟨r, hr⟩
    obtain ⟨s, hs, hr⟩ := List.exists_of_findSome?_eq_some hr
    obtain ⟨a, ha, hr⟩ := List.exists_of_findSome?_eq_some hr
    exact ⟨s, hs, a, ha, (isOk_iff_toOption _).mpr ⟨r, hr⟩⟩
  · rintro ⟨s, hs, a, ha, hok⟩
    cases hf : (stages o).findSome? fun s => as.findSome? fun a => (a.out s v).toOption with
    | some r => exact ⟨r, rfl⟩
    | none =>
      exfalso
      rw [List.findSome?_eq_none_iff] at hf
      have := hf s hs
      rw [List.findSome?_eq_none_iff] at this
      have := this a ha
      obtain ⟨r, hr⟩ := (isOk_iff_toOption _).mp hok
      rw [hr] at this; cases this

/-- The property's sentence, for arguments obeying the subset law (C12): the union accepts exactly when it
is an exact type or at least one argument accepts the input under the caller's options. -/
theorem C09_union_accepts_iff (as : List (Arg V)) (o : Opts) (c : Ctx) (v : V) (hne : as ≠ []) (hm : Mono as o) :
    (logicalUnion as o c v).2.isOk = true ↔
      (as.any (fun a => a.exact v) = true ∨ ∃ a ∈ as, a.accepts o v = true) := by
  cases hx : as.any (fun a => a.exact v) with
  | true => simp [C09_union_exact as o c v hx, Except.isOk, Except.toBool]
  | false =>
    rw [C09_union_accepts_iff_stage as o c v hne hx]
    simp only [Bool.false_eq_true, false_or, Arg.accepts]
    constructor
    · rintro ⟨s, hs, a, ha, hok⟩
      exact ⟨a, ha, hm a ha s hs v hok⟩
    · rintro ⟨a, ha, hok⟩
      exact ⟨o, self_mem_stages o, a, ha, hok⟩

/-- with transform.py's exact-type law for the arguments the exact-type case is an instance of "some argument accepts" -/
theorem C09_union_accepts_iff' (as : List (Arg V)) (o : Opts) (c : Ctx) (v : V) (hne : as ≠ []) (hm : Mono as o)
    (hx : ExactLaw as) :
    (logicalUnion as o c v).2.isOk = true ↔ ∃ a ∈ as, a.accepts o v = true := by
  rw [C09_union_accepts_iff as o c v hne hm]
  constructor
  · rintro (h | h)
    · obtain ⟨a, ha, he⟩ := List.any_eq_true.mp h
      exact ⟨a, ha, by simp [Arg.accepts, hx a ha o v he, Except.isOk, Except.toBool]⟩
    · exact h
  · exact Or.inr

/-- The value a union returns is the input itself (exact type) or the output of an argument that accepts
the input — under the subset law, an argument that accepts it under the caller's options. -/
theorem C09_union_result (as : List (Arg V)) (o : Opts) (c : Ctx) (v r : V) (hne : as ≠ [])
    (h : (logicalUnion as o c v).2 = .ok r) :
    (as.any (fun a => a.exact v) = true ∧ r = v) ∨
    ∃ a ∈ as, ∃ s ∈ stages o, a.out s v = .ok r ∧ (Mono as o → a.accepts o v = true) := by
  have h' : (logicalUnion as o c v).2.toOption = some r := by rw [h]; rfl
  rw [C09_union_refines as o c v hne] at h'
  unfold unionSpec at h'
  split at h'
  · rename_i hx
    exact Or.inl ⟨hx, by cases h'; rfl⟩
  · obtain ⟨s, hs, hr⟩ := List.exists_of_findSome?_eq_some h'
    obtain ⟨a, ha, hr⟩ := List.exists_of_findSome?_eq_some hr
    have hrun : a.out s v = .ok r := (toOption_ok _ _).mp hr
    refine Or.inr ⟨a, ha, s, hs, hrun, fun hm => hm a ha s hs v ?_⟩
    rw [hrun]; rfl

/-- a union that returns normally from a clean context returns it clean -/
theorem union_clean_on_ok (as : List (Arg V)) (o : Opts) (c' : Ctx) (v r : V)
    (h : logicalUnion as o {} v = (c', .ok r)) : c' = {} := by
  unfold logicalUnion at h
  split at h
  · cases h; rfl
  · generalize unionStages as v (stages o) ({} : Ctx).tmp = p at h
    obtain ⟨x, t⟩ := p
    cases x with
    | some r' => simp only [Prod.mk.injEq] at h; exact h.1.symm
    | none => exact (raiseError_ok _ c' v r h).2.1

/-! ### exclusive-or — laws for every incoming context without recorded `errors` (pending `tmp_errors` are harmless) -/

theorem oks_cons_error {a : Arg V} {as : List (Arg V)} {o : Opts} {v : V} {e : Err}
    (h : a.out o v = .error e) : oks (a :: as) o v = oks as o v := by
  simp [oks, h, Except.toOption]

theorem oks_cons_ok {a : Arg V} {as : List (Arg V)} {o : Opts} {v r : V}
    (h : a.out o v = .ok r) : oks (a :: as) o v = r :: oks as o v := by
  simp [oks, h, Except.toOption]

theorem xorLoop_spec (o : Opts) (v : V) (as : List (Arg V)) (acc : Option V) (tmp : List Err) :
    (acc.toList ++ oks as o v = [] →
      ∃ t, xorLoop o v as acc tmp = (none, t, false) ∧ t.length = tmp.length + as.length) ∧
    (∀ r, acc.toList ++ oks as o v = [r] → ∃ t, xorLoop o v as acc tmp = (some r, t, false)) ∧
    (2 ≤ (acc.toList ++ oks as o v).length → ∃ t, xorLoop o v as acc tmp = (none, t, true)) := by
  induction as generalizing acc tmp with
  | nil =>
    cases acc with
    | none => exact ⟨fun _ => ⟨tmp, rfl, by simp⟩, fun r h => by simp [oks] at h, fun h => by simp [oks] at h⟩
    | some r =>
      refine ⟨fun h => by simp [oks] at h, fun r' h => ?_, fun h => by simp [oks] at h⟩
      simp [oks] at h; subst h; exact ⟨tmp, rfl⟩
  | cons a as ih =>
    cases h : a.out o v with
    | error e =>
      rw [oks_cons_error h]
      simp only [xorLoop, h]
      obtain ⟨h1, h2, h3⟩ := ih acc (tmp ++ [e])
      refine ⟨fun hk => ?_, h2, h3⟩
      obtain ⟨t, ht, hl⟩ := h1 hk
      exact ⟨t, ht, by simp at hl ⊢; omega⟩
    | ok r =>
      rw [oks_cons_ok h]
      simp only [xorLoop, h]
      cases acc with
      | none =>
        obtain ⟨h1, h2, h3⟩ := ih (some r) tmp
        exact ⟨fun hk => by simp at hk, fun r' hk => h2 r' (by simpa using hk), fun hk => h3 (by simpa using hk)⟩
      | some r0 =>
        exact ⟨fun hk => by simp at hk, fun r' hk => by simp at hk, fun _ => ⟨tmp, rfl⟩⟩

/-- Exclusive-or returns the output of the one and only accepting argument and fails in every other case
(none accepts, or more than one accepts) — every argument is judged on the ORIGINAL input. -/
theorem C09_xor_refines (as : List (Arg V)) (o : Opts) (c : Ctx) (v : V) (hne : as ≠ []) (hc : c.errors = []) :
    (logicalXor as o c v).2.toOption = xorSpec as o v := by
  unfold logicalXor xorSpec
  obtain ⟨h1, h2, h3⟩ := xorLoop_spec o v as none c.tmp
  simp only [Option.toList, List.nil_append] at h1 h2 h3
  match hk : oks as o v with
  | [] =>
    obtain ⟨t, ht, hl⟩ := h1 hk
    rw [ht]
    have : t ≠ [] := by
      intro h0; rw [h0] at hl
      have : as.length = 0 := by simp at hl; omega
      exact hne (List.length_eq_zero_iff.mp this)
    show (raiseError ({ c with tmp := t } : Ctx) v).2.toOption = none
    rw [raiseError_tmp ({ c with tmp := t } : Ctx) v this]; rfl
  | [r] =>
    obtain ⟨t, ht⟩ := h2 r hk
    rw [ht]
    show (raiseError ({ c with tmp := [] } : Ctx) r).2.toOption = some r
    simp [raiseError, hc, Except.toOption]
  | _ :: _ :: _ =>
    obtain ⟨t, ht⟩ := h3 (by rw [hk]; simp)
    rw [ht]
    obtain ⟨c2, e', he'⟩ := handle_then_raise o { c with tmp := t } .oneOf v
    simp only [he']; rfl

theorem oks_length (as : List (Arg V)) (o : Opts) (v : V) :
    (oks as o v).length = as.countP fun a => a.accepts o v := by
  induction as with
  | nil => rfl
  | cons a as ih =>
    cases h : a.out o v with
    | error e =>
      rw [oks_cons_error h, List.countP_cons, ih]
      simp [Arg.accepts, h, Except.isOk, Except.toBool]
    | ok r =>
      rw [oks_cons_ok h, List.countP_cons, List.length_cons, ih]
      simp [Arg.accepts, h, Except.isOk, Except.toBool]

/-- Exclusive-or accepts exactly when one and only one argument accepts the given input. -/
theorem C09_xor_exactly_one (as : List (Arg V)) (o : Opts) (c : Ctx) (v : V) (hne : as ≠ []) (hc : c.errors = []) :
    (logicalXor as o c v).2.isOk = true ↔ (as.countP fun a => a.accepts o v) = 1 := by
  rw [isOk_iff_toOption, C09_xor_refines as o c v hne hc, ← oks_length]
  unfold xorSpec
  split
  · rename_i heq; simp [heq]
  · rename_i h
    constructor
    · rintro ⟨r, hr⟩; cases hr
    · intro hl
      exfalso
      match hk : oks as o v, hl with
      | [r], _ => exact h r hk

/-- … independent of argument order: any permutation of the arguments gives the same verdict and value. -/
theorem C09_xor_perm (as as' : List (Arg V)) (o : Opts) (c : Ctx) (v : V) (hp : as.Perm as') (hc : c.errors = []) :
    (logicalXor as o c v).2.toOption = (logicalXor as' o c v).2.toOption := by
  by_cases hne : as = []
  · subst hne
    have : as' = [] := List.Perm.eq_nil (List.Perm.symm hp)
    subst this; rfl
  · have hne' : as' ≠ [] := fun h => hne (by subst h; exact List.Perm.eq_nil hp)
    rw [C09_xor_refines as o c v hne hc, C09_xor_refines as' o c v hne' hc]
    have hq : (oks as o v).Perm (oks as' o v) := List.Perm.filterMap _ hp
    unfold xorSpec
    match h1 : oks as o v, h2 : oks as' o v with
    | [], l =>
      rw [h1, h2] at hq
      have : l = [] := List.Perm.eq_nil (List.Perm.symm hq)
      subst this; rfl
    | [r], l =>
      rw [h1, h2] at hq
      have : l = [r] := List.Perm.eq_singleton (List.Perm.symm hq)
      subst this; rfl
    | _ :: _ :: _, l =>
      rw [h1, h2] at hq
      have hl := hq.length_eq
      match l, hl with
      | _ :: _ :: _, _ => rfl

theorem C09_xor_perm_accepts (as as' : List (Arg V)) (o : Opts) (c : Ctx) (v : V) (hp : as.Perm as')
    (hc : c.errors = []) : (logicalXor as o c v).2.isOk = (logicalXor as' o c v).2.isOk := by
  have h := C09_xor_perm as as' o c v hp hc
  cases h1 : (logicalXor as o c v).2 <;> cases h2 : (logicalXor as' o c v).2 <;>
    simp_all [Except.toOption, Except.isOk, Except.toBool]

/-- the value exclusive-or returns is the output of an argument that accepted the input -/
theorem C09_xor_result (as : List (Arg V)) (o : Opts) (c : Ctx) (v r : V) (hne : as ≠ []) (hc : c.errors = [])
    (h : (logicalXor as o c v).2 = .ok r) : ∃ a ∈ as, a.out o v = .ok r := by
  have h' : (logicalXor as o c v).2.toOption = some r := by rw [h]; rfl
  rw [C09_xor_refines as o c v hne hc] at h'
  unfold xorSpec at h'
  split at h'
  · rename_i r' heq
    cases h'
    have : r ∈ oks as o v := by rw [heq]; simp
    unfold oks at this
    obtain ⟨a, ha, hr⟩ := List.mem_filterMap.mp this
    exact ⟨a, ha, (toOption_ok _ _).mp hr⟩
  · cases h'

/-- whatever the incoming context, an exclusive-or that returns normally returns a clean context -/
theorem xor_clean_on_ok (as : List (Arg V)) (o : Opts) (c c' : Ctx) (v r : V)
    (h : logicalXor as o c v = (c', .ok r)) : c' = {} := by
  unfold logicalXor at h
  generalize xorLoop o v as none c.tmp = p at h
  obtain ⟨x, t, b⟩ := p
  cases b with
  | true =>
    obtain ⟨c2, e', he'⟩ := handle_then_raise o { c with tmp := t } .oneOf v
    simp only [he'] at h; cases h
  | false =>
    cases x with
    | some r' => exact (raiseError_ok _ c' r' r h).2.1
    | none => exact (raiseError_ok _ c' v r h).2.1

/-! ### negation — for a clean incoming context -/

theorem negLoop_errors (o : Opts) (v : V) (as : List (Arg V)) (c : Ctx) (h : c.errors ≠ []) :
    (negLoop o v as c).errors ≠ [] := by
  induction as generalizing c with
  | nil => exact h
  | cons a as ih =>
    simp only [negLoop]
    split
    · exact h
    · have he := handleError_errors o c .negate
      split
      · rename_i heq; rw [heq] at he; exact he
      · rename_i heq; rw [heq] at he; exact ih _ he

theorem negLoop_tmp (o : Opts) (v : V) (as : List (Arg V)) (c : Ctx) : (negLoop o v as c).tmp = c.tmp := by
  induction as generalizing c with
  | nil => rfl
  | cons a as ih =>
    simp only [negLoop]
    split
    · rfl
    · have he := handleError_fst o c .negate
      split
      · rename_i heq; rw [heq] at he; simp only at he; rw [he]; rfl
      · rename_i heq; rw [heq] at he; simp only at he; rw [ih, he]; rfl

/-- Negation accepts exactly when its argument rejects, and returns the input unchanged. -/
theorem C09_neg (a : Arg V) (rest : List (Arg V)) (o : Opts) (v r : V) :
    (logicalNeg (a :: rest) o {} v).2 = .ok r ↔ (a.accepts o v = false ∧ r = v) := by
  unfold logicalNeg Arg.accepts
  simp only [negLoop]
  cases h : a.out o v with
  | error e =>
    simp only [Except.isOk, Except.toBool, true_and]
    rw [raiseError_empty]
    constructor
    · intro h; cases h; rfl
    · intro h; rw [h]
  | ok w =>
    simp only [Except.isOk, Except.toBool, Bool.true_eq_false, false_and, iff_false]
    have he := handleError_errors o {} .negate
    generalize handleError o {} Err.negate = p at he
    obtain ⟨c1, r1⟩ := p
    have hc : ∀ c : Ctx, c.errors ≠ [] → ¬ (raiseError c v).2 = Except.ok r := by
      intro c hc; rw [raiseError_errors c v hc]; intro h; cases h
    cases r1 with
    | some e => exact hc _ he
    | none => exact hc _ (negLoop_errors o v rest _ he)

theorem C09_neg_accepts_iff (a : Arg V) (o : Opts) (v : V) :
    (logicalNeg [a] o {} v).2.isOk = true ↔ a.accepts o v = false := by
  rw [isOk_iff_toOption]
  constructor
  · rintro ⟨r, hr⟩
    exact ((C09_neg a [] o v r).mp ((toOption_ok _ _).mp hr)).1
  · intro h
    exact ⟨v, (toOption_ok _ _).mpr ((C09_neg a [] o v v).mpr ⟨h, rfl⟩)⟩

theorem neg_clean_on_ok (as : List (Arg V)) (o : Opts) (c c' : Ctx) (v r : V)
    (h : logicalNeg as o c v = (c', .ok r)) : c' = {} :=
  (raiseError_ok _ c' v r h).2.1

/-! ### what a context that already holds errors does (the laws above say exactly which incoming states they cover)

A caller may hand a USED context to a logical type (`T(value, context=ctx)`).  The union does not care; the other
three end with `raise_error()` and therefore fail whatever their arguments say.  On the real code:
`(~Slug)('ABC', context=ctx)` with `ctx.errors = [e]` raises although `Slug` rejects 'ABC' (reproduced; corpus cases
with `"dirty"`).  Data classes give every field a context of its own, so this state is reached only by passing one. -/

/-- a negation called with a context that is not clean fails, whatever its argument says -/
theorem C09_neg_dirty_context_rejects (as : List (Arg V)) (o : Opts) (c : Ctx) (v : V) (h : ¬ c.clean) :
    (logicalNeg as o c v).2.isOk = false := by
  unfold logicalNeg
  by_cases he : c.errors = []
  · have ht : c.tmp ≠ [] := fun ht => h ⟨he, ht⟩
    have : (negLoop o v as c).tmp ≠ [] := by rw [negLoop_tmp]; exact ht
    rw [raiseError_tmp _ v this]; rfl
  · rw [raiseError_errors _ v (negLoop_errors o v as c he)]; rfl

/-- an exclusive-or called with a context that holds recorded errors fails, whatever its arguments say -/
theorem C09_xor_dirty_context_rejects (as : List (Arg V)) (o : Opts) (c : Ctx) (v : V) (h : c.errors ≠ []) :
    (logicalXor as o c v).2.isOk = false := by
  unfold logicalXor
  generalize xorLoop o v as none c.tmp = p
  obtain ⟨x, t, b⟩ := p
  cases b with
  | true =>
    obtain ⟨c2, e', he'⟩ := handle_then_raise o { c with tmp := t } .oneOf v
    simp only [he']; rfl
  | false =>
    cases x with
    | some r' =>
      show (raiseError ({ c with tmp := [] } : Ctx) r').2.isOk = false
      rw [raiseError_errors _ r' (by simpa using h)]; rfl
    | none =>
      show (raiseError ({ c with tmp := t } : Ctx) v).2.isOk = false
      rw [raiseError_errors _ v (by simpa using h)]; rfl

/-- the union's verdict and value do not depend on the incoming context at all -/
theorem C09_union_context_independent (as : List (Arg V)) (o : Opts) (c c' : Ctx) (v : V) (hne : as ≠ []) :
    (logicalUnion as o c v).2.toOption = (logicalUnion as o c' v).2.toOption := by
  rw [C09_union_refines as o c v hne, C09_union_refines as o c' v hne]

/-! ### the hypotheses are satisfiable, and the laws are not vacuous -/

/-- two concrete arguments over `V = Nat`: value 0 = '3.0', value 1 = 3.
`intA` converts both to 1; `dottedA` accepts only 0 -/
def intA : Arg Nat := ⟨fun v => v == 1, fun _ c _ => (c, .ok 1)⟩
def dottedA : Arg Nat := ⟨fun _ => false, fun _ c v => (c, if v == 0 then .ok 0 else .error (.mk 9 []))⟩
/-- `strA` accepts everything unchanged and is the exact type of value 0; `slugA` accepts everything unchanged -/
def strA : Arg Nat := ⟨fun v => v == 0, fun _ c v => (c, .ok v)⟩
def slugA : Arg Nat := ⟨fun _ => false, fun _ c v => (c, .ok v)⟩
/-- `loose` accepts only under options without `no_data_loss` -/
def looseA : Arg Nat := ⟨fun _ => false, fun o c v => (c, if o.noDataLoss then .error (.mk 9 []) else .ok (v + 1))⟩
/-- a `Rule`-like argument: records its error in the context it was given before raising it -/
def recordingA : Arg Nat := ⟨fun _ => false, fun _ c v =>
  if v == 0 then (c, .ok 0) else (c.push (.mk 9 []), .error (.mk 9 []))⟩

example : Mono [intA, dottedA, looseA] {} ∧ ExactLaw [intA, strA] ∧ [intA, dottedA] ≠ [] ∧
    CleanOnOk [intA, dottedA, recordingA] := by
  refine ⟨?_, ?_, by simp, ?_⟩
  · intro a ha s hs v
    simp only [List.mem_cons, List.not_mem_nil, or_false] at ha
    rcases ha with rfl | rfl | rfl
    · intro _; rfl
    · intro h; exact h
    · intro _; rfl
  · intro a ha o v
    simp only [List.mem_cons, List.not_mem_nil, or_false] at ha
    rcases ha with rfl | rfl
    · intro h; simp [intA, Arg.out] at h ⊢; exact h.symm
    · intro _; rfl
  · intro a ha o v c' r h
    simp only [List.mem_cons, List.not_mem_nil, or_false] at ha
    rcases ha with rfl | rfl | rfl
    · simp [intA] at h; exact h.1.symm
    · simp [dottedA] at h; exact h.1.symm
    · simp only [recordingA] at h
      split at h
      · simp at h; exact h.1.symm
      · simp at h

/-- a union that succeeds only at the last stage, with the last argument -/
example : (logicalUnion [dottedA, looseA] {} {} 5).2.toOption = some 6 := by decide
/-- exactly one accepts / both accept / none accepts -/
example : (logicalXor [intA, dottedA] {} {} 1).2.toOption = some 1 ∧ (logicalXor [intA, dottedA] {} {} 0).2.isOk = false
    ∧ (logicalXor [dottedA, dottedA] {} {} 1).2.isOk = false := by decide
/-- the shared context of `&` is visible in the collected errors (the recording argument's error appears twice) but
not in the verdict -/
example : (logicalAll [slugA, recordingA] { collectErrors := true } {} 1).1.errors.length = 2
    ∧ (logicalAll [slugA, recordingA] { collectErrors := true } {} 0).2.toOption = some 0 := by decide
/-- a context that is not clean: negation and exclusive-or fail, the union does not care -/
example : ¬ ({ errors := [.mk 3 []] } : Ctx).clean ∧
    (logicalNeg [dottedA] {} { errors := [.mk 3 []] } 1).2.isOk = false ∧
    (logicalNeg [dottedA] {} {} 1).2.isOk = true ∧
    (logicalUnion [dottedA, slugA] {} { errors := [.mk 3 []] } 1).2.toOption = some 1 := by
  refine ⟨fun h => (by cases h.1), by decide, by decide, by decide⟩

/-! ### the pinned (pre-fix) `^` branch violates the property: negation witnesses

Full statements (true of the repaired code, above): `C09_xor_exactly_one`, `C09_xor_perm`. -/

/-- `(Int ^ Dotted)('3.0')` is accepted (the converted 3 is handed to `Dotted`, which rejects it) but
`(Dotted ^ Int)('3.0')` is rejected: the verdict depended on argument order. -/
theorem C09_legacy_xor_order_dependent_witness :
    ∃ (a b : Arg Nat) (v : Nat),
      (logicalXorLegacy [a, b] {} v).isOk ≠ (logicalXorLegacy [b, a] {} v).isOk :=
  ⟨intA, dottedA, 0, by decide⟩

/-- `(str ^ SlugStr)('abc')`: both arguments accept, yet the exact-type shortcut returns the value -/
theorem C09_legacy_xor_shortcut_witness :
    ∃ (a b : Arg Nat) (v : Nat),
      a.accepts {} v = true ∧ b.accepts {} v = true ∧ (logicalXorLegacy [a, b] {} v).isOk = true :=
  ⟨strA, slugA, 0, by decide⟩

/-- the repaired branch rejects both witnesses' inputs in both orders -/
example : (logicalXor [intA, dottedA] {} {} 0).2.isOk = false ∧ (logicalXor [dottedA, intA] {} {} 0).2.isOk = false
    ∧ (logicalXor [strA, slugA] {} {} 0).2.isOk = false := by decide

/-! ### the laws hold at every node of every combinator tree (arguments may be combinators themselves, and the
conditions of a `&` node work on that node's context) -/

theorem evalArgs_eq_map (L : Leaves V) (as : List Ty) : evalArgs L as = as.map (evalTy L) := by
  induction as with
  | nil => simp [evalArgs]
  | cons a as ih => simp [evalArgs, ih]

/-- "Nested nodes start from a clean context": whatever the tree and the leaves, a (sub-)tree that is called with a
clean context and returns normally hands a clean context back — so under a `&` node every condition, nested
combinators included, is entered with a clean context until the first failure. -/
theorem C09_tree_clean_on_ok (L : Leaves V) (t : Ty) (o : Opts) (v : V) (c' : Ctx) (r : V)
    (h : (evalTy L t).run o {} v = (c', .ok r)) : c' = {} := by
  cases t with
  | comb c as u =>
    cases c with
    | all => simp only [evalTy] at h; exact all_clean_on_ok _ o {} c' v r h
    | any => simp only [evalTy] at h; exact union_clean_on_ok _ o c' v r h
    | one => simp only [evalTy] at h; exact xor_clean_on_ok _ o {} c' v r h
    | neg => simp only [evalTy] at h; exact neg_clean_on_ok _ o {} c' v r h
  | wrap t u =>
    simp only [evalTy] at h
    generalize (evalTy L t).run o {} v = p at h
    obtain ⟨c1, res⟩ := p
    cases res with
    | ok r1 => exact (raiseError_ok c1 c' r1 r h).2.1
    | error e => simp at h
  | cls i | rule i | dc i | annot k u | fwd k | selfT i =>
    simp only [evalTy, Leaves.call] at h
    split at h
    · split at h
      · rename_i r1 _ _
        exact (raiseError_ok _ c' r1 r h).2.1
      · simp at h; exact h.1.symm
    · simp at h
  | ruleBase => simp only [evalTy] at h; exact (raiseError_ok _ c' v r h).2.1
  | anyT | noneV | alias k | lit k | str k | tunion ms =>
    simp only [evalTy] at h; simp at h; exact h.1.symm

theorem tree_args_clean_on_ok (L : Leaves V) (as : List Ty) : CleanOnOk (as.map (evalTy L)) := by
  intro a ha o v c' r h
  obtain ⟨t, _, rfl⟩ := List.mem_map.mp ha
  exact C09_tree_clean_on_ok L t o v c' r h

/-- For every tree, every leaf behaviour: an exclusive-or node accepts exactly when one and only one of its
sub-trees accepts the input, whatever the order in which they were written. -/
theorem C09_tree_xor (L : Leaves V) (as : List Ty) (u : Nat) (o : Opts) (v : V) (hne : as ≠ []) :
    ((evalTy L (.comb .one as u)).out o v).isOk = true ↔
      (as.countP fun a => (evalTy L a).accepts o v) = 1 := by
  have : (evalTy L (.comb .one as u)).run = logicalXor (as.map (evalTy L)) := by
    simp [evalTy, evalArgs_eq_map]
  unfold Arg.out
  rw [this, C09_xor_exactly_one _ o {} v (by simpa using hne) rfl, List.countP_map]
  rfl

theorem C09_tree_xor_perm (L : Leaves V) (as as' : List Ty) (u u' : Nat) (o : Opts) (v : V) (hp : as.Perm as') :
    ((evalTy L (.comb .one as u)).out o v).toOption = ((evalTy L (.comb .one as' u')).out o v).toOption := by
  have h1 : (evalTy L (.comb .one as u)).run = logicalXor (as.map (evalTy L)) := by
    simp [evalTy, evalArgs_eq_map]
  have h2 : (evalTy L (.comb .one as' u')).run = logicalXor (as'.map (evalTy L)) := by
    simp [evalTy, evalArgs_eq_map]
  unfold Arg.out
  rw [h1, h2]
  exact C09_xor_perm _ _ o {} v (hp.map _) rfl

/-- a negation node accepts exactly when its sub-tree rejects, and returns the input -/
theorem C09_tree_neg (L : Leaves V) (a : Ty) (u : Nat) (o : Opts) (v r : V) :
    (evalTy L (.comb .neg [a] u)).out o v = .ok r ↔ ((evalTy L a).accepts o v = false ∧ r = v) := by
  have : (evalTy L (.comb .neg [a] u)).run = logicalNeg [evalTy L a] := by
    simp [evalTy, evalArgs]
  unfold Arg.out
  rw [this]
  exact C09_neg _ [] o v r

/-- a conjunction node applies its sub-trees in order to the running value (no hypothesis: the sub-trees share
the node's context, and `C09_tree_clean_on_ok` shows that this cannot be observed) -/
theorem C09_tree_all (L : Leaves V) (as : List Ty) (u : Nat) (o : Opts) (v : V) :
    ((evalTy L (.comb .all as u)).out o v).toOption = (allSpec (as.map (evalTy L)) o v).toOption := by
  have : (evalTy L (.comb .all as u)).run = logicalAll (as.map (evalTy L)) := by
    simp [evalTy, evalArgs_eq_map]
  unfold Arg.out
  rw [this]
  exact C09_all_fold _ o v (tree_args_clean_on_ok L as)

/-- a union node returns what `unionSpec` says of its sub-trees -/
theorem C09_tree_union (L : Leaves V) (as : List Ty) (u : Nat) (o : Opts) (v : V) (hne : as ≠ []) :
    ((evalTy L (.comb .any as u)).out o v).toOption = unionSpec (as.map (evalTy L)) o v := by
  have : (evalTy L (.comb .any as u)).run = logicalUnion (as.map (evalTy L)) := by
    simp [evalTy, evalArgs_eq_map]
  unfold Arg.out
  rw [this]
  exact C09_union_refines _ o {} v (by simpa using hne)

/-- In a tree, "of exactly the argument's type" can only be said of a plain class or a data class — never of a
constrained `Rule` type (whatever decides its acceptance: validators, `contains`, item types, user hooks) nor of
a combinator: those arguments always go through their own parser. -/
theorem C09_tree_exact_only_classes (L : Leaves V) (t : Ty) (v : V) (h : (evalTy L t).exact v = true) :
    (∃ i, t = .cls i ∧ L.exact i v = true) ∨ (∃ i, t = .dc i ∧ L.exact i v = true) := by
  cases t <;> simp [evalTy] at h
  · exact Or.inl ⟨_, rfl, h⟩
  · exact Or.inr ⟨_, rfl, h⟩

/-- if the leaves obey transform.py's exact-type law, so do the arguments of every node -/
theorem C09_tree_exact_law (L : Leaves V) (hL : ∀ i o v, L.exact i v = true → L.run i o v = .ok v) (as : List Ty) :
    ExactLaw (as.map (evalTy L)) := by
  intro a ha o v hx
  obtain ⟨t, _, rfl⟩ := List.mem_map.mp ha
  rcases C09_tree_exact_only_classes L t v hx with ⟨i, rfl, h⟩ | ⟨i, rfl, h⟩
  · simp only [evalTy, Arg.out, Leaves.call, hL i o v h]; split <;> rfl
  · simp only [evalTy, Arg.out, Leaves.call, hL i o v h]; split <;> rfl

/-- Soundness of a union node, with no exception for the exact-type fast path: whatever a union node returns is
the output of one of its sub-trees on the same input (under one of the stage option sets) — in particular a union
never accepts a value that every one of its arguments rejects at every stage. -/
theorem C09_tree_union_sound (L : Leaves V) (hL : ∀ i o v, L.exact i v = true → L.run i o v = .ok v)
    (as : List Ty) (u : Nat) (o : Opts) (v r : V) (hne : as ≠ [])
    (h : (evalTy L (.comb .any as u)).out o v = .ok r) :
    ∃ a ∈ as, ∃ s, (evalTy L a).out s v = .ok r := by
  have hrun : (evalTy L (.comb .any as u)).run = logicalUnion (as.map (evalTy L)) := by
    simp [evalTy, evalArgs_eq_map]
  unfold Arg.out at h
  rw [hrun] at h
  rcases C09_union_result _ o {} v r (by simpa using hne) h with ⟨hx, rfl⟩ | ⟨a, ha, s, _, hr, _⟩
  · obtain ⟨a, ha, he⟩ := List.any_eq_true.mp hx
    obtain ⟨t, ht, rfl⟩ := List.mem_map.mp ha
    exact ⟨t, ht, o, C09_tree_exact_law L hL as _ ha o r he⟩
  · obtain ⟨t, ht, rfl⟩ := List.mem_map.mp ha
    exact ⟨t, ht, s, hr⟩

/-! ## Part B — construction obeys the algebra users rely on -/

/-- Double negation cancels: `~~t` is `t` itself (the same object) for every utype type that is not itself a
negation … -/
theorem C09_invert_invert (t : Ty) (u u' : Nat) (h : t.isLogical = true ∨ ∃ i, t = .dc i)
    (hn : t.combinator ≠ some .neg) : (invert u t).bind (invert u') = some t := by
  have hp : t.parsed = true := by
    rcases h with h | ⟨i, rfl⟩
    · cases t <;> first | rfl | cases h
    · rfl
  have hA : t.same .anyT = false := by
    rcases h with h | ⟨i, rfl⟩
    · cases t <;> first | rfl | cases h
    · rfl
  have hc : combine .neg u [t] = .comb .neg [t] u := by
    simp [combine, combineLoop, parseArg_of_parsed hp, hA]
  have h1 : invert u t = some (.comb .neg [t] u) := by
    unfold invert
    rcases h with h | ⟨i, rfl⟩
    · rw [if_pos h, if_neg hn, hc]
    · simp [Ty.isLogical, hc]
  rw [h1]
  simp [invert, Ty.isLogical, Ty.combinator, Ty.args]

/-- … and for a negation `Not(a)` it gives `a`, and negating that gives `Not(a)` again (a new class of the same
structure). -/
theorem C09_invert_invert_neg (a : Ty) (uid u u' : Nat) (h : a.isLogical = true ∨ ∃ i, a = .dc i)
    (hn : a.combinator ≠ some .neg) :
    (invert u (.comb .neg [a] uid)).bind (invert u') = some (.comb .neg [a] u') := by
  have hp : a.parsed = true := by
    rcases h with h | ⟨i, rfl⟩
    · cases a <;> first | rfl | cases h
    · rfl
  have hA : a.same .anyT = false := by
    rcases h with h | ⟨i, rfl⟩
    · cases a <;> first | rfl | cases h
    · rfl
  have hc : combine .neg u' [a] = .comb .neg [a] u' := by
    simp [combine, combineLoop, parseArg_of_parsed hp, hA]
  have h1 : invert u (.comb .neg [a] uid) = some a := by
    simp [invert, Ty.isLogical, Ty.combinator, Ty.args]
  rw [h1]
  simp only [Option.bind_some]
  unfold invert
  rcases h with h | ⟨i, rfl⟩
  · rw [if_pos h, if_neg hn, hc]
  · simp [Ty.isLogical, hc]

/-- `~T` (T a utype type that is not a negation) is a negation whose single operand is T itself — a function of T
alone: nothing that was built before (no serial, no earlier negation of T or of a class T inherits from) matters. -/
theorem C09_invert_args (t : Ty) (u : Nat) (h : t.isLogical = true ∨ ∃ i, t = .dc i)
    (hn : t.combinator ≠ some .neg) : invert u t = some (.comb .neg [t] u) := by
  have hp : t.parsed = true := by
    rcases h with h | ⟨i, rfl⟩
    · cases t <;> first | rfl | cases h
    · rfl
  have hA : t.same .anyT = false := by
    rcases h with h | ⟨i, rfl⟩
    · cases t <;> first | rfl | cases h
    · rfl
  have hc : combine .neg u [t] = .comb .neg [t] u := by
    simp [combine, combineLoop, parseArg_of_parsed hp, hA]
  unfold invert
  rcases h with h | ⟨i, rfl⟩
  · rw [if_pos h, if_neg hn, hc]
  · simp [Ty.isLogical, hc]

/-- `LogicalType.not_of(T)` is a negation whose single operand is (the parsed form of) T, for every T -/
theorem C09_not_of_args (t : Ty) (u : Nat) : combine .neg u [t] = .comb .neg [parseArg (u + 1) t] u := by
  cases t <;> simp [combine, combineLoop, parseArg, Ty.same]

/-- the negation step of a construction does not depend on the construction history: at every point `u` of any
sequence of earlier steps, `~T` builds `Not[T]` -/
theorem C09_build_inv_history_free (t : Ty) (u : Nat) (h : t.isLogical = true ∨ ∃ i, t = .dc i)
    (hn : t.combinator ≠ some .neg) :
    build (.inv (.atom t)) u = some (.comb .neg [t] u, u + stride) := by
  simp [build, C09_invert_args t u h hn]

/-- Duplicates are absorbed: combining a type with itself gives the type. -/
theorem C09_combine_idem (op : Comb) (hop : op ≠ .neg) (u : Nat) (t : Ty) (hp : t.parsed = true)
    (hA : t.same .anyT = false) : combine op u [t, t] = t := by
  simp [combine, combineLoop, parseArg_of_parsed hp, hA, same_refl t hp, hop]

/-- Duplicates are absorbed (general form, operands with a stable identity): a second occurrence of an
operand anywhere in the operand list changes nothing.
`KnownDefect.dupByIdentity` is the excluded region: operands that are re-created at each use. -/
theorem C09_combine_dup_absorbed_partial (op : Comb) (u : Nat) (xs ys zs : List Ty) (t : Ty)
    (ht : t.stable = true)
    (hz : ∀ a ∈ zs, a.stable = true) :
    combine op u (xs ++ t :: ys ++ t :: zs) = combine op u (xs ++ t :: ys ++ zs) := by
  have key : combineLoop op u (xs ++ t :: ys ++ t :: zs) [] 0 = combineLoop op u (xs ++ t :: ys ++ zs) [] 0 := by
    have e1 : xs ++ t :: ys ++ t :: zs = xs ++ ((t :: ys) ++ (t :: zs)) := by simp
    have e2 : xs ++ t :: ys ++ zs = xs ++ ((t :: ys) ++ zs) := by simp
    rw [e1, e2, combineLoop_append, combineLoop_append]
    congr 1
    funext acc1
    rw [combineLoop_append, combineLoop_append]
    cases h : combineLoop op u (t :: ys) acc1 (0 + xs.length) with
    | none => rfl
    | some acc2 =>
      simp only [Option.bind_some]
      rw [combineLoop_seen op u t ht ys acc1 acc2 _ _ h zs]
      exact combineLoop_index op u zs acc2 _ _ hz
  unfold combine
  rw [key]

/-- the hypotheses are satisfiable, and the conclusion is not trivial (an operand really disappears) -/
example : (Ty.rule 1).stable = true ∧ Ty.noneV.stable = true ∧ (∀ a ∈ [Ty.cls 2, .noneV], a.stable = true) ∧
    (combine .one 0 ([.alias 7] ++ .rule 1 :: [.dc 3] ++ .rule 1 :: [.cls 2, .noneV])).args.length = 5 ∧
    (combine .any 0 ([.rule 1] ++ .noneV :: [] ++ .noneV :: [])).args.length = 2 := by decide

/-- Any is absorbed: a union or exclusive-or with `Any` among its operands is `Rule` (accepts anything) … -/
theorem C09_combine_any_absorbs (op : Comb) (hop : op = .any ∨ op = .one) (u : Nat) (args : List Ty)
    (h : Ty.anyT ∈ args) : combine op u args = .ruleBase := by
  have key : ∀ (args acc : List Ty) (i : Nat), Ty.anyT ∈ args → combineLoop op u args acc i = none := by
    intro args
    induction args with
    | nil => intro _ _ h; cases h
    | cons a rest ih =>
      intro acc i h
      simp only [combineLoop]
      by_cases hA : (parseArg (u + 1 + i) a).same .anyT = true
      · rw [if_pos hA]; rcases hop with rfl | rfl <;> rfl
      · rw [if_neg hA]
        have hr : Ty.anyT ∈ rest := by
          rcases List.mem_cons.mp h with h1 | h1
          · subst h1; exact absurd rfl hA
          · exact h1
        split <;> exact ih _ _ hr
  unfold combine
  rw [key args [] 0 h]

/-- … and a conjunction ignores it. -/
theorem C09_combine_all_ignores_any (u : Nat) (t : Ty) (hp : t.parsed = true) (hA : t.same .anyT = false) :
    combine .all u [t, .anyT] = t ∧ combine .all u [.anyT, t] = t := by
  cases t <;> simp_all [combine, combineLoop, parseArg, Ty.same, Ty.parsed]

/-- (an unfolding of `combineBy`, kept for reference — the content of "same-kind operands flatten" is
`C09_ops_wf_flat`) `(a | b | …) | (c | d | …)` hands all the operands to `combine`. -/
theorem C09_combineBy_flattens_unfolds_model (op : Comb) (u i j : Nat) (ls rs : List Ty) :
    combineBy (.comb op ls i) op u (.comb op rs j) false = combine op u (ls ++ rs) ∧
    combineBy (.comb op ls i) op u (.comb op rs j) true = combine op u (rs ++ ls) := by
  simp [combineBy, Ty.combinator, Ty.args, Ty.isLogical]

/-- Whatever `combine` returns from well-formed operands is well-formed: operands pairwise distinct,
no `Any` operand, at least two operands (one for `~`), or it is `Rule` / the single remaining operand. -/
theorem C09_combine_wf (op : Comb) (u : Nat) (args : List Ty) (hargs : ∀ a ∈ args, Good a)
    (hneg : op = .neg → args.length = 1) : WF (combine op u args) := by
  rcases combine_cases op u args (fun t => WF t) (fun a ha k => (hargs a ha k).1) with h | ⟨_, h, _⟩ | ⟨as, h, hinv, h1, h2, h3⟩
  · rw [h]; exact WF.leaf _ rfl rfl
  · exact h
  · rw [h]
    refine WF.comb op as u hinv.nodup hinv.parsed hinv.noAny h2 (fun hop => ?_) hinv.holds
    have := hneg hop; omega

/-- what every operand handed to `combine op` by an operator satisfies -/
def OperandOk (op : Comb) (t : Ty) : Prop := WF t ∧ Flat t ∧ t.combinator ≠ some op

/-- `combine` on operands that are well-formed, flat and not of the combinator's own kind -/
theorem combine_good (op : Comb) (u : Nat) (xs : List Ty) (hop : op ≠ .neg)
    (hP : ∀ a ∈ xs, ∀ k, OperandOk op (parseArg k a)) : Good (combine op u xs) := by
  rcases combine_cases op u xs (OperandOk op) hP with h | ⟨_, h, hp⟩ | ⟨as, h, hinv, h1, h2, h3⟩
  · rw [h]; exact good_raw _ rfl
  · exact good_of_parsed hp h.1 h.2.1
  · rw [h]
    refine good_of_parsed rfl ?_ ?_
    · exact WF.comb op as u hinv.nodup hinv.parsed hinv.noAny h2 (fun h => absurd h hop)
        (fun a ha => (hinv.holds a ha).1)
    · exact Flat.comb op as u (fun a ha => (hinv.holds a ha).2.2) (fun a ha => (hinv.holds a ha).2.1)

/-- the operands one side of an operator contributes: its own operands if it is of the same kind (flattening), else itself -/
theorem side_ok (op : Comb) (x : Ty) (c : Bool) (hx : Good x) (h1 : c = true → x.combinator = some op)
    (h2 : c = false → x.combinator ≠ some op) :
    ∀ a ∈ (if c then x.args else [x]), ∀ k, OperandOk op (parseArg k a) := by
  intro a ha k
  cases c with
  | true =>
    simp only [if_true] at ha
    have hc := h1 rfl
    match x, hc, hx, ha with
    | .comb c' as' u', hc, hx, ha =>
      simp only [Ty.combinator, Option.some.injEq] at hc
      subst hc
      simp only [Ty.args] at ha
      have hw := hx.wf rfl
      have hf := hx.flat rfl
      cases hw with
      | leaf _ h _ => cases h
      | comb _ _ _ _ hpar _ _ _ hch =>
        cases hf with
        | leaf _ h => cases h
        | comb _ _ _ hne hfl =>
          rw [parseArg_of_parsed (hpar a ha)]
          exact ⟨hch a ha, hfl a ha, hne a ha⟩
  | false =>
    simp only [Bool.false_eq_true, if_false, List.mem_singleton] at ha
    subst ha
    exact ⟨(hx k).1, (hx k).2, by rw [parseArg_combinator]; exact h2 rfl⟩

theorem combineBy_good (self other : Ty) (op : Comb) (u : Nat) (rev : Bool) (hop : op ≠ .neg)
    (hs : Good self) (ho : Good other) : Good (combineBy self op u other rev) := by
  have hl := side_ok op self (decide (self.combinator = some op)) hs (by simp) (by simp)
  have hr := side_ok op other (other.isLogical && decide (other.combinator = some op)) ho
    (by simp)
    (by
      intro h hc
      cases other <;> simp_all [Ty.isLogical, Ty.combinator])
  have hcb : combineBy self op u other rev = combine op u (if rev then
      (if (other.isLogical && decide (other.combinator = some op)) = true then other.args else [other]) ++
        (if decide (self.combinator = some op) = true then self.args else [self])
      else (if decide (self.combinator = some op) = true then self.args else [self]) ++
        (if (other.isLogical && decide (other.combinator = some op)) = true then other.args else [other])) := by
    unfold combineBy
    simp only [decide_eq_true_eq, Bool.and_eq_true]
  rw [hcb]
  apply combine_good op u _ hop
  intro a ha k
  cases rev <;> simp only [Bool.false_eq_true, if_false, if_true] at ha <;>
    rcases List.mem_append.mp ha with h | h <;> first | exact hl a h k | exact hr a h k

/-- an operand fit for the operators: well-formed and flat, and — for a typing.Union — so are its members, which
are classes (typing.Union members are never utype combinators in the modelled fragment) -/
def GoodOp (t : Ty) : Prop := Good t ∧ ∀ ms, t = .tunion ms → ∀ m ∈ ms, Good m ∧ m.combinator = none

theorem goodOp_of_good {t : Ty} (h : Good t) (hn : ∀ ms, t ≠ .tunion ms) : GoodOp t :=
  ⟨h, fun ms e => absurd e (hn ms)⟩

theorem good_parsed_not_tunion {t : Ty} (hp : t.parsed = true) : ∀ ms, t ≠ .tunion ms := by
  intro ms e; subst e; cases hp

theorem binop_good (op : Comb) (u : Nat) (l r t : Ty) (hl : GoodOp l) (hr : GoodOp r)
    (h : binop op u l r = some t) : Good t := by
  unfold binop at h
  by_cases hop : op = .neg
  · rw [if_pos hop] at h; cases h
  · rw [if_neg hop] at h
    -- members of a splatted typing.Union
    have members : ∀ ms, r = .tunion ms → ∀ a ∈ ms, ∀ k, OperandOk op (parseArg k a) := by
      intro ms e a ha k
      obtain ⟨hg, hc⟩ := hr.2 ms e a ha
      exact ⟨(hg k).1, (hg k).2, by rw [parseArg_combinator, hc]; simp⟩
    -- `combine op u [l, r]` when neither operand is a combinator
    have pair : l.combinator = none → r.combinator = none → Good (combine op u [l, r]) := by
      intro hlc hrc
      apply combine_good op u _ hop
      intro a ha k
      simp only [List.mem_cons, List.not_mem_nil, or_false] at ha
      rcases ha with rfl | rfl
      · exact ⟨(hl.1 k).1, (hl.1 k).2, by rw [parseArg_combinator, hlc]; simp⟩
      · exact ⟨(hr.1 k).1, (hr.1 k).2, by rw [parseArg_combinator, hrc]; simp⟩
    by_cases hlog : l.isLogical = true
    · rw [if_pos hlog] at h
      split at h
      · -- `l | Union[...]`: the members are splatted
        rename_i ms
        cases h
        apply combine_good _ u _ hop
        intro a ha k
        rcases List.mem_append.mp ha with h1 | h1
        · have := side_ok .any l (decide (l.combinator = some .any)) hl.1 (by simp) (by simp) a
            (by simpa using h1) k
          exact this
        · exact members ms rfl a h1 k
      · cases h
        exact combineBy_good l r op u false hop hl.1 hr.1
    · rw [if_neg hlog] at h
      cases l with
      | dc i =>
        simp only at h
        split at h
        · rename_i ms
          cases h
          apply combine_good _ u _ hop
          intro a ha k
          rcases List.mem_cons.mp ha with h1 | h1
          · subst h1
            exact ⟨(hl.1 k).1, (hl.1 k).2, by simp [parseArg, Ty.combinator]⟩
          · exact members ms rfl a h1 k
        · by_cases hrl : r.isLogical = true
          · rw [if_pos hrl] at h; cases h
            exact combineBy_good r (.dc i) op u true hop hr.1 hl.1
          · rw [if_neg hrl] at h; cases h
            exact pair rfl (by cases r <;> first | rfl | exact absurd rfl hrl)
      | cls _ | noneV | anyT | alias _ | lit _ | str _ | selfT _ | tunion _ | fwd _ =>
        simp only at h
        split at h
        · cases h
        · by_cases hrl : r.isLogical = true
          · rw [if_pos hrl] at h; cases h
            exact combineBy_good r _ op u true hop hr.1 hl.1
          · rw [if_neg hrl] at h
            cases r <;> first | (cases h; exact pair rfl rfl) | cases h
      | rule _ | ruleBase | annot _ _ | comb _ _ _ | wrap _ _ => exact absurd rfl hlog

theorem invert_good (u : Nat) (t t' : Ty) (ht : Good t) (h : invert u t = some t') : Good t' := by
  unfold invert at h
  -- `combine '~' [t]` for a parsed operand that is not a negation
  have neg1 : t.parsed = true → t.combinator ≠ some .neg → Good (combine .neg u [t]) := by
    intro hp hn
    let P : Ty → Prop := fun t => WF t ∧ Flat t ∧ t.combinator ≠ some .neg
    have hP : ∀ a ∈ [t], ∀ k, P (parseArg k a) := by
      intro a ha k
      simp only [List.mem_singleton] at ha
      subst ha
      exact ⟨(ht k).1, (ht k).2, by rw [parseArg_combinator]; exact hn⟩
    rcases combine_cases .neg u [t] P hP with h | ⟨h, _⟩ | ⟨as, h, hinv, h1, h2, h3⟩
    · rw [h]; exact good_raw _ rfl
    · exact absurd rfl h
    · rw [h]
      refine good_of_parsed rfl ?_ ?_
      · refine WF.comb .neg as u hinv.nodup hinv.parsed hinv.noAny (fun h => absurd rfl h) (fun _ => ?_)
          (fun a ha => (hinv.holds a ha).1)
        simp at h3; omega
      · exact Flat.comb .neg as u (fun a ha => (hinv.holds a ha).2.2) (fun a ha => (hinv.holds a ha).2.1)
  by_cases hlog : t.isLogical = true
  · rw [if_pos hlog] at h
    have hp : t.parsed = true := by cases t <;> first | rfl | cases hlog
    by_cases hn : t.combinator = some .neg
    · rw [if_pos hn] at h
      match t, hn, ht, h with
      | .comb c as u0, hn, ht, h =>
        simp only [Ty.combinator, Option.some.injEq] at hn
        subst hn
        simp only [Ty.args] at h
        have hw := ht.wf rfl
        have hf := ht.flat rfl
        cases as with
        | nil => cases h
        | cons a rest =>
          simp only [List.head?_cons, Option.some.injEq] at h
          subst h
          cases hw with
          | leaf _ h _ => cases h
          | comb _ _ _ _ hpar _ _ _ hch =>
            cases hf with
            | leaf _ h => cases h
            | comb _ _ _ _ hfl =>
              exact good_of_parsed (hpar a (by simp)) (hch a (by simp)) (hfl a (by simp))
    · rw [if_neg hn] at h; cases h
      exact neg1 hp hn
  · rw [if_neg hlog] at h
    cases t <;> first | (cases h; exact neg1 rfl (by simp [Ty.combinator])) | cases h

theorem combine_parsed (op : Comb) (u : Nat) (xs : List Ty) : (combine op u xs).parsed = true := by
  rcases combine_cases op u xs (fun _ => True) (fun _ _ _ => trivial) with h | ⟨_, _, hp⟩ | ⟨as, h, _⟩
  · rw [h]; rfl
  · exact hp
  · rw [h]; rfl

theorem binop_parsed (op : Comb) (u : Nat) (l r t : Ty) (h : binop op u l r = some t) : t.parsed = true := by
  have cb : ∀ (a b : Ty) (rev : Bool), (combineBy a op u b rev).parsed = true := by
    intro a b rev; unfold combineBy; exact combine_parsed _ _ _
  unfold binop at h
  by_cases hop : op = .neg
  · rw [if_pos hop] at h; cases h
  · rw [if_neg hop] at h
    by_cases hlog : l.isLogical = true
    · rw [if_pos hlog] at h
      split at h <;> cases h <;> first | exact combine_parsed _ _ _ | exact cb _ _ _
    · rw [if_neg hlog] at h
      cases l with
      | dc i =>
        simp only at h
        split at h
        · cases h; exact combine_parsed _ _ _
        · by_cases hrl : r.isLogical = true
          · rw [if_pos hrl] at h; cases h; exact cb _ _ _
          · rw [if_neg hrl] at h; cases h; exact combine_parsed _ _ _
      | cls _ | noneV | anyT | alias _ | lit _ | str _ | selfT _ | tunion _ | fwd _ =>
        simp only at h
        split at h
        · cases h
        · by_cases hrl : r.isLogical = true
          · rw [if_pos hrl] at h; cases h; exact cb _ _ _
          · rw [if_neg hrl] at h
            cases r <;> first | (cases h; exact combine_parsed _ _ _) | cases h
      | rule _ | ruleBase | annot _ _ | comb _ _ _ | wrap _ _ => exact absurd rfl hlog

theorem invert_parsed (u : Nat) (t t' : Ty) (ht : Good t) (h : invert u t = some t') : t'.parsed = true := by
  unfold invert at h
  split at h
  · rename_i hlog
    have hp : t.parsed = true := by cases t <;> first | rfl | cases hlog
    split at h
    · rename_i hn
      match t, hn, ht, h with
      | .comb c as u0, hn, ht, h =>
        simp only [Ty.args] at h
        cases as with
        | nil => cases h
        | cons a rest =>
          simp only [List.head?_cons, Option.some.injEq] at h
          subst h
          cases ht.wf rfl with
          | leaf _ h _ => cases h
          | comb _ _ _ _ hpar _ _ _ _ => exact hpar a (by simp)
    · cases h; exact combine_parsed _ _ _
  · split at h
    · cases h; exact combine_parsed _ _ _
    · cases h

/-- Every type built with the operators `|`, `^`, `&`, `~` from well-formed flat operands (in particular from
plain classes, constrained types, generics, literals, data classes, Any, None) — any expression, any nesting
depth, any operand order — is well-formed and flat: no operand twice (by identity), no `Any` operand, at
least two operands per `|`/`^`/`&`, no combinator directly inside one of the same kind, no `~` inside `~`. -/
theorem C09_ops_wf_flat (e : Expr) : ∀ (u : Nat) (t : Ty) (u' : Nat),
    (∀ a, e.atoms a → GoodOp a) → build e u = some (t, u') → GoodOp t := by
  induction e with
  | atom a =>
    intro u t u' hat h
    simp only [build, Option.some.injEq, Prod.mk.injEq] at h
    rw [← h.1]; exact hat a rfl
  | bin op l r ihl ihr =>
    intro u t u' hat h
    simp only [build] at h
    cases hl : build l u with
    | none => rw [hl] at h; cases h
    | some p1 =>
      obtain ⟨tl, u1⟩ := p1
      rw [hl] at h
      simp only at h
      cases hr : build r u1 with
      | none => rw [hr] at h; cases h
      | some p2 =>
        obtain ⟨tr, u2⟩ := p2
        rw [hr] at h
        simp only at h
        cases hb : binop op u2 tl tr with
        | none => rw [hb] at h; cases h
        | some t0 =>
          rw [hb] at h
          simp only [Option.some.injEq, Prod.mk.injEq] at h
          rw [← h.1]
          exact goodOp_of_good (binop_good op u2 tl tr t0 (ihl u tl u1 (fun a ha => hat a (Or.inl ha)) hl)
            (ihr u1 tr u2 (fun a ha => hat a (Or.inr ha)) hr) hb)
            (good_parsed_not_tunion (binop_parsed op u2 tl tr t0 hb))
  | inv e ih =>
    intro u t u' hat h
    simp only [build] at h
    cases he : build e u with
    | none => rw [he] at h; cases h
    | some p1 =>
      obtain ⟨t1, u1⟩ := p1
      rw [he] at h
      simp only at h
      cases hi : invert u1 t1 with
      | none => rw [hi] at h; cases h
      | some t0 =>
        rw [hi] at h
        simp only [Option.some.injEq, Prod.mk.injEq] at h
        rw [← h.1]
        have hg := (ih u t1 u1 hat he).1
        exact goodOp_of_good (invert_good u1 t1 t0 hg hi) (good_parsed_not_tunion (invert_parsed u1 t1 t0 hg hi))

/-- the operands of the theorem exist: every leaf kind is a fit operand, and expressions over them build (incl. a
splatted typing.Union, a string forward reference and `Self`) -/
example : GoodOp (.cls 1) ∧ GoodOp (.rule 2) ∧ GoodOp (.dc 3) ∧ GoodOp .anyT ∧ GoodOp .noneV ∧ GoodOp (.alias 4) ∧
    GoodOp (.lit 5) ∧ GoodOp .ruleBase ∧ GoodOp (.str 6) ∧ GoodOp (.selfT 7) ∧ GoodOp (.tunion [.cls 1, .noneV]) := by
  have g : ∀ t : Ty, t.combinator = none → (∀ ms, t ≠ .tunion ms) → GoodOp t :=
    fun t h hn => goodOp_of_good (good_raw t h) hn
  refine ⟨g _ rfl (by intro _ h; cases h), g _ rfl (by intro _ h; cases h), g _ rfl (by intro _ h; cases h),
    g _ rfl (by intro _ h; cases h), g _ rfl (by intro _ h; cases h), g _ rfl (by intro _ h; cases h),
    g _ rfl (by intro _ h; cases h), g _ rfl (by intro _ h; cases h), g _ rfl (by intro _ h; cases h),
    g _ rfl (by intro _ h; cases h), ⟨good_raw _ rfl, ?_⟩⟩
  intro ms h m hm
  cases h
  simp only [List.mem_cons, List.not_mem_nil, or_false] at hm
  rcases hm with rfl | rfl <;> exact ⟨good_raw _ rfl, rfl⟩

example : (build (.bin .any (.bin .any (.atom (.rule 1)) (.atom (.cls 2))) (.inv (.inv (.bin .any (.atom (.cls 3)) (.atom (.rule 1)))))) 1).isSome = true := by
  decide

/-- `Slug | Optional[int]` splats the members; `Slug & Optional[int]` keeps the Union as ONE wrapped operand -/
example : ((build (.bin .any (.atom (.rule 1)) (.atom (.tunion [.cls 2, .noneV]))) 1).map (fun p => p.1.args.length)) = some 3
    ∧ ((build (.bin .all (.atom (.rule 1)) (.atom (.tunion [.cls 2, .noneV]))) 1).map (fun p => p.1.args.length)) = some 2 := by
  decide

/-! ### known defects of construction (negation witnesses of the unrestricted statements)

Full statements that do NOT hold of the code:
* "duplicates are absorbed" for operands that are re-created at each use (typing generics, literals, combined
  expressions written twice): `C09_combine_dup_absorbed_partial` without the `parsed` hypotheses / with structural
  instead of identity equality;
* "nested combinators of the same kind flatten" for the classmethod constructors (`any_of(a, any_of(b, c))`):
  `C09_ops_wf_flat` with `combine` steps in the expression. -/

mutual
/-- structural equality, ignoring class identity -/
def Ty.structEq : Ty → Ty → Bool
  | .cls a, .cls b => a == b
  | .rule a, .rule b => a == b
  | .dc a, .dc b => a == b
  | .ruleBase, .ruleBase => true
  | .anyT, .anyT => true
  | .noneV, .noneV => true
  | .alias a, .alias b => a == b
  | .lit a, .lit b => a == b
  | .annot a _, .annot b _ => a == b
  | .comb c as _, .comb d bs _ => c == d && Ty.structEqL as bs
  | _, _ => false
def Ty.structEqL : List Ty → List Ty → Bool
  | [], [] => true
  | a :: as, b :: bs => Ty.structEq a b && Ty.structEqL as bs
  | _, _ => false
end

/-- some pair of distinct operand positions holds structurally equal operands -/
def dupPairs : List Ty → Bool
  | [] => false
  | a :: as => as.any (fun b => Ty.structEq a b) || dupPairs as

/-- `KnownDefect.dupByIdentity t`: the top combinator of `t` has two structurally equal operands -/
def KnownDefect.dupByIdentity (t : Ty) : Bool := dupPairs t.args

/-- `KnownDefect.callKeepsNesting t`: an operand of the top combinator is a combinator of the same kind -/
def KnownDefect.callKeepsNesting (t : Ty) : Bool :=
  match t with
  | .comb c as _ => as.any (fun a => a.combinator == some c)
  | _ => false

/-- `Slug ^ List[int] ^ List[int]`: the generic is annotated anew at each use, the two copies are different
classes, and the exclusive-or keeps both (and therefore rejects every list). -/
theorem C09_dup_by_identity_witness :
    ∃ e t u, build e 1 = some (t, u) ∧ KnownDefect.dupByIdentity t = true ∧ t.args.length = 3 :=
  ⟨.bin .one (.bin .one (.atom (.rule 1)) (.atom (.alias 2))) (.atom (.alias 2)), _, _, rfl, by decide, by decide⟩

/-- `LogicalType.any_of(int, LogicalType.any_of(str, float))` stays nested. -/
theorem C09_call_keeps_nesting_witness :
    KnownDefect.callKeepsNesting (combine .any 9 [.cls 1, combine .any 5 [.cls 2, .cls 3]]) = true := by decide

/-- the operators never produce the second defect (corollary of `C09_ops_wf_flat`) -/
theorem C09_ops_no_nesting (e : Expr) (u : Nat) (t : Ty) (u' : Nat) (hat : ∀ a, e.atoms a → GoodOp a)
    (h : build e u = some (t, u')) (hp : t.parsed = true) : KnownDefect.callKeepsNesting t = false := by
  have hf := (C09_ops_wf_flat e u t u' hat h).1.flat hp
  cases hf with
  | leaf _ hc => cases t <;> first | rfl | cases hc
  | comb c as u0 hne _ =>
    simp only [KnownDefect.callKeepsNesting]
    apply List.any_eq_false.mpr
    intro a ha
    simpa using hne a ha

end Utv.C09
