import Utv.Model.C15
import Utv.Lemmas.C13Json
/-! Helper lemmas for C15: `allSome`, `combine`, `annotate`, lookups in a document with distinct member names. -/
set_option linter.unusedSimpArgs false
set_option linter.unusedVariables false
namespace Utv.C15
open Utv.JsonSchema

/-! ### `allSome` -/

theorem allSome_eq_some {α : Type} : (l : List (Option α)) → (r : List α) → allSome l = some r → l = r.map some
  | [], r, h => by simp [allSome] at h; subst h; rfl
  | none :: _, r, h => by simp [allSome] at h
  | some a :: rest, r, h => by
    simp only [allSome] at h
    cases hr : allSome rest with
    | none => simp [hr] at h
    | some r' =>
      simp [hr] at h
      subst h
      simp [allSome_eq_some rest r' hr]

theorem allSome_append {α : Type} (a b : List (Option α)) (r : List α) (h : allSome (a ++ b) = some r) :
    ∃ ra rb, allSome a = some ra ∧ allSome b = some rb ∧ r = ra ++ rb := by
  induction a generalizing r with
  | nil => exact ⟨[], r, rfl, by simpa using h, rfl⟩
  | cons x rest ih =>
    cases x with
    | none => simp [allSome] at h
    | some v =>
      simp only [List.cons_append, allSome] at h
      cases hr : allSome (rest ++ b) with
      | none => simp [hr] at h
      | some r' =>
        simp [hr] at h
        obtain ⟨ra, rb, h1, h2, h3⟩ := ih r' hr
        refine ⟨v :: ra, rb, ?_, h2, ?_⟩
        · simp [allSome, h1]
        · subst h; subst h3; rfl

theorem allSome_mem {α : Type} (l : List (Option α)) (r : List α) (h : allSome l = some r) (a : α) :
    a ∈ r ↔ some a ∈ l := by
  have := allSome_eq_some l r h
  subst this
  simp

/-! ### lookups -/

theorem lookup_of_mem_distinct : (o : Obj) → strDistinct (keys o) = true → ∀ k v, (k, v) ∈ o → lookup k o = some v
  | [], _, k, v, hm => by simp at hm
  | (k', v') :: rest, hd, k, v, hm => by
    simp only [keys, List.map_cons, strDistinct, Bool.and_eq_true, Bool.not_eq_true'] at hd
    simp only [lookup]
    rcases List.mem_cons.mp hm with h | h
    · cases h; simp
    · have hk : (k' == k) = false := by
        cases hkk : (k' == k) with
        | false => rfl
        | true =>
          have : k' = k := by simpa using hkk
          subst this
          have : k' ∈ keys rest := by
            simp only [keys]; exact List.mem_map.mpr ⟨(k', v), h, rfl⟩
          have h2 := hd.1
          simp [keys] at h2 this
          obtain ⟨w, hw⟩ := this
          exact absurd hw (h2 w)
      simp [hk]
      exact lookup_of_mem_distinct rest (by simpa [keys] using hd.2) k v h

theorem mem_of_lookup : (o : Obj) → ∀ k v, lookup k o = some v → (k, v) ∈ o
  | [], k, v, h => by simp [lookup] at h
  | (k', v') :: rest, k, v, h => by
    simp only [lookup] at h
    split at h
    · rename_i hk
      have : k' = k := by simpa using hk
      subst this
      cases h
      simp
    · exact List.mem_cons_of_mem _ (mem_of_lookup rest k v h)

theorem hasKey_of_mem (o : Obj) (k : String) (v : Json) (h : (k, v) ∈ o) : hasKey k o = true := by
  induction o with
  | nil => simp at h
  | cons e rest ih =>
    obtain ⟨k', v'⟩ := e
    simp only [hasKey, lookup]
    split
    · simp
    · rcases List.mem_cons.mp h with h | h
      · cases h; simp_all
      · simpa [hasKey] using ih h

theorem hasKey_iff_mem_keys (o : Obj) (k : String) : hasKey k o = true ↔ k ∈ keys o := by
  induction o with
  | nil => simp [hasKey, lookup, keys]
  | cons e rest ih =>
    obtain ⟨k', v'⟩ := e
    simp only [hasKey, lookup, keys, List.map_cons, List.mem_cons]
    split
    · rename_i hk
      have : k' = k := by simpa using hk
      simp [this]
    · rename_i hk
      have hne : ¬ k = k' := by
        intro h; subst h; simp at hk
      simp only [hne, false_or]
      simpa [hasKey, keys] using ih

/-! ### `combine` -/

theorem sameObj_conforms (R : Rx) (a b : Ty) (j : Json) (h : sameObj a b = true) : conforms R a j = conforms R b j := by
  cases a <;> cases b <;> simp [sameObj] at h
  · rfl
  · subst h; rfl

theorem isAny_conforms (R : Rx) (t : Ty) (j : Json) (h : isAny t = true) : conforms R t j = true := by
  cases t <;> simp [isAny] at h
  simp [conforms]

theorem conformsAll_iff (R : Rx) (ts : List Ty) (j : Json) : conformsAll R ts j = true ↔ ∀ t ∈ ts, conforms R t j = true := by
  induction ts with
  | nil => simp [conformsAll]
  | cons t rest ih => simp [conformsAll, ih]

theorem conformsAny_iff (R : Rx) (ts : List Ty) (j : Json) : conformsAny R ts j = true ↔ ∃ t ∈ ts, conforms R t j = true := by
  induction ts with
  | nil => simp [conformsAny]
  | cons t rest ih => simp [conformsAny, ih]

/-- what the loop of `combine` keeps: the accumulator grows, only arguments are added, and every argument is kept,
skipped as `Any` inside `&`, or already there as the same class object -/
theorem combineArgs_some (op : Op) (hop : op ≠ .neg) : (ts acc r : List Ty) → combineArgs op ts acc = some r →
    (∀ a ∈ acc, a ∈ r) ∧ (∀ a ∈ r, a ∈ acc ∨ a ∈ ts) ∧
    (∀ t ∈ ts, (isAny t = true ∧ op = .all) ∨ ∃ a ∈ r, a = t ∨ sameObj t a = true)
  | [], acc, r, h => by
    simp [combineArgs] at h
    subst h
    simp
  | t :: rest, acc, r, h => by
    simp only [combineArgs] at h
    by_cases hany : isAny t = true
    · simp only [hany, if_true] at h
      by_cases h1 : (op == Op.any || op == Op.one) = true
      · simp [h1] at h
      · simp only [h1] at h
        have hall : op = .all := by
          cases op <;> simp_all
        simp only [hall, beq_self_eq_true, if_true] at h
        have ih := combineArgs_some .all (by simp) rest acc r h
        subst hall
        refine ⟨ih.1, fun a ha => ?_, fun t' ht' => ?_⟩
        · rcases ih.2.1 a ha with h | h
          · exact Or.inl h
          · exact Or.inr (List.mem_cons_of_mem _ h)
        · rcases List.mem_cons.mp ht' with h | h
          · subst h; exact Or.inl ⟨hany, rfl⟩
          · exact ih.2.2 t' h
    · simp only [hany] at h
      simp only [Bool.false_eq_true, if_false] at h
      by_cases hdup : acc.any (sameObj t) = true
      · simp only [hdup, if_true] at h
        have ih := combineArgs_some op hop rest acc r h
        refine ⟨ih.1, fun a ha => ?_, fun t' ht' => ?_⟩
        · rcases ih.2.1 a ha with h | h
          · exact Or.inl h
          · exact Or.inr (List.mem_cons_of_mem _ h)
        · rcases List.mem_cons.mp ht' with h | h
          · subst h
            obtain ⟨a, ha, hs⟩ := List.any_eq_true.mp hdup
            exact Or.inr ⟨a, ih.1 a ha, Or.inr hs⟩
          · exact ih.2.2 t' h
      · simp only [hdup] at h
        simp only [Bool.false_eq_true, if_false] at h
        have ih := combineArgs_some op hop rest (acc ++ [t]) r h
        refine ⟨fun a ha => ih.1 a (List.mem_append_left _ ha), fun a ha => ?_, fun t' ht' => ?_⟩
        · rcases ih.2.1 a ha with h | h
          · rcases List.mem_append.mp h with h | h
            · exact Or.inl h
            · simp at h; subst h; exact Or.inr (by simp)
          · exact Or.inr (List.mem_cons_of_mem _ h)
        · rcases List.mem_cons.mp ht' with h | h
          · subst h
            exact Or.inr ⟨t', ih.1 t' (by simp), Or.inl rfl⟩
          · exact ih.2.2 t' h

theorem combineArgs_none (op : Op) : (ts acc : List Ty) → combineArgs op ts acc = none → ∃ t ∈ ts, isAny t = true
  | [], acc, h => by simp [combineArgs] at h
  | t :: rest, acc, h => by
    simp only [combineArgs] at h
    by_cases hany : isAny t = true
    · exact ⟨t, by simp, hany⟩
    · simp only [hany] at h
      simp only [Bool.false_eq_true, if_false] at h
      obtain ⟨t', ht', h'⟩ := combineArgs_none op rest _ h
      exact ⟨t', List.mem_cons_of_mem _ ht', h'⟩

/-- the value of `combine op ts` given what the loop returned -/
theorem conforms_combine_of (R : Rx) (op : Op) (ts : List Ty) (j : Json) (r : List Ty)
    (h : combineArgs op ts [] = some r) (hop : op ≠ .neg) :
    conforms R (combine op ts) j = (if r.isEmpty then true else conforms R (.logic op r) j) := by
  simp only [combine, h]
  match r with
  | [] => simp [conforms]
  | [t] =>
    have : (op == Op.neg) = false := by cases op <;> simp_all
    simp [this]
    cases op <;> simp [conforms, conformsAll, conformsAny] at hop ⊢
  | a :: b :: rest => simp

theorem combineArgs_all_ne_none : (ts acc : List Ty) → combineArgs .all ts acc ≠ none
  | [], acc => by simp [combineArgs]
  | t :: rest, acc => by
    simp only [combineArgs]
    by_cases hany : isAny t = true
    · simp [hany]
      exact combineArgs_all_ne_none rest acc
    · simp [hany]
      exact combineArgs_all_ne_none rest _

theorem conforms_combine_all (R : Rx) (ts : List Ty) (j : Json) (h : conforms R (combine .all ts) j = true) :
    ∀ t ∈ ts, conforms R t j = true := by
  cases hc : combineArgs .all ts [] with
  | none =>
    intro t ht
    -- `&` never returns early
    exact absurd hc (combineArgs_all_ne_none ts [])
  | some r =>
    rw [conforms_combine_of R .all ts j r hc (by simp)] at h
    have hs := combineArgs_some .all (by simp) ts [] r hc
    intro t ht
    rcases hs.2.2 t ht with ⟨hany, _⟩ | ⟨a, ha, hta⟩
    · exact isAny_conforms R t j hany
    · have hr : r.isEmpty = false := by cases r <;> simp_all
      simp only [hr, Bool.false_eq_true, if_false, conforms] at h
      have := (conformsAll_iff R r j).mp h a ha
      rcases hta with h1 | h1
      · subst h1; exact this
      · rw [sameObj_conforms R t a j h1]; exact this

theorem conforms_combine_any (R : Rx) (op : Op) (hop : op = .any ∨ op = .one) (ts : List Ty) (hne : ts ≠ []) (j : Json)
    (h : conforms R (combine op ts) j = true) : ∃ t ∈ ts, conforms R t j = true := by
  have hopn : op ≠ .neg := by rcases hop with h | h <;> subst h <;> simp
  cases hc : combineArgs op ts [] with
  | none =>
    obtain ⟨t, ht, hany⟩ := combineArgs_none op ts [] hc
    exact ⟨t, ht, isAny_conforms R t j hany⟩
  | some r =>
    rw [conforms_combine_of R op ts j r hc hopn] at h
    have hs := combineArgs_some op hopn ts [] r hc
    have hr : r.isEmpty = false := by
      cases r with
      | nil =>
        cases ts with
        | nil => exact absurd rfl hne
        | cons t rest =>
          rcases hs.2.2 t (by simp) with ⟨_, hall⟩ | ⟨a, ha, _⟩
          · rcases hop with h | h <;> subst h <;> simp at hall
          · simp at ha
      | cons a rest => rfl
    simp only [hr, Bool.false_eq_true, if_false] at h
    have h' : conformsAny R r j = true := by
      rcases hop with h1 | h1 <;> subst h1 <;> simpa [conforms] using h
    obtain ⟨a, ha, hca⟩ := (conformsAny_iff R r j).mp h'
    rcases hs.2.1 a ha with h1 | h1
    · simp at h1
    · exact ⟨a, h1, hca⟩

end Utv.C15
