/-
C08 — model of `utype.parser.func.FunctionParser` (signature analysis, parse_params, get_params, the call,
the result) and of the keyword half it delegates to, `BaseParser.parse_data` (utype/parser/base.py:353-619),
as it stands after the `fix:` patches fixes/C08-*.patch.  Hand-written, branch for branch; tied to the code by
the correspondence run (harness/c08.py): the same declarations and calls go through the real `@utype.parse`
and through `callDecl` below and every outcome is compared.

Names `N`, values `V` and annotation types `T` are abstract; the transformer (`context.transformer(value, type)`),
the private-name test (`name.startswith('_')`, base.py:270-272) and `str.lower` are the fields of `World`, so every
theorem holds for all of them.

Abstractions (each is the property's business only through its outcome class):
* `handle_error` — without `collect_errors` the first ParseError is raised on the spot, with it parsing goes on and
  `context.raise_error()` (func.py:664) raises before the function is called.  Either way the caller sees a
  ParseError and the body does not run, and no step after a collected error can leave through any other door, so
  the model stops at the first error (`Except Err`).  What `collect_errors` changes is C10's subject.
* the dictionaries `fields`, `field_alias_map`, `attr_alias_map` and the set `case_insensitive_names`
  (base.py:277-332) are represented by the list of fields with their accepted spellings (`Param.allNames`);
  `get_field` (base.py:138-152) is `resolve`.
-/
namespace Utv.C08

/-- `context.transformer`, `BaseParser.validate_field_name`, `str.lower`, and the `None` object -/
structure World (N V T : Type) where
  conv  : T → V → Option V          -- none = the transformer raises
  priv  : N → Bool
  lower : N → N
  noneV : V
  isInst : V → Bool                -- `isinstance(first, from_class)` / `issubclass(first, from_class)` for a classmethod

/-- one positional-or-keyword / positional-only / keyword-only parameter of the declaration -/
structure Param (N V T : Type) where
  name      : N                      -- the Python identifier (`attname`)
  posOnly   : Bool := false          -- declared before `/`
  ann       : Option T := none       -- annotation
  dflt      : Option V := none       -- plain default or `Param(default)`; none = required (field.py:122-154)
  alias     : Option N := none       -- `Param(alias=…)`
  aliasFrom : List N := []           -- `Param(alias_from=[…])`
  ci        : Bool := false          -- `Param(case_insensitive=…)`, else `Options.case_insensitive` (field.py:751-754)
  pyDefault : Bool := false          -- the declaration reads `name = <expr>` (a `Param(...)` without default included)
  deriving Repr, DecidableEq

/-- a signature: `pos` are the parameters before `*` (positional-only ones first — Python's own syntax),
`vp` = `*name: ann`, `kos` the keyword-only ones, `vk` = `**name: ann` -/
structure Sig (N V T : Type) where
  pos : List (Param N V T) := []
  vp  : Option (N × Option T) := none
  kos : List (Param N V T) := []
  vk  : Option (N × Option T) := none
  deriving Repr

/-- what the body of the function is entered with -/
structure Binding (N V : Type) where
  pos   : List V                     -- one value per parameter of `Sig.pos`
  star  : List V                     -- `*args`
  kos   : List V                     -- one value per keyword-only parameter
  dstar : List (N × V)               -- `**kwargs`, in call order
  deriving Repr, DecidableEq

inductive Err where
  | perr                             -- an instance of `utype.exc.ParseError`
  deriving Repr, DecidableEq

inductive Outcome (N V : Type) where
  | body (b : Binding N V)           -- the body ran, with this binding
  | perr                             -- ParseError before the body
  | tyerr                            -- Python's own TypeError from `func(*args, **kwargs)` (func.py:951), body not entered
  deriving Repr, DecidableEq

/-- the options that reach `parse_params` -/
structure Opts where
  dfs : Option Bool := some false    -- `Options.data_first_search` (options.py:89: default False; None = decide by shape)
  ignoreAliasConflicts : Bool := false
  addition : Option Bool := none     -- the decorator's `Options(addition=…)`: unset/None; False; True or a type (= some true)
  noDataLoss : Bool := false         -- `Options(no_data_loss=True)`: implies addition=False when addition is not given
  ignoreRequired : Bool := false     -- `Options(ignore_required=True)` (only steers the search strategy here)
  deriving Repr

/-- what `options.addition` is at parse time -/
inductive Addition (T : Type) where
  | drop                             -- None: unknown keys are ignored silently (base.py:412-414)
  | deny                             -- False: unknown keys are an ExceedError (base.py:409-411)
  | allow (t : Option T)             -- True / a type: unknown keys are kept, converted to the type
  deriving Repr

/-- `Options.__init__` (options.py:151-156): `no_data_loss` turns an unset `addition` into False -/
def Opts.userAddition (o : Opts) : Option Bool :=
  match o.addition with
  | some b => some b
  | none => if o.noDataLoss then some false else none

variable {N V T : Type} [DecidableEq N] [DecidableEq V]

/-! ### where a parameter's `Param(...)` comes from (field.py:1100-1108, 1313-1325) -/

/-- one item of `Annotated[T, m₁, m₂, …].__metadata__`: a utype Field/Param (with its settings `S`) or anything else
(a doc string, a unit marker, …); nested `Annotated` aliases are flattened by `typing` into one such list -/
inductive Meta (S : Type) where
  | other
  | param (s : S)
  deriving Repr

/-- `ParserField.generate`: the FIRST metadata item that is a Field is the parameter's field, whatever precedes it
(`process_annotate_meta` answers None for everything else and the loop goes on) -/
def findParam {S : Type} : List (Meta S) → Option S
  | [] => none
  | .param s :: _ => some s
  | .other :: rest => findParam rest

/-! ### Python's binding (the specification's core, also what `func(*args, **kwargs)` does at func.py:951) -/

/-- positional slots: arguments fill them left to right; a slot already filled must not be named again;
an empty slot takes the keyword of its name (unless positional-only) or its default -/
def bindPos (kw : List (N × V)) : List (Param N V T) → List V → Option (List V)
  | [], _ => some []
  | p :: ps, a :: as =>
      if !p.posOnly && (kw.lookup p.name).isSome then none        -- "got multiple values for argument"
      else (bindPos kw ps as).map (a :: ·)
  | p :: ps, [] =>
      match (if p.posOnly then none else kw.lookup p.name) <|> p.dflt with
      | none => none                                              -- "missing required argument"
      | some v => (bindPos kw ps []).map (v :: ·)

def bindKos (kw : List (N × V)) : List (Param N V T) → Option (List V)
  | [] => some []
  | p :: ps =>
      match kw.lookup p.name <|> p.dflt with
      | none => none
      | some v => (bindKos kw ps).map (v :: ·)

/-- `k` names a parameter that may be passed by keyword -/
def Sig.kwTarget (s : Sig N V T) (k : N) : Bool :=
  s.pos.any (fun p => !p.posOnly && p.name == k) || s.kos.any (fun p => p.name == k)

/-- CPython's argument binding of `f(*args, **kw)` (keys of `kw` distinct) -/
def pyBindCore (s : Sig N V T) (args : List V) (kw : List (N × V)) : Option (Binding N V) :=
  if s.vp.isNone && s.pos.length < args.length then none          -- "takes n positional arguments but m were given"
  else
    match bindPos kw s.pos args, bindKos kw s.kos with
    | some ps, some ks =>
        let extra := kw.filter (fun e => !s.kwTarget e.1)
        if s.vk.isNone && !extra.isEmpty then none                -- "got an unexpected keyword argument"
        else some ⟨ps, args.drop s.pos.length, ks, extra⟩
    | _, _ => none

/-! ### signature analysis (func.py:125-308, 390-464; anchors: utype at 7b3aeda) -/

def convBy (W : World N V T) (t : Option T) (v : V) : Except Err V :=
  match t with
  | none => .ok v                                                 -- field.py:1059-1061 / func.py:580-581
  | some t => match W.conv t v with
    | some v' => .ok v'
    | none => .error .perr

/-- every spelling `get_field` accepts for a field: `name` (= alias or attname), then the attname, then
`alias_from` (field.py:287-322, 467-476), lower-cased when the field is case-insensitive (field.py:554-559).
(The code de-duplicates this list; duplicates change neither membership nor the scan of `field_first_parse`.) -/
def Param.allNames (W : World N V T) (p : Param N V T) : List N :=
  let all := p.alias.getD p.name :: p.name :: p.aliasFrom
  if p.ci then all.map W.lower else all

/-- `generate_fields` (func.py:390-464): parameters whose name passes `validate_field_name`, in declaration order -/
def Sig.fields (W : World N V T) (s : Sig N V T) : List (Param N V T) :=
  (s.pos ++ s.kos).filter (fun p => !W.priv p.name)

/-- `exclude_vars` (func.py:397-401): every declared name that is not a field name, `*args`/`**kwargs` included -/
def Sig.excludeVars (W : World N V T) (s : Sig N V T) : List N :=
  ((s.pos ++ s.kos).map (·.name) ++ (s.vp.map (·.1)).toList ++ (s.vk.map (·.1)).toList).filter W.priv

/-- `case_insensitive_names` (base.py:298-299) -/
def ciNames (W : World N V T) (fs : List (Param N V T)) : List N :=
  (fs.filter (·.ci)).flatMap (·.allNames W)

/-- `get_field(key)` (base.py:141-155): exact spelling first, then the lower-cased key among the
case-insensitive names.  (`not key.islower()` only skips a lookup that has just failed.) -/
def resolve (W : World N V T) (fs : List (Param N V T)) (k : N) : Option (Param N V T) :=
  match fs.find? (fun f => (f.allNames W).contains k) with
  | some f => some f
  | none =>
    if (ciNames W fs).contains (W.lower k) then fs.find? (fun f => (f.allNames W).contains (W.lower k))
    else none

/-- `assign_search_strategy` (base.py:173-187) + `parse_data` (base.py:389-393) -/
def useDfs (W : World N V T) (s : Sig N V T) (o : Opts) : Bool :=
  match o.dfs with
  | some b => b
  | none =>
    let fs := s.fields W
    !(ciNames W fs).isEmpty || fs.any (fun f => f.alias.isSome || !f.aliasFrom.isEmpty) || o.ignoreRequired
      || s.vk.isSome || o.userAddition == some true

/-! ### dictionaries as association lists -/

/-- `d[k] = v` : replace in place, or append -/
def dictSet {β : Type} (d : List (N × β)) (k : N) (v : β) : List (N × β) :=
  if (d.lookup k).isSome then d.map (fun e => if e.1 = k then (k, v) else e) else d ++ [(k, v)]

/-! ### `parse_addition` (func.py:604-609, base.py:411-442) -/

/-- The effective `options.addition` of a decorated function (func.py:242-248): a declared `**kwargs` appends
`Options(addition=<its annotation, else True>)` AFTER the decorator's options in `generate_from`, so the declaration
wins over whatever `addition` the decorator's Options carry (also the False implied by `no_data_loss`); without
`**kwargs` the decorator's value stands. -/
def effAddition (s : Sig N V T) (o : Opts) : Addition T :=
  match s.vk with
  | some (_, t) => .allow t
  | none =>
    match o.userAddition with
    | none => .drop
    | some false => .deny
    | some true => .allow none       -- rejected at declaration time, see `declOk`

/-- func.py:253-257: a truthy `addition` without a `**kwargs` parameter is a ConfigError when the function is decorated -/
def declOk (s : Sig N V T) (o : Opts) : Bool :=
  !(s.vk.isNone && o.userAddition == some true)

def parseAddition (W : World N V T) (s : Sig N V T) (o : Opts) (k : N) (v : V) : Except Err (Option V) :=
  if (s.excludeVars W).contains k then
    -- excluded vars are never carried; where unknown keys are refused (addition=False, implied by no_data_loss) they
    -- are refused too instead of being dropped silently (func.py:604-610, base.py:411-418)
    match effAddition s o with
    | .deny => .error .perr                                       -- ExceedError
    | _ => .ok none
  else match effAddition s o with
    | .drop => .ok none                                           -- dropped silently
    | .deny => .error .perr                                       -- ExceedError
    | .allow t => (convBy W t v).map some                         -- addition=True / addition=<annotation of **kw>

/-! ### `data_first_parse` (base.py:444-555, two-phase since the C06 repairs), `as_attname=True` -/

/-- what was given for one name: the field it goes to (none = an additional key), the value, and the rank of the key
in the field's `all_aliases` -/
structure Inp (N V T : Type) where
  fld  : Option (Param N V T)
  val  : V
  rank : Nat

/-- `field.all_aliases.index(key if key in field.all_aliases else key.lower())` (base.py:476) -/
def rankOf (W : World N V T) (f : Param N V T) (k : N) : Nat :=
  (f.allNames W).idxOf (if (f.allNames W).contains k then k else W.lower k)

/-- phase 1 (base.py:466-492): `inputs` in input order — of several accepted keys of one field the one of least rank
is used, a differing duplicate is remembered in `conflicts` (first one only: `setdefault`) -/
def dfCollect (W : World N V T) (s : Sig N V T) :
    List (N × V) → List (N × Inp N V T) → List (N × V) → List (N × Inp N V T) × List (N × V)
  | [], i, c => (i, c)
  | (k, v) :: rest, i, c =>
    match resolve W (s.fields W) k with
    | some f =>
      if f.posOnly then dfCollect W s rest (dictSet i k ⟨none, v, 0⟩) c     -- an ordinary additional key
      else
        match i.lookup f.name with
        | some e =>
          let c' := if e.val != v && (c.lookup f.name).isNone then c ++ [(f.name, v)] else c
          if rankOf W f k ≥ e.rank then dfCollect W s rest i c'
          else dfCollect W s rest (dictSet i f.name ⟨some f, v, rankOf W f k⟩) c'
        | none => dfCollect W s rest (dictSet i f.name ⟨some f, v, rankOf W f k⟩) c
    | none => dfCollect W s rest (dictSet i k ⟨none, v, 0⟩) c

/-- phase 2 (base.py:494-527): the inputs in input order -/
def dfApply (W : World N V T) (s : Sig N V T) (o : Opts) (excluded : List N) (conflicts : List (N × V)) :
    List (N × Inp N V T) → List (N × V) → List (N × V) → Except Err (List (N × V) × List (N × V))
  | [], r, a => .ok (r, a)
  | (name, e) :: rest, r, a =>
    match e.fld with
    | none =>
      match parseAddition W s o name e.val with
      | .error err => .error err
      | .ok av => dfApply W s o excluded conflicts rest r (match av with | some x => dictSet a name x | none => a)
    | some f =>
      if (conflicts.lookup name).isSome && !o.ignoreAliasConflicts then .error .perr   -- AliasConflictError
      else if excluded.contains name then dfApply W s o excluded conflicts rest r a
      else match convBy W f.ann e.val with
        | .error err => .error err
        | .ok p => dfApply W s o excluded conflicts rest (dictSet r name p) a

/-- base.py:529-541: fields that were not given — required ones are an AbsenceError, the others get their default -/
def dfDefaults (given : N → Bool) (excluded : List N) : List (Param N V T) → List (N × V) → Except Err (List (N × V))
  | [], r => .ok r
  | f :: fs, r =>
    if given f.name || excluded.contains f.name then dfDefaults given excluded fs r
    else match f.dflt with
      | none => .error .perr
      | some d => dfDefaults given excluded fs (dictSet r f.name d)

def dictUpdate (d : List (N × V)) : List (N × V) → List (N × V)
  | [] => d
  | (k, v) :: rest => dictUpdate (dictSet d k v) rest

def dataFirst (W : World N V T) (s : Sig N V T) (o : Opts) (excluded : List N) (data : List (N × V)) :
    Except Err (List (N × V)) :=
  let (inputs, conflicts) := dfCollect W s data [] []
  match dfApply W s o excluded conflicts inputs [] [] with
  | .error e => .error e
  | .ok (r, a) =>
    match dfDefaults (fun x => (inputs.lookup x).isSome) excluded (s.fields W) r with
    | .error e => .error e
    | .ok r' => .ok (dictUpdate r' a)

/-! ### `field_first_parse` (base.py:557-692), `as_attname=True` -/

/-- base.py:519-533 (after fix C08-ff-kwargs-key-case): the key a given key is looked up by — lower-cased when that
is a case-insensitive name -/
def ffKey (W : World N V T) (fs : List (Param N V T)) (k : N) : N :=
  if (ciNames W fs).contains (W.lower k) then W.lower k else k

/-- base.py:573-591: the dict the fields are looked up in, and the differing duplicates met while building it — the
same key in another letter case is one more alias of the field: the first one is used, a different value is
remembered as a conflict (first one only) -/
def prepStep (K : N → N) (dc : List (N × V) × List (N × V)) (e : N × V) : List (N × V) × List (N × V) :=
  match dc.1.lookup (K e.1) with
  | some x => (dc.1, if x != e.2 && (dc.2.lookup (K e.1)).isNone then dc.2 ++ [(K e.1, e.2)] else dc.2)
  | none => (dc.1 ++ [(K e.1, e.2)], dc.2)

def ffPrep (W : World N V T) (fs : List (Param N V T)) (data : List (N × V)) : List (N × V) × List (N × V) :=
  if (ciNames W fs).isEmpty then (data, [])
  else data.foldl (prepStep (ffKey W fs)) ([], [])

/-- base.py:608-624: the spellings of one field, in order; two present spellings must carry equal values, and a
spelling that absorbed a differing letter-case duplicate is a conflict as well (reported once the field takes the
input, which it does whenever a spelling is present) -/
def ffScan (o : Opts) (data conflicts : List (N × V)) : List N → Option V → Except Err (Option V)
  | [], acc => .ok acc
  | al :: als, acc =>
    match data.lookup al with
    | none => ffScan o data conflicts als acc
    | some x =>
      if o.ignoreAliasConflicts then .ok (some x)                    -- `break` at the first spelling found
      else
        match acc with
        | none =>
          if (conflicts.lookup al).isSome then .error .perr
          else ffScan o data conflicts als (some x)
        | some v =>
          if x != v then .error .perr                                -- AliasConflictError
          else if (conflicts.lookup al).isSome then .error .perr
          else ffScan o data conflicts als (some v)

def ffLoop (W : World N V T) (o : Opts) (excluded : List N) (data conflicts : List (N × V)) :
    List (Param N V T) → List (N × V) → List N → Except Err (List (N × V) × List N)
  | [], r, u => .ok (r, u)
  | f :: fs, r, u =>
    if excluded.contains f.name then ffLoop W o excluded data conflicts fs r u
    else match ffScan o data conflicts (f.allNames W) none with
      | .error e => .error e
      | .ok none =>
        match f.dflt with
        | none => .error .perr                                     -- AbsenceError
        | some d => ffLoop W o excluded data conflicts fs (dictSet r f.name d) u
      | .ok (some v) =>
        match convBy W f.ann v with
        | .error e => .error e
        | .ok p => ffLoop W o excluded data conflicts fs (dictSet r f.name p) (u ++ f.allNames W)

/-- base.py:612-624: the keys no field consumed, under the spelling they were given in -/
def ffAddition (W : World N V T) (s : Sig N V T) (o : Opts) (used : List N) :
    List (N × V) → List (N × V) → Except Err (List (N × V))
  | [], a => .ok a
  | (k, v) :: rest, a =>
    if used.contains (ffKey W (s.fields W) k) then ffAddition W s o used rest a
    else match parseAddition W s o k v with
      | .error e => .error e
      | .ok av => ffAddition W s o used rest (match av with | some x => dictSet a k x | none => a)

def fieldFirst (W : World N V T) (s : Sig N V T) (o : Opts) (excluded : List N) (data : List (N × V)) :
    Except Err (List (N × V)) :=
  match ffLoop W o excluded (ffPrep W (s.fields W) data).1 (ffPrep W (s.fields W) data).2 (s.fields W) [] [] with
  | .error e => .error e
  | .ok (r, u) =>
    match effAddition s o with
    | .drop => .ok r                                               -- `options.addition is None`: no addition pass
    | _ =>
      match ffAddition W s o u data [] with
      | .error e => .error e
      | .ok a => .ok (dictUpdate r a)

def parseData (W : World N V T) (s : Sig N V T) (o : Opts) (excluded : List N) (data : List (N × V)) :
    Except Err (List (N × V)) :=
  if useDfs W s o then dataFirst W s o excluded data else fieldFirst W s o excluded data

/-! ### `parse_params` (func.py:611-680) -/

/-- step 2 (func.py:653-675): positional-only fields that were not given, as the
values appended to `parsed_args` (a prefix of the slots of `ps`).  `contig` = every slot so far could be filled.
A positional-only field appends its default when the slots before it are filled; an omitted private parameter's own
declared default is appended exactly when a later positional-only default needs the slot after it (the `while`
loop of the fix runs only then), i.e. when the rest appends something. -/
def fillPo (W : World N V T) : List (Param N V T) → Bool → Except Err (List V)
  | [], _ => .ok []
  | p :: ps, contig =>
    if p.posOnly && !W.priv p.name then
      match p.dflt with
      | none => .error .perr                                       -- AbsenceError (func.py:650-652)
      | some d =>
        if contig then (fillPo W ps true).map (fun r => d :: r)
        else fillPo W ps false
    else if W.priv p.name && contig then
      match p.dflt with
      | some d => (fillPo W ps true).map (fun r => if r.isEmpty then [] else d :: r)
      | none => fillPo W ps false
    else fillPo W ps false

/-- names appended to `parsed_keys` by step 2 -/
def poFieldNames (W : World N V T) (ps : List (Param N V T)) : List N :=
  (ps.filter (fun p => p.posOnly && !W.priv p.name)).map (·.name)

/-- step 1 + step 2 in lock-step over the positional parameters and the given arguments: returns
`parsed_args` and `parsed_keys` -/
def posStage (W : World N V T) (s : Sig N V T) : List (Param N V T) → List V → Except Err (List V × List N)
  | ps, [] =>
    match fillPo W ps true with
    | .error e => .error e
    | .ok fill => .ok (fill, poFieldNames W ps)
  | [], a :: as =>
    match s.vp with
    | some (_, t) =>                                               -- `*args`: parse_pos_type (func.py:580-602)
      match (a :: as).mapM (convBy W t) with
      | .error e => .error e
      | .ok vs => .ok (vs, [])
    | none => .ok ([], [])                                         -- "excess var ignore" (func.py:640-642)
  | p :: ps, a :: as =>
    if W.priv p.name then                                          -- excluded index: passed through (func.py:635-639)
      match posStage W s ps as with
      | .error e => .error e
      | .ok (vs, ks) => .ok (a :: vs, ks)
    else
      match convBy W p.ann a with                                  -- positional field (func.py:623-633)
      | .error e => .error e
      | .ok v =>
        match posStage W s ps as with
        | .error e => .error e
        | .ok (vs, ks) => .ok (v :: vs, p.name :: ks)

def parseParams (W : World N V T) (s : Sig N V T) (o : Opts) (args : List V) (kw : List (N × V)) :
    Except Err (List V × List (N × V)) :=
  match posStage W s s.pos args with
  | .error e => .error e
  | .ok (args', keys) =>
    match parseData W s o keys kw with
    | .error e => .error e
    | .ok kw' => .ok (args', kw')

/-- names of the positional-or-keyword fields that the given arguments bind by position (func.py:627-634) -/
def boundNames (W : World N V T) : List (Param N V T) → List V → List N
  | p :: ps, _ :: as => if !W.priv p.name && !p.posOnly then p.name :: boundNames W ps as else boundNames W ps as
  | _, _ => []

/-- func.py:627-642 (fix C06-dup-positional-keyword): a keyword that `get_field` maps — under any spelling the field
accepts — to a field already bound by position: Python's "got multiple values for argument", raised before anything
is parsed -/
def dupBound (W : World N V T) (s : Sig N V T) (args : List V) (kw : List (N × V)) : Bool :=
  kw.any fun e =>
    match resolve W (s.fields W) e.1 with
    | some f => (boundNames W s.pos args).contains f.name
    | none => false

/-- how `parse_params` / `get_params` fail -/
inductive PErr where
  | perr                             -- a ParseError
  | tyerr                            -- the bare TypeError of the duplicate check
  deriving Repr, DecidableEq

/-- `parse_params` with its duplicate check in front -/
def parseParamsD (W : World N V T) (s : Sig N V T) (o : Opts) (args : List V) (kw : List (N × V)) :
    Except PErr (List V × List (N × V)) :=
  if dupBound W s args kw then .error .tyerr
  else match parseParams W s o args kw with
    | .error _ => .error .perr
    | .ok x => .ok x

def PErr.outcome : PErr → Outcome N V
  | .perr => .perr
  | .tyerr => .tyerr

/-- `sync_call` (func.py:978-995) for a function without a reserved first parameter, up to the entry of the body -/
def call (W : World N V T) (s : Sig N V T) (o : Opts) (args : List V) (kw : List (N × V)) : Outcome N V :=
  match parseParamsD W s o args kw with
  | .error e => e.outcome
  | .ok (args', kw') =>
    match pyBindCore s args' kw' with
    | none => .tyerr
    | some b => .body b

/-! ### the reserved first parameter: `analyze_func`, `__init__` (func.py:95-190), `get_params` (func.py:682-719) -/

/-- how the decorated object reaches `FunctionParser` -/
structure Ctx where
  isStatic  : Bool := false    -- a `staticmethod` object
  isClassm  : Bool := false    -- a `classmethod` object
  fromClass : Bool := false    -- patched by `apply_class`
  dotted    : Bool := false    -- `__qualname__` ends in ".<name>" without "<locals>." (infer_instancemethod)
  deriving Repr

/-- func.py:95-107, 148-181 -/
def firstReserve (c : Ctx) (full : Sig N V T) : Bool :=
  if c.isClassm then true
  else if c.isStatic then false
  else if c.fromClass then true
  else
    match full.pos with
    | p :: _ => c.dotted && !p.pyDefault && p.ann.isNone         -- "guess instance method"
    | [] => false

/-- `get_params` (func.py:684-719): the reserved first parameter is taken off, the rest goes through `parse_params`,
then — for a method of a class decorated as a whole — the first argument must be an instance (a subclass, for a
classmethod) of that class: otherwise InvalidInstance / InvalidSubclass, both ParseErrors, before the function is
called.  `full` is the declared signature, first parameter included. -/
def getParams (W : World N V T) (c : Ctx) (full : Sig N V T) (o : Opts) (args : List V) (kw : List (N × V)) :
    Except PErr (List V × List (N × V)) :=
  match firstReserve c full, full.pos with
  | true, r :: ps =>
    let s : Sig N V T := { full with pos := ps }
    -- func.py:703-708: the first positional argument, else (fix C08-reserve-kw) the keyword of that name, else None
    let (first, args1, kw1) :=
      match args with
      | a :: as => (a, as, kw)
      | [] => match kw.lookup r.name with
        | some v => (v, [], kw.filter (fun e => e.1 != r.name))
        | none => (W.noneV, [], kw)
    match parseParamsD W s o args1 kw1 with
    | .error e => .error e
    | .ok (args', kw') =>
      if c.fromClass && !W.isInst first then .error .perr
      else .ok (first :: args', kw')
  | _, _ => parseParamsD W full o args kw

/-- `func(*args, **kwargs)` (func.py:978) -/
def rawCall (full : Sig N V T) (ak : List V × List (N × V)) : Outcome N V :=
  match pyBindCore full ak.1 ak.2 with
  | none => .tyerr
  | some b => .body b

/-- a call of the decorated object up to the entry of the body -/
def callDecl (W : World N V T) (c : Ctx) (full : Sig N V T) (o : Opts) (args : List V) (kw : List (N × V)) :
    Outcome N V :=
  match getParams W c full o args kw with
  | .error e => e.outcome
  | .ok ak => rawCall full ak

/-! ### the result (func.py:721-730, 979-981) -/

inductive Result (V : Type) where
  | ok (v : V)
  | perr
  deriving Repr, DecidableEq

def parseResult (W : World N V T) (ret : Option T) (r : V) : Result V :=
  match convBy W ret r with
  | .ok v => .ok v
  | .error _ => .perr

/-- what the caller of a decorated function gets -/
inductive Ret (N V : Type) where
  | returned (b : Binding N V) (v : V)   -- the body ran with binding `b`; `v` is handed to the caller
  | resultErr (b : Binding N V)          -- the body ran; its result does not convert: ParseError (func.py:727-737)
  | perr                                 -- ParseError before the body
  | tyerr                                -- Python's TypeError from the raw call
  deriving Repr, DecidableEq

/-- `sync_call` after the raw call (func.py:978-981): the body's result (a function of the binding it saw) goes
through `parse_result` -/
def finish (W : World N V T) (ret : Option T) (body : Binding N V → V) : Outcome N V → Ret N V
  | .body b => match parseResult W ret (body b) with
    | .ok v => .returned b v
    | .perr => .resultErr b
  | .perr => .perr
  | .tyerr => .tyerr

/-- a synchronous call of the decorated object, result included -/
def callR (W : World N V T) (c : Ctx) (full : Sig N V T) (o : Opts) (ret : Option T) (body : Binding N V → V)
    (args : List V) (kw : List (N × V)) : Ret N V :=
  finish W ret body (callDecl W c full o args kw)

/-- calling a decorated coroutine function: either an exception right at the call, or an awaitable with its outcome -/
inductive CoroRet (N V : Type) where
  | raisedAtCall (e : PErr)
  | awaited (r : Ret N V)
  deriving Repr, DecidableEq

/-- `get_async_call` / `get_async_result` (func.py:929-960, 983-990): `eager_call` runs `get_params` when called and
hands the raw call + `parse_result` to a coroutine; the lazy wrapper awaits `eager_call` inside its own coroutine, so
nothing happens before the await -/
def coroCall (eager : Bool) (W : World N V T) (c : Ctx) (full : Sig N V T) (o : Opts) (ret : Option T)
    (body : Binding N V → V) (args : List V) (kw : List (N × V)) : CoroRet N V :=
  match getParams W c full o args kw with
  | .error e => if eager then .raisedAtCall e else .awaited (finish W ret body e.outcome)
  | .ok ak => .awaited (finish W ret body (rawCall full ak))

/-! ### generators as Mealy machines (func.py:732-927) -/

/-- one resumption of a raw generator function's generator: `none` input = `next()`, `some x` = `send(x)`.  Besides
yielding a value or returning, the body may hand over to another generator by yielding it (tail delegation, which the
wrappers unwrap: func.py:756-761, 849-853); `delegate st` carries the start state of that generator. -/
inductive RawStep (σ V : Type) where
  | yield (v : V) (st : σ)
  | ret (r : Option V)               -- StopIteration(value); `none` = returned None / fell off the end
  | delegate (st : σ)
  deriving Repr

/-- what one turn of a wrapper's loop gets out of the generator(s) it drives -/
inductive Step (σ V : Type) where
  | yield (v : V) (st : σ)
  | ret (r : Option V)
  | escaped                          -- Python's TypeError "can't send non-None value to a just-started generator"
  | diverged                         -- an endless chain of hand-overs (the model's fuel ran out)
  deriving Repr

/-- The wrappers' loop around a hand-over: the yielded generator replaces the current one and the loop turns again.
`reset` = the pending sent value is cleared first (`sent = None`; async_from_generator, and sync_from_generator after
fix C08-sync-delegate-sent): the new generator is resumed with `next()`.  Without the reset the value sent to the old
generator is sent again to the just-started one, which CPython refuses. -/
def hop (reset : Bool) {σ : Type} (raw : σ → Option V → RawStep σ V) : Nat → σ → Option V → Step σ V
  | 0, _, _ => .diverged
  | fuel + 1, st, inp =>
    match raw st inp with
    | .yield v st' => .yield v st'
    | .ret r => .ret r
    | .delegate st' =>
      match (if reset then none else inp) with
      | some _ => .escaped
      | none => hop reset raw fuel st' none

/-- what the caller of a generator observes at one resumption -/
inductive Ev (V : Type) where
  | yielded (v : V)
  | returned (r : Option V)
  | raised                           -- ParseError out of the wrapper
  | escaped                          -- any other exception
  | diverged
  deriving Repr, DecidableEq

structure GenTypes (T : Type) where
  yieldT : Option T := none
  sendT  : Option T := none
  retT   : Option T := none
  deriving Repr

/-- `sync_from_generator` (func.py:732-791) / `async_from_generator` (func.py:838-883), driven by
the caller: `inp` is what the raw generator is resumed with now (`none` = `next()`), `rest` the caller's later
inputs.  The wrapper converts a sent value right after receiving it (func.py:779-790), so a failing send surfaces
at that resumption; the raw generator is resumed with the converted value at the next loop turn. -/
def wrapTrace (W : World N V T) (g : GenTypes T) {σ : Type} (step : σ → Option V → Step σ V) :
    σ → Option V → List (Option V) → List (Ev V)
  | st, inp, rest =>
    match step st inp with
    | .escaped => [.escaped]
    | .diverged => [.diverged]
    | .ret r =>
      match r with
      | none => [.returned none]                                    -- func.py:743-745
      | some rv =>
        match convBy W g.retT rv with
        | .ok v => [.returned (some v)]
        | .error _ => [.raised]
    | .yield v st' =>
      match convBy W g.yieldT v with
      | .error _ => [.raised]
      | .ok y =>
        .yielded y ::
          match rest with
          | [] => []
          | none :: more => wrapTrace W g step st' none more
          | some x :: more =>
            match convBy W g.sendT x with
            | .error _ => [.raised]
            | .ok x' => wrapTrace W g step st' (some x') more

/-- the pre-fix asynchronous wrapper (func.py:818-858 before C08-asend): every turn of its `async for` resumes the
raw generator with None; after a non-None send the raw generator is resumed with the converted value *and the value
it yields in response is dropped*, then the loop turns again. -/
def legacyAsyncTrace (W : World N V T) (g : GenTypes T) {σ : Type} (step : σ → Option V → Step σ V) :
    σ → List (Option V) → List (Ev V)
  | st, rest =>
    match step st none with
    | .escaped => [.escaped]
    | .diverged => [.diverged]
    | .ret _ => [.returned none]
    | .yield v st' =>
      match convBy W g.yieldT v with
      | .error _ => [.raised]
      | .ok y =>
        .yielded y ::
          match rest with
          | [] => []
          | none :: more => legacyAsyncTrace W g step st' more
          | some x :: more =>
            match convBy W g.sendT x with
            | .error _ => [.raised]
            | .ok x' =>
              match step st' (some x') with                         -- `await generator.asend(sent)`: result dropped
              | .escaped => [.escaped]
              | .diverged => [.diverged]
              | .ret _ => [.returned none]
              | .yield _ st'' => legacyAsyncTrace W g step st'' more

/-- The lazy wrappers (`sync_generator` func.py:821-834, `async_generator` func.py:913-925) create the eager wrapper's
generator at their first resumption and forward every resumption to it: `gen.send(sent)` when the caller sent a value,
`next(gen)` otherwise.  The test is `sent is not None` — *identity with None, not truthiness*: a falsy sent value
(0, '', False) is still a sent value.  `isNone` is that test as the code performs it; `forwardInput` what the inner
generator is resumed with. -/
def forwardInput (isNone : Option V → Bool) (sent : Option V) : Option V :=
  if isNone sent then none else sent

/-- `sent is not None` -/
def pyIsNone : Option V → Bool
  | none => true
  | some _ => false

/-- a lazy wrapper around the eager one, driven by the caller -/
def lazyTrace (W : World N V T) (g : GenTypes T) {σ : Type} (step : σ → Option V → Step σ V)
    (isNone : Option V → Bool) (st : σ) (inp : Option V) (rest : List (Option V)) : List (Ev V) :=
  wrapTrace W g step st (forwardInput isNone inp) (rest.map (forwardInput isNone))

/-- the undecorated generator driven by the same caller -/
def rawTrace {σ : Type} (step : σ → Option V → Step σ V) : σ → Option V → List (Option V) → List (Ev V)
  | st, inp, rest =>
    match step st inp with
    | .escaped => [.escaped]
    | .diverged => [.diverged]
    | .ret r => [.returned r]
    | .yield v st' => .yielded v :: match rest with
      | [] => []
      | nxt :: more => rawTrace step st' nxt more

end Utv.C08
