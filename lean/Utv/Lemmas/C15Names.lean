import Utv.Model.C15
/-! Attribute names: the collision loop of `get_attname` always finds a free name. -/
set_option linter.unusedVariables false
namespace Utv.C15

/-- if the loop ends on a taken name, every candidate it looked at was taken -/
theorem firstFree_taken (sfx : Nat → String) (origin : String) (excludes : List String) :
    (fuel i : Nat) → firstFree sfx origin excludes fuel i ∈ excludes → ∀ m, m ≤ fuel → origin ++ sfx (i + m) ∈ excludes
  | 0, i, h, m, hm => by
    have : m = 0 := by omega
    subst this
    simpa [firstFree] using h
  | fuel + 1, i, h, m, hm => by
    simp only [firstFree] at h
    by_cases hc : excludes.contains (origin ++ sfx i) = true
    · simp only [hc, if_true] at h
      cases m with
      | zero => simpa using hc
      | succ m =>
        have := firstFree_taken sfx origin excludes fuel (i + 1) h m (by omega)
        have e : i + 1 + m = i + (m + 1) := by omega
        rw [e] at this
        exact this
    · simp only [hc, Bool.false_eq_true, if_false] at h
      exact absurd (by simpa using h) hc

/-- the loop with as much fuel as there are taken names ends on a free one (pigeonhole) -/
theorem firstFree_fresh (sfx : Nat → String) (origin : String) (hinj : ∀ a b, origin ++ sfx a = origin ++ sfx b → a = b)
    (excludes : List String) (i : Nat) : firstFree sfx origin excludes excludes.length i ∉ excludes := by
  intro h
  have hall := firstFree_taken sfx origin excludes excludes.length i h
  -- excludes.length + 1 distinct names inside `excludes`
  let cands := (List.range (excludes.length + 1)).map fun m => origin ++ sfx (i + m)
  have hnd : cands.Nodup := by
    refine List.Pairwise.map (fun m => origin ++ sfx (i + m)) (fun a b hab heq => ?_) List.nodup_range
    have := hinj _ _ heq
    exact hab (by omega)
  have hsub : cands ⊆ excludes := by
    intro x hx
    obtain ⟨m, hm, rfl⟩ := List.mem_map.mp hx
    exact hall m (by simpa using List.mem_range.mp hm |> Nat.lt_succ_iff.mp)
  have := List.Nodup.length_le_of_subset hnd hsub
  simp [cands] at this
  omega

theorem getAttname_fresh (sfx : Nat → String) (hinj : ∀ o a b, o ++ sfx a = o ++ sfx b → a = b) (name : String)
    (excludes : List String) : getAttname sfx name excludes ∉ excludes := by
  unfold getAttname
  simp only
  by_cases h : excludes.contains (sanitize name) = true
  · simp only [h, if_true]
    exact firstFree_fresh sfx _ (hinj _) excludes 1
  · simp only [h, Bool.false_eq_true, if_false]
    simpa using h

/-- the attribute chosen for a property is none of: the attributes taken so far, the other property names,
the attributes of the base class -/
theorem attnameFor_fresh (N : Names) (hinj : ∀ o a b, o ++ N.sfx a = o ++ N.sfx b → a = b) (taken allKeys : List String)
    (key : String) : attnameFor N taken allKeys key ∉ taken ++ allKeys.filter (· != key) ++ N.reserved := by
  unfold attnameFor
  simp only
  by_cases h : (!validAttr N key || key.startsWith "_" ||
      (taken ++ allKeys.filter (· != key) ++ N.reserved).contains key) = true
  · simp only [h, if_true]
    exact getAttname_fresh N.sfx hinj key _
  · simp only [h, Bool.false_eq_true, if_false]
    have h' := (Bool.not_eq_true _).mp h
    rw [Bool.or_eq_false_iff] at h'
    simpa using h'.2

theorem assignAttnames_fresh (N : Names) (hinj : ∀ o a b, o ++ N.sfx a = o ++ N.sfx b → a = b) (allKeys : List String) :
    (ks taken : List String) → (∀ a ∈ assignAttnames N allKeys ks taken, a ∉ taken ∧ a ∉ N.reserved) ∧
      (assignAttnames N allKeys ks taken).Nodup
  | [], taken => by simp [assignAttnames]
  | k :: rest, taken => by
    simp only [assignAttnames]
    have hf := attnameFor_fresh N hinj taken allKeys k
    have ih := assignAttnames_fresh N hinj allKeys rest (taken ++ [attnameFor N taken allKeys k])
    refine ⟨?_, ?_⟩
    · intro a ha
      rcases List.mem_cons.mp ha with h | h
      · subst h
        exact ⟨fun h1 => hf (by simp [h1]), fun h1 => hf (by simp [h1])⟩
      · have := ih.1 a h
        exact ⟨fun h1 => this.1 (by simp [h1]), this.2⟩
    · apply List.nodup_cons.mpr
      refine ⟨fun hmem => ?_, ih.2⟩
      exact (ih.1 _ hmem).1 (by simp)

end Utv.C15
