import Utv.Gen.Tables
import Utv.Model.C04
/-
C04 (continued) — the timestamp normalisation loops of `TypeTransformer.to_datetime`,
transform.py:515-519 and 550-557:

    if isinstance(data, (int, float, Decimal)):
        [fix: if not math.isfinite(data): raise ValueError]
        while abs(data) > self.MS_WATERSHED:
            data /= 1000

The loop is modelled concretely on exact values: a finite number is ±n/(q+1) (so the denominator is
never 0), dividing by 1000 multiplies the denominator.  `MS_WATERSHED` is the T1-extracted constant
(`Utv.Gen.Tables.MS_WATERSHED`, regenerated from transform.py on every run); the termination proof
below needs it to be positive.  Python's loop is given an independent small-step reading
(`whileFuel`) so that "diverges" has a meaning that does not depend on how the model function is
written; Props/C04.lean proves the two agree.
-/
namespace Utv.C04

def watershed : Nat := Utv.Gen.Tables.MS_WATERSHED

/-- the numeric argument of the loop: int, float (incl. ±inf, nan) or Decimal (incl. ±Infinity, NaN) -/
inductive Ts where
  | fin (neg : Bool) (n q : Nat)   -- ± n / (q+1)
  | inf (neg : Bool)
  | nan
  deriving DecidableEq, Repr

/-- `abs(x) > MS_WATERSHED` (false on NaN, as IEEE comparison is) -/
def Ts.gtW : Ts → Bool
  | .fin _ n q => decide (n > watershed * (q + 1))
  | .inf _ => true
  | .nan => false

/-- `x /= 1000` -/
def Ts.div1000 : Ts → Ts
  | .fin s n q => .fin s n (1000 * q + 999)
  | x => x

def Ts.isFinite : Ts → Bool
  | .fin _ _ _ => true
  | _ => false

/-- `while cond(x): x = body(x)` run for at most `fuel` iterations; `none` = still running -/
def whileFuel {σ : Type} (cond : σ → Bool) (body : σ → σ) : Nat → σ → Option σ
  | 0, _ => none
  | fuel + 1, x => if cond x then whileFuel cond body fuel (body x) else some x

theorem watershed_pos : 0 < watershed := by decide

/-- the loop on a finite value: the final denominator.  Lean accepts the definition only with the
termination proof: the gap `n - W·(q+1)` shrinks with every division because `W > 0`. -/
def loopQ (n q : Nat) : Nat :=
  if n > watershed * (q + 1) then loopQ n (1000 * q + 999) else q
termination_by n - watershed * (q + 1)
decreasing_by
  have hW := watershed_pos
  have h1 : watershed * (q + 1) < watershed * (1000 * q + 999 + 1) :=
    Nat.mul_lt_mul_of_pos_left (by omega) hW
  generalize watershed * (q + 1) = a at *
  generalize watershed * (1000 * q + 999 + 1) = b at *
  omega

/-- the number of divisions performed -/
def loopK (n q : Nat) : Nat :=
  if n > watershed * (q + 1) then loopK n (1000 * q + 999) + 1 else 0
termination_by n - watershed * (q + 1)
decreasing_by
  have hW := watershed_pos
  have h1 : watershed * (q + 1) < watershed * (1000 * q + 999 + 1) :=
    Nat.mul_lt_mul_of_pos_left (by omega) hW
  generalize watershed * (q + 1) = a at *
  generalize watershed * (1000 * q + 999 + 1) = b at *
  omega

/-- the `while` loop of transform.py:517-518 / 555-556 as the code has it -/
def tsLoop : Ts → Res Ts
  | .fin s n q => .ok (.fin s n (loopQ n q))
  | .inf _ => .diverge        -- abs(inf) > W holds, inf / 1000 = inf: no measure can exist
  | .nan => .ok .nan

/-- the numeric branch up to the call of `utcfromtimestamp`; `legacy` = without the finiteness guard -/
def tsNormalize (legacy : Bool) (x : Ts) : M Ts :=
  if !legacy && !x.isFinite then raise (builtinExc K.valueError)
  else fun s => (tsLoop x, s)

/-- what the numeric branch of `to_datetime` is given: besides the values the loop can run on, an int beyond the float
range (`math.isfinite(10**400)` and `10**400 / 1000` both raise OverflowError) and a finite Decimal beyond the float
range (`math.isfinite(Decimal('1E+999999'))` is False: refused by the guard; without the guard the loop runs on it
exactly, as on any finite value) -/
inductive TsIn where
  | num (x : Ts)
  | hugeInt
  | hugeDec (neg : Bool) (n q : Nat)
  deriving DecidableEq, Repr

def tsNormalizeIn (legacy : Bool) : TsIn → M Ts
  | .num x => tsNormalize legacy x
  | .hugeInt => raise (builtinExc 106)                       -- OverflowError
  | .hugeDec s n q => if legacy then tsNormalize true (.fin s n q) else raise (builtinExc K.valueError)

/-- the numeric branch of `to_datetime` as a converter: normalise, then `utcfromtimestamp` (a component) -/
def toDatetimeNumeric {V : Type} (legacy : Bool) (fromTs : Ts → M V) (x : TsIn) : M V := do
  let y ← tsNormalizeIn legacy x
  fromTs y

end Utv.C04
