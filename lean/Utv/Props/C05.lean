import Utv.Lemmas.C05Views
/-!
C05 — data-class parsing implements the declared field contract.

For every world (type conversions, user predicates, `str.lower`), every well-formed parser (what
`ClassParser.setup` accepts without ConfigError), every `Options` and every input mapping with distinct
keys, both lookup strategies of `parse_data` compute `Spec.contract` — the per-field declarative
`FieldContract` written from the documentation:

* `C05_ff_refines`, `C05_df_refines`, `C05_parse_data_refines` : the parsed data equals the contract's
  as a finite map and the handled errors are exactly the contract's violations (as a set);
* `C05_success_iff`, `C05_failfast_sound`, `C05_collected_exact`, `C05_collected_bounded` : what the caller
  observes — success iff the input violates nothing; a fail-fast run raises one of the violations;
  `collect_errors` reports all of them (at most `max_errors`);
* `C05_attr_view` : after `__init__`, `__dict__` holds every value under its attribute name and the
  mapping lacks exactly the `no_output` fields;
* `C05_getattr_view` : attribute access gives that value, else the deferred default;
* `C05_init_refines` : the same for `Cls.__from__(data, options)` from the declaration as written.

No bound on the number of fields, aliases, keys or on the values.  The theorems are about the model of the
code *after* the fix patches; the behaviour before them is refuted by the `C05_legacy_*` witnesses.
-/
namespace Utv.C05
open Spec

variable {V : Type}

/-- equal as finite maps (Python dict equality) -/
def MapEq (a b : List (Key × V)) : Prop := ∀ k, dget k a = dget k b

/-- equal as sets -/
def SetEq (a b : List Err) : Prop := ∀ e, e ∈ a ↔ e ∈ b

/-- the parser state refines the contract: same data, same violations -/
def Refines [DecidableEq V] (W : World V) (P : Parser V) (o : Opts V) (data : List (Key × V)) (st : St V) : Prop :=
  MapEq st.result (contract W P o data).result ∧ SetEq (paramsCheck o data.length ++ st.errs) (contract W P o data).errs

/-- **C05 (field-first).** -/
theorem C05_ff_refines [DecidableEq V] (W : World V) (LL : LowerLaws W) (P : Parser V) (hwf : P.wf W = true)
    (o : Opts V) (data : List (Key × V)) (hnd : (data.map (·.1)).Nodup) :
    Refines W P o data (fieldFirst {} W P o data) := by
  have wf := WF.of_wf hwf
  rw [fieldFirst_eq_ref LL wf o hnd]
  exact refRun_contract LL wf o data hnd

/-- **C05 (data-first).** -/
theorem C05_df_refines [DecidableEq V] (W : World V) (LL : LowerLaws W) (P : Parser V) (hwf : P.wf W = true)
    (o : Opts V) (data : List (Key × V)) (hnd : (data.map (·.1)).Nodup) :
    Refines W P o data (dataFirst {} W P o data) := by
  have wf := WF.of_wf hwf
  obtain ⟨h1, h2⟩ := dataFirst_equiv_ref LL wf o data hnd
  obtain ⟨r1, r2⟩ := refRun_contract LL wf o data hnd
  refine ⟨fun k => (h1 k).trans (r1 k), fun e => ?_⟩
  rw [← r2 e, List.mem_append, List.mem_append, h2 e]

/-- the state `parse_data` returns, with the `max_params / min_params` errors in front -/
theorem parseData_errs [DecidableEq V] (W : World V) (P : Parser V) (o : Opts V) (data : List (Key × V)) :
    (parseData {} W P o data).errs = paramsCheck o data.length ++
        (if useDataFirst P o then dataFirst {} W P o data else fieldFirst {} W P o data).errs
    ∧ (parseData {} W P o data).result =
        (if useDataFirst P o then dataFirst {} W P o data else fieldFirst {} W P o data).result := by
  unfold parseData; exact ⟨rfl, rfl⟩

/-- **C05 (`parse_data`, whichever strategy is selected).** -/
theorem C05_parse_data_refines [DecidableEq V] (W : World V) (LL : LowerLaws W) (P : Parser V)
    (hwf : P.wf W = true) (o : Opts V) (data : List (Key × V)) (hnd : (data.map (·.1)).Nodup) :
    MapEq (parseData {} W P o data).result (contract W P o data).result
    ∧ SetEq (parseData {} W P o data).errs (contract W P o data).errs := by
  obtain ⟨he, hr⟩ := parseData_errs W P o data
  rw [he, hr]
  cases useDataFirst P o
  · exact C05_ff_refines W LL P hwf o data hnd
  · exact C05_df_refines W LL P hwf o data hnd

theorem setEq_nil_iff {a b : List Err} (h : SetEq a b) : a = [] ↔ b = [] := by
  constructor
  · intro e; subst e
    cases b with
    | nil => rfl
    | cons x xs => exact absurd ((h x).2 (by simp)) (by simp)
  · intro e; subst e
    cases a with
    | nil => rfl
    | cons x xs => exact absurd ((h x).1 (by simp)) (by simp)

/-- **Parsing succeeds exactly when the input violates nothing.** -/
theorem C05_success_iff [DecidableEq V] (W : World V) (LL : LowerLaws W) (P : Parser V) (hwf : P.wf W = true)
    (o : Opts V) (data : List (Key × V)) (hnd : (data.map (·.1)).Nodup) :
    (∃ m a, finish {} W P o (parseData {} W P o data) = .ok m a) ↔ (contract W P o data).errs = [] := by
  have h := (C05_parse_data_refines W LL P hwf o data hnd).2
  rw [← setEq_nil_iff h]
  unfold finish
  cases he : (parseData {} W P o data).errs with
  | nil => simp
  | cons e es =>
    simp only [reduceCtorEq, iff_false, not_exists]
    intro m a
    split
    · simp
    · split <;> simp

/-- **A fail-fast run raises one of the contract's violations.** -/
theorem C05_failfast_sound [DecidableEq V] (W : World V) (LL : LowerLaws W) (P : Parser V) (hwf : P.wf W = true)
    (o : Opts V) (data : List (Key × V)) (hnd : (data.map (·.1)).Nodup) (e : Err)
    (h : finish {} W P o (parseData {} W P o data) = .raised e) : e ∈ (contract W P o data).errs := by
  have hs := (C05_parse_data_refines W LL P hwf o data hnd).2
  unfold finish at h
  cases he : (parseData {} W P o data).errs with
  | nil => rw [he] at h; simp at h
  | cons x xs =>
    rw [he] at h
    simp only at h
    split at h
    · simp only [Outcome.raised.injEq] at h
      subst h
      exact (hs x).1 (by rw [he]; simp)
    · split at h <;> cases h

/-- **`collect_errors` (no `max_errors`) reports exactly the contract's violations.** -/
theorem C05_collected_exact [DecidableEq V] (W : World V) (LL : LowerLaws W) (P : Parser V) (hwf : P.wf W = true)
    (o : Opts V) (data : List (Key × V)) (hnd : (data.map (·.1)).Nodup) (es : List Err)
    (hmax : o.maxErrors = none) (h : finish {} W P o (parseData {} W P o data) = .collected es) :
    SetEq es (contract W P o data).errs := by
  have hs := (C05_parse_data_refines W LL P hwf o data hnd).2
  unfold finish at h
  cases he : (parseData {} W P o data).errs with
  | nil => rw [he] at h; simp at h
  | cons x xs =>
    rw [he] at h
    simp only [hmax] at h
    split at h
    · cases h
    · simp only [Outcome.collected.injEq] at h
      rw [← h, ← he]; exact hs

/-- **with `max_errors = n` at most `max n 1` of the violations are reported** -/
theorem C05_collected_bounded [DecidableEq V] (W : World V) (LL : LowerLaws W) (P : Parser V) (hwf : P.wf W = true)
    (o : Opts V) (data : List (Key × V)) (hnd : (data.map (·.1)).Nodup) (es : List Err) (n : Nat)
    (hmax : o.maxErrors = some n) (h : finish {} W P o (parseData {} W P o data) = .collected es) :
    (∀ e ∈ es, e ∈ (contract W P o data).errs) ∧ es.length ≤ max n 1 := by
  have hs := (C05_parse_data_refines W LL P hwf o data hnd).2
  unfold finish at h
  cases he : (parseData {} W P o data).errs with
  | nil => rw [he] at h; simp at h
  | cons x xs =>
    rw [he] at h
    simp only [hmax] at h
    split at h
    · cases h
    · simp only [Outcome.collected.injEq] at h
      subst h
      refine ⟨fun e hm => (hs e).1 (by rw [he]; exact List.mem_of_mem_take hm), ?_⟩
      rw [List.length_take]; exact Nat.min_le_left _ _

/-! ### the two views of the instance -/

theorem contract_result_keys [DecidableEq V] (W : World V) (P : Parser V) (o : Opts V) (data : List (Key × V))
    (k : Key) (h : dget k (contract W P o data).result ≠ none) :
    (∃ kf ∈ P.fields, kf.2.name = k) ∨ anyAccepts W P k = false := by
  have hk : k ∈ (contract W P o data).result.map (·.1) := by
    by_cases hk : k ∈ (contract W P o data).result.map (·.1)
    · exact hk
    · exact absurd ((dget_eq_none_iff _ _).2 hk) h
  unfold contract at hk
  simp only [List.map_append, List.mem_append, List.map_filterMap, List.mem_filterMap, List.mem_map] at hk
  rcases hk with ⟨fo, ⟨f, ⟨kf, hf, rfl⟩, rfl⟩, he⟩ | ⟨a, ⟨kv, hkv, rfl⟩, he⟩
  · left
    refine ⟨kf, hf, ?_⟩
    cases hv : (fieldContract W o kf.2 data).value with
    | none => simp [hv] at he
    | some v => simpa [hv] using he
  · right
    have hkk : kv.1 = k := by
      generalize (additionContract W P.additionTyped (P.excludeVars.contains kv.1) o kv).1 = X at he
      cases X with
      | none => simp at he
      | some v => simpa using he
    rw [List.mem_filter] at hkv
    rw [← hkk]
    unfold anyAccepts
    have := hkv.2
    rw [List.any_map] at this
    simpa using this

/-- **C05 (attribute view = output view ∪ no_output fields).**  After a successful `__init__`, for every
field the instance `__dict__` holds under the attribute name exactly what the contract prescribes, the
mapping holds it under the output name unless the field is `no_output` for that value, and unknown keys
that were kept appear in both. -/
theorem C05_attr_view [DecidableEq V] (W : World V) (LL : LowerLaws W) (P : Parser V) (hwf : P.wf W = true)
    (o : Opts V) (data : List (Key × V)) (hnd : (data.map (·.1)).Nodup) (m a : List (Key × V))
    (h : finish {} W P o (parseData {} W P o data) = .ok m a) :
    (∀ kf ∈ P.fields,
        dget kf.2.attname a = dget kf.2.name (contract W P o data).result
        ∧ dget kf.2.name m = (dget kf.2.name (contract W P o data).result).filter (fun v => !noOutput W o kf.2 v))
    ∧ (∀ k, anyAccepts W P k = false →
        dget k m = dget k (contract W P o data).result ∧ dget k a = dget k (contract W P o data).result) := by
  have wf := WF.of_wf hwf
  have hr := (C05_parse_data_refines W LL P hwf o data hnd).1
  have hkn : ((parseData {} W P o data).result.map (·.1)).Nodup := by
    rw [(parseData_errs W P o data).2]
    cases useDataFirst P o
    · exact fieldFirst_nodup W P o data
    · exact dataFirst_nodup W P o data
  have hok : ResultKeysOk W P (parseData {} W P o data).result := by
    intro k hk
    apply contract_result_keys W P o data k
    rw [← hr k]
    intro hc; exact ((dget_eq_none_iff _ _).1 hc) hk
  have hv := views_spec LL wf o (parseData {} W P o data).result hkn hok
  unfold finish at h
  cases he : (parseData {} W P o data).errs with
  | nil =>
    rw [he] at h
    simp only [Outcome.ok.injEq] at h
    obtain ⟨h1, h2⟩ := h
    subst h1; subst h2
    refine ⟨fun kf hf => ?_, fun k hk => ?_⟩
    · rw [← hr kf.2.name]; exact hv.1 kf hf
    · rw [← hr k]; exact hv.2 k hk
  | cons x xs =>
    rw [he] at h
    simp only at h
    split at h
    · cases h
    · split at h <;> cases h

/-- **Attribute access** (`Schema.__field_getter__`): `inst.<attname>` gives the value the contract prescribes —
also for a `no_output` field — and otherwise the deferred default (`defer_default`), else AttributeError. -/
theorem C05_getattr_view [DecidableEq V] (W : World V) (LL : LowerLaws W) (P : Parser V) (hwf : P.wf W = true)
    (o : Opts V) (data : List (Key × V)) (hnd : (data.map (·.1)).Nodup) (m a : List (Key × V))
    (h : finish {} W P o (parseData {} W P o data) = .ok m a) :
    ∀ kf ∈ P.fields, getattrView W o kf.2 m a =
      (dget kf.2.name (contract W P o data).result).orElse (fun _ => deferred W o kf.2) := by
  intro kf hf
  obtain ⟨h1, h2⟩ := (C05_attr_view W LL P hwf o data hnd m a h).1 kf hf
  unfold getattrView
  rw [h1, h2, getDefault_true_eq]
  cases hr : dget kf.2.name (contract W P o data).result with
  | none => rfl
  | some v => cases hno : noOutput W o kf.2 v <;> simp [Option.filter, hno]

/-- **C05 for `Cls.__from__(data, options=runtime)` from the declaration as written.** -/
theorem C05_init_refines [DecidableEq V] (W : World V) (LL : LowerLaws W) (c : ClassDecl V)
    (runtime : Option (Opts V)) (data : List (Key × V)) (hnd : (data.map (·.1)).Nodup)
    (hwf : (mkParser W c).wf W = true) :
    let P := mkParser W c
    let o := (runtime.getD c.opts).normalise
    ((∃ m a, initSchema {} W c runtime data = .ok m a) ↔ (contract W P o data).errs = [])
    ∧ (∀ e, initSchema {} W c runtime data = .raised e → e ∈ (contract W P o data).errs)
    ∧ (∀ es, o.maxErrors = none → initSchema {} W c runtime data = .collected es →
        SetEq es (contract W P o data).errs) := by
  intro P o
  exact ⟨C05_success_iff W LL P hwf o data hnd,
    fun e h => C05_failfast_sound W LL P hwf o data hnd e h,
    fun es hm h => C05_collected_exact W LL P hwf o data hnd es hm h⟩

/-! ### class hierarchies -/

theorem buildAll_snoc (W : World V) (decls : List (ClassDecl V)) (c : ClassDecl V) :
    buildAll W (decls ++ [c]) = buildAll W decls ++ [mkParserIn W (buildAll W decls) c] := by
  simp [buildAll, List.foldl_append]

theorem buildAll_length (W : World V) (decls : List (ClassDecl V)) : (buildAll W decls).length = decls.length := by
  induction decls using Utv.List.rev_ind with
  | nil => rfl
  | snoc l c ih => rw [buildAll_snoc, List.length_append, List.length_append, ih]; rfl

/-- **What a class's parser is does not depend on the classes declared after it** — in particular, declaring a
subclass (with whatever `Options`) leaves the fields, alias maps and case-insensitive names of its bases as they
were.  (In the code the subclass takes over the very same ParserField objects; the correspondence run parses the
base again after its subclasses were declared.) -/
theorem C05_later_declarations_irrelevant (W : World V) (decls more : List (ClassDecl V)) (i : Nat)
    (h : i < decls.length) : (buildAll W (decls ++ more))[i]? = (buildAll W decls)[i]? := by
  induction more using Utv.List.rev_ind with
  | nil => simp
  | snoc l c ih =>
    rw [← List.append_assoc, buildAll_snoc, List.getElem?_append_left, ih]
    rw [buildAll_length, List.length_append]; omega

/-- **C05 for any class of a hierarchy**, from the raw declarations (bases, dropped names, fields of each body,
`__options__` given or found on the first base): `Cls.__from__(data, options=runtime)` succeeds iff the contract of
the parser the class ends up with has no violation, a fail-fast run raises one of the violations, collecting reports
all of them. -/
theorem C05_hierarchy_refines [DecidableEq V] (W : World V) (LL : LowerLaws W) (decls : List (ClassDecl V))
    (target : Nat) (B : Built V) (hB : (buildAll W decls)[target]? = some B)
    (runtime : Option (Opts V)) (data : List (Key × V)) (hnd : (data.map (·.1)).Nodup)
    (hwf : B.parser.wf W = true) :
    let o := (runtime.getD B.opts).normalise
    ∃ out, initSchemaH {} W decls target runtime data = some out
      ∧ ((∃ m a, out = .ok m a) ↔ (contract W B.parser o data).errs = [])
      ∧ (∀ e, out = .raised e → e ∈ (contract W B.parser o data).errs)
      ∧ (∀ es, o.maxErrors = none → out = .collected es → SetEq es (contract W B.parser o data).errs)
      ∧ (∀ m a, out = .ok m a → ∀ kf ∈ B.parser.fields,
            dget kf.2.attname a = dget kf.2.name (contract W B.parser o data).result
            ∧ dget kf.2.name m = (dget kf.2.name (contract W B.parser o data).result).filter
                (fun v => !noOutput W o kf.2 v)) := by
  intro o
  refine ⟨finish {} W B.parser o (parseData {} W B.parser o data), ?_, ?_, ?_, ?_, ?_⟩
  · unfold initSchemaH; rw [hB]; rfl
  · exact C05_success_iff W LL B.parser hwf o data hnd
  · exact fun e h => C05_failfast_sound W LL B.parser hwf o data hnd e h
  · exact fun es hm h => C05_collected_exact W LL B.parser hwf o data hnd es hm h
  · exact fun m a h => (C05_attr_view W LL B.parser hwf o data hnd m a h).1

/-! ### Non-vacuity, and the behaviour before the fix patches (negation witnesses; the same inputs are
replayed on the real code from harness/corpus/C05.jsonl) -/

/-- keys: 0 = 'a', 1 = 'A', 2 = 'a1', 3 = 'b', 4 = 'zz'; values are naturals, 10 stands for the string "1"
(converted to 1), 99 for an unconvertible value, 0 is the falsy value of the predicate. -/
def W₀ : World Nat where
  lower k := if k = 1 then 0 else k
  islower k := k != 1
  fp _ v := if v = 10 then some 1 else if v = 99 then none else some v
  pred _ v := v == 0
  addConv v := some v
  copy v := v
  schemaExcluded := [9]            -- key 9 = 'update', a method of Schema

theorem W₀_laws : LowerLaws W₀ := by
  constructor
  · intro k; simp only [W₀]; by_cases h : k = 1 <;> simp [h]
  · intro k h; simp only [W₀] at h ⊢; by_cases h1 : k = 1 <;> simp_all

/-- `class K(Schema): a: int = Field(alias_from=['a1'])` -/
def cA : ClassDecl Nat := { fields := [{ attname := 0, aliasFrom := [2] }], opts := {} }

/-- the hypotheses of the theorems are satisfiable -/
example : (mkParser W₀ cA).wf W₀ = true := by decide
example : (([(0, 1), (2, 1)] : List (Key × Nat)).map (·.1)).Nodup := by decide

/-- `no_input='a'` with `mode='ra'`, parsed in mode 'w' (field.md "Modes and input/output"): before
fixes/C05-mode-string-flags.patch the field took the input although it does not support the mode. -/
def cMode : ClassDecl Nat :=
  { fields := [{ attname := 0, default := some 5, noInput := .modes [97], mode := some [114, 97] }]
    opts := { mode := some 119 } }

theorem C05_legacy_mode_string_witness :
    dget 0 (fieldFirst { modeStringReturns := true } W₀ (mkParser W₀ cMode) cMode.opts [(0, 1)]).result
      ≠ dget 0 (contract W₀ (mkParser W₀ cMode) cMode.opts [(0, 1)]).result := by decide

example : dget 0 (fieldFirst {} W₀ (mkParser W₀ cMode) cMode.opts [(0, 1)]).result
      = dget 0 (contract W₀ (mkParser W₀ cMode) cMode.opts [(0, 1)]).result := by decide

/-- a required field with a callable `no_input` and `mode='r'`, parsed in mode 'w': before
fixes/C05-required-callable-no-input.patch its absence was an error although it cannot be given. -/
def cPred : ClassDecl Nat :=
  { fields := [{ attname := 0, noInput := .pred 0, mode := some [114] }], opts := { mode := some 119 } }

theorem C05_legacy_required_callable_witness :
    (fieldFirst { predSkipsMode := true } W₀ (mkParser W₀ cPred) cPred.opts []).errs
      ≠ (contract W₀ (mkParser W₀ cPred) cPred.opts []).errs := by decide

example : (fieldFirst {} W₀ (mkParser W₀ cPred) cPred.opts []).errs
      = (contract W₀ (mkParser W₀ cPred) cPred.opts []).errs := by decide

/-- `class Account(Schema): A: int` (key 1 = 'A') and `class Lenient(Account): __options__ = Options(case_insensitive=True); b: int = 0`:
the field taken over stays case-sensitive (as `Account` set it up), the new one is case-insensitive; `Account` itself
is what it was. -/
def hAccount : ClassDecl Nat := { fields := [{ attname := 1 }], opts := {} }
def hLenient : ClassDecl Nat :=
  { fields := [{ attname := 3, default := some 0 }], opts := { caseInsensitive := true }, bases := [0] }

example : ((buildAll W₀ [hAccount, hLenient])[1]?.map fun B => (B.parser.fields.map (·.1), B.parser.ciNames, B.parser.wf W₀))
    = some ([1, 3], [3], true) := by decide
example : (buildAll W₀ [hAccount, hLenient])[0]?.map (·.parser.ciNames) = (buildAll W₀ [hAccount])[0]?.map (·.parser.ciNames) := by
  decide

/-- `class Base(Schema): limit: PositiveInt = 10`, `class Mid(Base): pass`, `class Leaf(Mid): limit = 20` (no annotation):
the annotation written two levels up is the type of `Leaf.limit` (`parser.annotations` accumulates over every level),
so `Leaf(limit=<unconvertible>)` fails as `Base` does. -/
def tBase : ClassDecl Nat := { fields := [{ attname := 0, ty := some 0, default := some 10 }], opts := {} }
def tMid : ClassDecl Nat := { fields := [], opts := {}, bases := [0], ownOpts := false }
def tLeaf : ClassDecl Nat := { fields := [{ attname := 0, ty := none, default := some 20 }], opts := {}, bases := [1], ownOpts := false }

example : ((buildAll W₀ [tBase, tMid, tLeaf])[2]?.map fun B => B.parser.fields.map (·.2.ty)) = some [some 0] := by decide
example : (initSchemaH {} W₀ [tBase, tMid, tLeaf] 2 none [(0, 99)]).map (fun o => match o with | .raised e => some e | _ => none)
    = some (some (.parse 0)) := by decide
/-- without any annotation up the chain the value is taken as it is -/
example : ((buildAll W₀ [({ fields := [], opts := {} } : ClassDecl Nat),
      ({ fields := [{ attname := 0, ty := none }], opts := {}, bases := [0] } : ClassDecl Nat)])[1]?.map
      fun B => B.parser.fields.map (·.2.ty)) = some [none] := by decide

/-- a value dropped by the 'exclude' policy leaves the field as one that was not given: its default applies but it
does not satisfy another field's dependency.  Before utype 107a5ff the default counted as a given value. -/
def cExcl : ClassDecl Nat :=
  { fields := [{ attname := 0, default := some 5, onError := some .exclude },
               { attname := 3, required := some .no, deps := [0] }], opts := {} }

theorem C05_legacy_excluded_dependency_witness :
    (fieldFirst { excludedProvided := true } W₀ (mkParser W₀ cExcl) {} [(0, 99), (3, 1)]).errs
      ≠ (contract W₀ (mkParser W₀ cExcl) {} [(0, 99), (3, 1)]).errs := by decide

example : (fieldFirst {} W₀ (mkParser W₀ cExcl) {} [(0, 99), (3, 1)]).errs = [.depsAbsence [0]]
    ∧ (dataFirst {} W₀ (mkParser W₀ cExcl) {} [(0, 99), (3, 1)]).errs = [.depsAbsence [0]]
    ∧ (contract W₀ (mkParser W₀ cExcl) {} [(0, 99), (3, 1)]).errs = [.depsAbsence [0]] := by decide

end Utv.C05
