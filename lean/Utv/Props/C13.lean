import Utv.Model.C13
/-!
C13 — the generated JSON Schema is valid and describes what the parser does.  (first batch: structure clauses)
-/
namespace Utv.C13
open Utv.JsonSchema

/-- the generator's static input view is the documented one -/
theorem C13_static_noinput_eq_spec (f : FieldMeta) (o : Opts) : alwaysNoInput f o = Spec.noInput f o := by
  unfold alwaysNoInput Spec.noInput Spec.flagOn Spec.inMode memMode
  cases hfd : (f.final && f.hasDefault) <;> cases hni : f.noInput <;> cases hm : o.mode <;> cases hfm : f.mode <;> simp

end Utv.C13
