#!/bin/bash
# run the thorough tier of every claimed check (used with `vp run --with-repo`): one summary line per check
[ -n "$VP_RUN_REPO" ] && export UTYPE_REPO=$VP_RUN_REPO
export VERIF_JOBS=${VERIF_JOBS:-8}
./check --setup >/dev/null 2>&1
for p in $(python3 -c "import json;print(' '.join(c['property_id'] for c in json.load(open('MANIFEST.json'))['checks']))"); do
  s=$(date +%s); out=$(./check $p --tier thorough 2>&1); rc=$?
  echo "$p thorough rc=$rc $(( $(date +%s)-s ))s $(echo "$out" | grep -E "^\[$p\] tier" | cut -c1-220)"
  echo "$out" | grep -E "VIOLATION|broken:" | head -3
done
