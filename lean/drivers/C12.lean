import Utv.Util.ConvJson
open Lean Utv Utv.J Utv.Conv Utv.ConvJson

/-- ops:
  `conv`  one converter call (target class, flags, value) → outcome            (reused by C01 / C04)
  `c12`   the same call under the four flag combinations → {"ff","ft","tf","tt"}  (first letter nec, second ndl) -/
def handle (j : Json) : Json :=
  match str! (fld j "op") with
  | "conv" => encodeOutcome (runCall j (bool! (fld j "nec")) (bool! (fld j "ndl")))
  | "c12" =>
    Json.mkObj [("ff", encodeOutcome (runCall j false false)), ("ft", encodeOutcome (runCall j false true)),
                ("tf", encodeOutcome (runCall j true false)), ("tt", encodeOutcome (runCall j true true))]
  | _ => Json.mkObj [("driver-error", Json.str "unknown op")]

def main : IO Unit := serveFlush handle
