import Utv.GenEq.Support
import Utv.Gen.Field
import Utv.Gen.Options
import Utv.Model.C04Data
/-!
C04 — T1 obligations: the two field predicates the data-class part of the no-escape model reads
(`FieldDecl.isRequired`, `FieldDecl.policy`, `Model/C04Data.lean`) are `ParserField.is_required` /
`get_on_error` as regenerated from the source.  C04's fragment: `required` is a bool, no parse mode, no `final`;
`no_input` is `False` or a callable (`DataWorld.noInput`), which `always_no_input` does not call.
-/
namespace Utv.GenEq.C04
open Utv.Obj Utv.C04 Utv.Gen

variable {V : Type}

def encPolicy : Policy → OVal V
  | .throw => .str "throw"
  | .exclude => .str "exclude"
  | .preserve => .str "preserve"

/-- the `ParserField` a `FieldDecl` stands for; `ni` is its `no_input=` (False or a callable) -/
def encField (f : FieldDecl V) (ni : OVal V) : OVal V :=
  .obj "ParserField" [("required", .bool f.required), ("default", match f.default with | none => .unprovided | some d => .val d),
    ("default_factory", .none), ("no_input", ni), ("mode", .none), ("final", .bool false),
    ("on_error", match f.onError with | none => .none | some p => encPolicy p)]

def encOpts (o : Opts) : OVal V :=
  .obj "Options" [("mode", .none), ("ignore_required", .bool o.ignoreRequired), ("invalid_values", encPolicy o.invalidValues)]

theorem C04_gen_is_required (W : Obj.World V) (f : FieldDecl V) (o : Opts) (ni : OVal V)
    (hni : ni = .bool false ∨ ∃ k, ni = .fn k) :
    Field.is_required W (encField f ni) (encOpts o) = .ok (.bool (f.isRequired o)) := by
  gen_obligation "C04_gen_is_required: the regenerated code (Utv.Gen) is no longer equal to the hand model here" by
    obtain ⟨_, _, _, _, required, _, _, _, _⟩ := f
    rcases hni with h | ⟨k, h⟩ <;> subst h <;> cases required <;> cases hi : o.ignoreRequired <;>
      obj_simp [Field.is_required, Field.always_no_input, Field.no_default, encField, encOpts, getattr, lookupAttr,
        OVal.isTrue, OVal.isUnprovided, FieldDecl.isRequired, hi]

theorem C04_gen_get_on_error (W : Obj.World V) (f : FieldDecl V) (o : Opts) (ni : OVal V) :
    Field.get_on_error W (encField f ni) (encOpts o) = .ok (encPolicy (f.policy o)) := by
  gen_obligation "C04_gen_get_on_error: the regenerated code (Utv.Gen) is no longer equal to the hand model here" by
    obtain ⟨_, _, _, onError, _, _, _, _, _⟩ := f
    cases onError with
    | none => obj_simp [Field.get_on_error, encField, encOpts, getattr, lookupAttr, FieldDecl.policy]
    | some p => cases p <;> obj_simp [Field.get_on_error, encField, encOpts, getattr, lookupAttr, FieldDecl.policy, encPolicy]

/-! ### `Options.make_context`: which options the new context runs with (`makeContextOpts`, `runningOpts`) -/

abbrev O := OVal Opts

/-- an `Options` object: what `make_context` / `RuntimeContext.__init__` read of it, and the model's `Opts` behind it -/
def encO (o : Opts) : O := .obj "Options" [("override", .bool o.override), ("max_depth", .none), ("model", .val o)]

/-- the enclosing context, if any -/
def encCtxOpt : Option Opts → O
  | none => .none
  | some c => .obj "RuntimeContext" [("options", encO c), ("depth", .int 0), ("routes", .seq .list [])]

theorem C04_gen_make_context (W : Obj.World Opts) (self : Opts) (ctx : Option Opts) (cls fe : O) :
    (Options.Options_make_context W (encO self) cls fe (encCtxOpt ctx) >>= fun c => getattr c "options")
      = .ok (encO (makeContextOpts self ctx)) := by
  gen_obligation "C04_gen_make_context: the regenerated code (Utv.Gen) is no longer equal to the hand model here" by
    cases ctx with
    | none =>
      cases hc : cls.isNone <;>
        obj_simp [Options.Options_make_context, Options.RuntimeContext_new, Options.RuntimeContext_init, encO, encCtxOpt,
          getattr, setattr, lookupAttr, setAttrL, OVal.isUnprovided, hc, concat, add, intOf?, makeContextOpts]
    | some c =>
      cases hc : cls.isNone <;> cases hs : self.override <;> cases hco : c.override <;>
        obj_simp [Options.Options_make_context, Options.RuntimeContext_new, Options.RuntimeContext_init, encO, encCtxOpt,
          getattr, setattr, lookupAttr, setAttrL, OVal.isUnprovided, hc, hs, hco, concat, add, intOf?, makeContextOpts,
          toList, iter]

/-- `init_dataclass`: `options.make_context(...)` when options are given for the call, else the declared ones -/
theorem C04_gen_running_opts (W : Obj.World Opts) (declared : Opts) (given ctx : Option Opts) (cls fe : O) :
    (Options.Options_make_context W (encO (given.getD declared)) cls fe (encCtxOpt ctx) >>= fun c => getattr c "options")
      = .ok (encO (runningOpts declared given ctx)) := by
  gen_obligation "C04_gen_running_opts: the regenerated code (Utv.Gen) is no longer equal to the hand model here" by
    exact C04_gen_make_context W (given.getD declared) ctx cls fe

end Utv.GenEq.C04
