#!/usr/bin/env python3
"""T1 — translator: regenerates lean/Utv/Gen/*.lean from the *source text* of /repo (ast only; nothing
from /repo is imported or executed).

(a) tables: literal data the theorems and models depend on;
(b) functions: small branch-only code (the `Constraints` validators of parser/rule.py, `multi`/`copy_value`
    of utils/functional.py) translated statement by statement into a shallow embedding: Lean `do` blocks in the
    `Except Exc` monad over `PyVal`, built from the `Py.*` operators of lean/Utv/Py/Basic.lean.

Anything outside the accepted subset stops the translation of that function with an `untranslatable` record;
the function is then emitted as a `def … := throw (.unmodelled "untranslatable …")` so that every theorem about it
stops checking (never silently skipped).
"""
from __future__ import annotations

import argparse
import ast
import json
import sys
from pathlib import Path

CONSTRAINT_FUNCS = [
    "decimal_places", "lax_decimal_places", "multiple_of", "lax_multiple_of", "_parse_decimal", "max_digits",
    "lax_max_digits", "const", "lax_const", "enum", "lax_enum", "regex", "gt", "ge", "lax_ge", "lt", "le", "lax_le",
    "length", "lax_length", "max_length", "lax_max_length", "min_length", "unique_items", "lax_unique_items",
]

CLS_NAMES = {
    "Decimal": ".decimal", "EnumMeta": ".enumMeta", "Enum": ".enum", "int": ".int", "float": ".float", "str": ".str",
    "bool": ".bool", "list": ".list", "tuple": ".tuple", "set": ".set", "frozenset": ".frozenset",
}


class Untranslatable(Exception):
    pass


def lname(n: str) -> str:
    """Lean-safe local name"""
    return n + "_"


class FuncTranslator:
    """One Python function -> one Lean `def` in the M monad."""

    def __init__(self, fn: ast.FunctionDef, owner: str, siblings: set[str], tables: set[str], src_file: str):
        self.fn = fn
        self.owner = owner
        self.siblings = siblings
        self.tables = tables
        self.src_file = src_file
        self.assigned: set[str] = set()
        self.declared: set[str] = set()

    def fail(self, node, why=""):
        raise Untranslatable(f"{self.src_file}:{getattr(node, 'lineno', '?')} {type(node).__name__} {why}")

    # ---- expressions: returns (code, pure) ; code has Lean type PyVal (pure) or M PyVal (not pure) ----------
    def bind(self, code_pure):
        code, pure = code_pure
        return code if pure else f"(← {code})"

    def val(self, e) -> tuple[str, bool]:
        if isinstance(e, ast.Name):
            if e.id in self.tables:
                return f"Tables.{e.id}", True
            if e.id in ("True", "False", "None"):
                self.fail(e)
            return lname(e.id), True
        if isinstance(e, ast.Constant):
            v = e.value
            if v is None:
                return "PyVal.none", True
            if v is True or v is False:
                return f"(PyVal.bool {'true' if v else 'false'})", True
            if isinstance(v, int):
                return f"(PyVal.int ({v}))", True
            if isinstance(v, str):
                return f"(PyVal.str {json.dumps(v)})", True
            self.fail(e, "constant")
        if isinstance(e, (ast.Set, ast.Tuple, ast.List)):
            kind = {ast.Set: ".set", ast.Tuple: ".tuple", ast.List: ".list"}[type(e)]
            items = [self.bind(self.val(x)) for x in e.elts]
            return f"(PyVal.seq {kind} [{', '.join(items)}])", True
        if isinstance(e, ast.BinOp):
            op = {ast.Mod: "mod", ast.FloorDiv: "floordiv", ast.Mult: "mul", ast.Sub: "sub", ast.Add: "add"}.get(type(e.op))
            if not op:
                self.fail(e, "operator")
            return f"Py.{op} {self.atom(e.left)} {self.atom(e.right)}", False
        if isinstance(e, (ast.Compare, ast.BoolOp)) or (isinstance(e, ast.UnaryOp) and isinstance(e.op, ast.Not)):
            return f"(PyVal.bool {self.cond(e)})", True
        if isinstance(e, ast.Subscript):
            base = self.atom(e.value)
            sl = e.slice
            if isinstance(sl, ast.Slice):
                if sl.step is not None:
                    self.fail(e, "slice step")
                if sl.lower is None and sl.upper is not None:
                    return f"Py.sliceTo {base} {self.atom(sl.upper)}", False
                if sl.lower is not None and sl.upper is None:
                    return f"Py.sliceFrom {base} {self.atom(sl.lower)}", False
                self.fail(e, "slice form")
            return f"Py.index {base} {self.atom(sl)}", False
        if isinstance(e, ast.Attribute):
            return f"Py.getattrValue {self.atom(e.value)} {json.dumps(e.attr)}", False
        if isinstance(e, ast.Call):
            return self.call(e)
        self.fail(e)

    def atom(self, e) -> str:
        """expression usable as a function argument"""
        return self.bind(self.val(e))

    def call(self, e: ast.Call) -> tuple[str, bool]:
        f = e.func
        if e.keywords:
            self.fail(e, "keyword arguments")
        if isinstance(f, ast.Name):
            n = f.id
            a = e.args
            if n == "len" and len(a) == 1:
                return f"Py.len {self.atom(a[0])}", False
            if n == "str" and len(a) == 1:
                return f"Py.str P {self.atom(a[0])}", False
            if n == "abs" and len(a) == 1:
                return f"Py.abs {self.atom(a[0])}", False
            if n == "round" and len(a) == 2:
                return f"Py.round P {self.atom(a[0])} {self.atom(a[1])}", False
            if n == "list" and len(a) == 1:
                return f"Py.toList {self.atom(a[0])}", False
            if n == "type" and len(a) == 1:
                return f"(PyVal.cls (Py.typeOf {self.atom(a[0])}))", True
            if n == "Decimal" and len(a) == 1:
                # the idiom Decimal(str(x))
                inner = a[0]
                if isinstance(inner, ast.Call) and isinstance(inner.func, ast.Name) and inner.func.id == "str" and len(inner.args) == 1:
                    return f"Py.decimalOfStrOf P {self.atom(inner.args[0])}", False
                self.fail(e, "Decimal(...) form")
            if n in ("isinstance", "hasattr"):
                return f"(PyVal.bool {self.cond(e)})", True
            # calling a local value: `lst(value)` (an Enum class held in a variable)
            if len(a) == 1 and n not in CLS_NAMES:
                return f"Py.callValue {lname(n)} {self.atom(a[0])}", False
            self.fail(e, f"call of {n}")
        if isinstance(f, ast.Attribute):
            # cls._sibling(value)
            if isinstance(f.value, ast.Name) and f.value.id in ("cls", "self") and f.attr in self.siblings:
                args = " ".join(self.atom(x) for x in e.args)
                return f"{self.owner}.{lean_ident(f.attr)} P {args}", False
            if f.attr == "as_tuple" and not e.args:
                return f"Py.asTuple {self.atom(f.value)}", False
            if isinstance(f.value, ast.Name) and f.value.id == "re" and f.attr == "fullmatch" and len(e.args) == 2:
                return f"Py.reFullmatch P {self.atom(e.args[0])} {self.atom(e.args[1])}", False
            self.fail(e, f"method {f.attr}")
        if isinstance(f, ast.Call):
            # type(value)(lst)
            if isinstance(f.func, ast.Name) and f.func.id == "type" and len(f.args) == 1 and len(e.args) == 1:
                return f"Py.construct (Py.typeOf {self.atom(f.args[0])}) {self.atom(e.args[0])}", False
        self.fail(e, "call form")

    # ---- conditions: Lean Bool-valued code usable inside a `do` block (may contain nested `(← …)`) ---------
    def cond(self, e) -> str:
        if isinstance(e, ast.UnaryOp) and isinstance(e.op, ast.Not):
            return f"(!{self.cond(e.operand)})"
        if isinstance(e, ast.BoolOp):
            # short-circuit, as Python
            parts = [self.cond_m(v) for v in e.values]
            acc = parts[-1]
            for p in reversed(parts[:-1]):
                if isinstance(e.op, ast.Or):
                    acc = f"(do if (← {p}) then pure true else {acc})"
                else:
                    acc = f"(do if (← {p}) then {acc} else pure false)"
            return f"(← {acc})"
        if isinstance(e, ast.Compare):
            if len(e.ops) != 1:
                self.fail(e, "chained comparison")
            op, l, r = e.ops[0], e.left, e.comparators[0]
            m = {ast.Lt: "lt", ast.LtE: "le", ast.Gt: "gt", ast.GtE: "ge"}.get(type(op))
            if m:
                return f"(← Py.{m} {self.atom(l)} {self.atom(r)})"
            if isinstance(op, ast.Eq):
                return f"(Py.eq {self.atom(l)} {self.atom(r)})"
            if isinstance(op, ast.NotEq):
                return f"(Py.ne {self.atom(l)} {self.atom(r)})"
            if isinstance(op, ast.In):
                return f"(← Py.contains {self.atom(r)} {self.atom(l)})"
            if isinstance(op, ast.NotIn):
                return f"(!(← Py.contains {self.atom(r)} {self.atom(l)}))"
            self.fail(e, "comparison operator")
        if isinstance(e, ast.Call) and isinstance(e.func, ast.Name) and not e.keywords:
            if e.func.id == "isinstance" and len(e.args) == 2 and isinstance(e.args[1], ast.Name) and e.args[1].id in CLS_NAMES:
                return f"(Py.isinstance {self.atom(e.args[0])} {CLS_NAMES[e.args[1].id]})"
            if e.func.id == "hasattr" and len(e.args) == 2 and isinstance(e.args[1], ast.Constant) and isinstance(e.args[1].value, str):
                return f"(Py.hasattr {self.atom(e.args[0])} {json.dumps(e.args[1].value)})"
        return f"(Py.truthy {self.atom(e)})"

    def cond_m(self, e) -> str:
        """condition as an `M Bool` action (for short-circuit operators)"""
        return f"(do pure {self.cond(e)})"

    # ---- statements -----------------------------------------------------------------------------------------
    def assign(self, name: str, code_pure, ind: str) -> str:
        code, pure = code_pure
        n = lname(name)
        if name in self.declared:
            return f"{ind}{n} {'←' if not pure else ':='} {code}" if not pure else f"{ind}{n} := {code}"
        self.declared.add(name)
        return f"{ind}let mut {n} ← {code}" if not pure else f"{ind}let mut {n} := {code}"

    def stmts(self, body, ind: str) -> list[str]:
        out = []
        for s in body:
            out += self.stmt(s, ind)
        return out

    def stmt(self, s, ind: str) -> list[str]:
        if isinstance(s, ast.Expr) and isinstance(s.value, ast.Constant) and isinstance(s.value.value, str):
            return []  # docstring
        if isinstance(s, ast.Return):
            if s.value is None:
                return [f"{ind}return PyVal.none"]
            if isinstance(s.value, ast.Tuple):
                items = ", ".join(self.atom(x) for x in s.value.elts)
                return [f"{ind}return (PyVal.seq .tuple [{items}])"]
            code, pure = self.val(s.value)
            return [f"{ind}return {code}" if pure else f"{ind}return (← {code})"]
        if isinstance(s, ast.Raise):
            exc = s.exc
            name = exc.func.id if isinstance(exc, ast.Call) and isinstance(exc.func, ast.Name) else (exc.id if isinstance(exc, ast.Name) else None)
            m = {"ValueError": ".valueError", "TypeError": ".typeError"}.get(name)
            if not m:
                self.fail(s, "raise form")
            return [f"{ind}throw {m}"]
        if isinstance(s, ast.Assign):
            if len(s.targets) != 1:
                self.fail(s)
            t = s.targets[0]
            if isinstance(t, ast.Name):
                return [self.assign(t.id, self.val(s.value), ind)]
            if isinstance(t, ast.Tuple) and len(t.elts) == 2 and all(isinstance(x, ast.Name) for x in t.elts):
                a, b = t.elts[0].id, t.elts[1].id
                tmp = f"pair_{s.lineno}"
                out = [f"{ind}let {tmp} ← Py.unpack2 {self.atom(s.value)}"]
                out.append(self.assign(a, (f"{tmp}.1", True), ind))
                out.append(self.assign(b, (f"{tmp}.2", True), ind))
                return out
            self.fail(s, "assignment target")
        if isinstance(s, ast.If):
            # declare variables first assigned inside a branch before the `if` (Lean scoping)
            pre = []
            for nm in sorted(assigned_names(s.body) | assigned_names(s.orelse)):
                if nm not in self.declared:
                    self.declared.add(nm)
                    pre.append(f"{ind}let mut {lname(nm)} := PyVal.none")
            out = pre + [f"{ind}if {self.cond(s.test)} then"]
            out += self.stmts(s.body, ind + "  ") or [f"{ind}  pure ()"]
            if s.orelse:
                out.append(f"{ind}else")
                out += self.stmts(s.orelse, ind + "  ")
            return out
        if isinstance(s, ast.For):
            if s.orelse or not isinstance(s.target, ast.Name):
                self.fail(s, "for form")
            pre = []
            for nm in sorted(assigned_names(s.body)):
                if nm not in self.declared:
                    self.declared.add(nm)
                    pre.append(f"{ind}let mut {lname(nm)} := PyVal.none")
            out = pre + [f"{ind}for {lname(s.target.id)} in (← Py.iter {self.atom(s.iter)}) do"]
            out += self.stmts(s.body, ind + "  ")
            return out
        if isinstance(s, ast.Continue):
            return [f"{ind}continue"]
        if isinstance(s, ast.Pass):
            return [f"{ind}pure ()"]
        if isinstance(s, ast.Expr) and isinstance(s.value, ast.Call):
            c = s.value
            if isinstance(c.func, ast.Attribute) and c.func.attr == "append" and isinstance(c.func.value, ast.Name) and len(c.args) == 1:
                nm = c.func.value.id
                return [f"{ind}{lname(nm)} ← Py.append {lname(nm)} {self.atom(c.args[0])}"]
        self.fail(s)

    def translate(self) -> str:
        args = [a.arg for a in self.fn.args.args if a.arg not in ("cls", "self")]
        reassigned = assigned_names(self.fn.body)
        head = f"def {lean_ident(self.fn.name)} (P : Prims) {' '.join(f'({lname(a)} : PyVal)' for a in args)} : M PyVal := do"
        lines = [f"/-- {self.src_file}:{self.fn.lineno} `{self.fn.name}` -/", head]
        lines.append("  let _ := P")
        for a in args:
            self.declared.add(a)
            if a in reassigned:
                lines.append(f"  let mut {lname(a)} := {lname(a)}")
        lines += self.stmts(self.fn.body, "  ")
        return "\n".join(lines)


def assigned_names(body) -> set[str]:
    out = set()
    for node in body:
        for n in ast.walk(node):
            if isinstance(n, ast.Assign):
                for t in n.targets:
                    for x in ast.walk(t):
                        if isinstance(x, ast.Name):
                            out.add(x.id)
            elif isinstance(n, ast.Expr) and isinstance(n.value, ast.Call) and isinstance(n.value.func, ast.Attribute) \
                    and n.value.func.attr == "append" and isinstance(n.value.func.value, ast.Name):
                out.add(n.value.func.value.id)
    return out


def lean_ident(n: str) -> str:
    return {"_parse_decimal": "parseDecimal"}.get(n, n)


# -------------------------------------------------------------------------------------------------------------
# tables
# -------------------------------------------------------------------------------------------------------------

def find_assign(tree, name, cls=None):
    body = tree.body
    if cls:
        for n in tree.body:
            if isinstance(n, ast.ClassDef) and n.name == cls:
                body = n.body
                break
        else:
            return None
    for n in body:
        if isinstance(n, ast.Assign) and any(isinstance(t, ast.Name) and t.id == name for t in n.targets):
            return n.value
        if isinstance(n, ast.AnnAssign) and isinstance(n.target, ast.Name) and n.target.id == name and n.value is not None:
            return n.value
    return None


def cls_lit(e) -> str:
    if isinstance(e, ast.Name) and e.id in CLS_NAMES:
        return f"(PyVal.cls {CLS_NAMES[e.id]})"
    raise Untranslatable(f"class literal {ast.dump(e)}")


def lean_str_list(xs) -> str:
    return "[" + ", ".join(json.dumps(x) for x in xs) + "]"


def gen_tables(repo: Path, notes: list) -> tuple[str, dict]:
    rule = ast.parse((repo / "utype/parser/rule.py").read_text())
    out = ["import Utv.Py.Basic", "/-! GENERATED by tools/extract.py from /repo source text — do not edit. -/",
           "namespace Utv.Gen.Tables", "open Utv.Py", ""]
    js = {}
    # TYPE_EXACT_TOLERANCE
    tet = find_assign(rule, "TYPE_EXACT_TOLERANCE")
    items = []
    for el in tet.elts:
        kind = {ast.Set: ".set", ast.Tuple: ".tuple", ast.List: ".list"}[type(el)]
        items.append(f"PyVal.seq {kind} [{', '.join(cls_lit(x) for x in el.elts)}]")
    out.append("/-- rule.py `TYPE_EXACT_TOLERANCE` (note: an entry written as a tuple never equals a set) -/")
    out.append(f"def TYPE_EXACT_TOLERANCE : PyVal := PyVal.seq .tuple [{', '.join(items)}]")
    # __constraints__ order
    order = None
    for n in ast.walk(rule):
        val = None
        if isinstance(n, ast.Assign) and any(isinstance(t, ast.Name) and t.id == "__constraints__" for t in n.targets):
            val = n.value
        elif isinstance(n, ast.AnnAssign) and isinstance(n.target, ast.Name) and n.target.id == "__constraints__":
            val = n.value
        if isinstance(val, (ast.List, ast.Tuple)) and all(isinstance(x, ast.Constant) for x in val.elts):
            order = [x.value for x in val.elts]
            break
    if order is None:
        notes.append("untranslatable utype/parser/rule.py Rule.__constraints__")
        order = []
    js["constraint_order"] = order
    out.append("/-- rule.py `Rule.__constraints__`: the order in which validators run -/")
    out.append(f"def constraintOrder : List String := {lean_str_list(order)}")
    # transformer tables
    tr = ast.parse((repo / "utype/utils/transform.py").read_text())
    for nm in ("NULL_VALUES", "FALSE_VALUES", "TRUE_VALUES", "ARRAY_SEPARATORS", "STRUCTURE_BRACKET"):
        v = find_assign(tr, nm, "TypeTransformer")
        try:
            vals = [x.value for x in v.elts]
        except Exception:
            notes.append(f"untranslatable utype/utils/transform.py TypeTransformer.{nm}")
            vals = []
        js[nm] = vals
        out.append(f"def {nm} : List String := {lean_str_list(vals)}")
    ms = find_assign(tr, "MS_WATERSHED", "TypeTransformer")
    try:
        msv = int(eval(compile(ast.Expression(ms), "x", "eval"), {"__builtins__": {}, "int": int}))
    except Exception:
        notes.append("untranslatable TypeTransformer.MS_WATERSHED")
        msv = 0
    js["MS_WATERSHED"] = msv
    out.append(f"def MS_WATERSHED : Nat := {msv}")
    # Options defaults (class attributes of Options that are plain literals)
    opt = ast.parse((repo / "utype/parser/options.py").read_text())
    defaults = {}
    for n in opt.body:
        if isinstance(n, ast.ClassDef) and n.name == "Options":
            for s in n.body:
                tgt, val = None, None
                if isinstance(s, ast.AnnAssign) and isinstance(s.target, ast.Name) and s.value is not None:
                    tgt, val = s.target.id, s.value
                elif isinstance(s, ast.Assign) and len(s.targets) == 1 and isinstance(s.targets[0], ast.Name):
                    tgt, val = s.targets[0].id, s.value
                if tgt and isinstance(val, ast.Constant):
                    defaults[tgt] = val.value
    js["options_defaults"] = defaults
    out.append("/-- options.py: class-level defaults of `Options` that are literals -/")
    out.append("def optionsDefaults : List (String × String) := [" + ", ".join(
        f"({json.dumps(k)}, {json.dumps(repr(v))})" for k, v in defaults.items()) + "]")
    out += ["", "end Utv.Gen.Tables", ""]
    return "\n".join(out), js


def gen_constraints(repo: Path, notes: list) -> str:
    src_file = "utype/parser/rule.py"
    tree = ast.parse((repo / src_file).read_text())
    cls = next((n for n in tree.body if isinstance(n, ast.ClassDef) and n.name == "Constraints"), None)
    out = ["import Utv.Py.Basic", "import Utv.Gen.Tables",
           "/-! GENERATED by tools/extract.py from utype/parser/rule.py (class Constraints) — do not edit. -/",
           "set_option linter.unusedVariables false",
           "namespace Utv.Gen.Constraints", "open Utv.Py", "open Utv.Gen", ""]
    fns = {n.name: n for n in (cls.body if cls else []) if isinstance(n, ast.FunctionDef)}
    # dependency order: _parse_decimal first
    names = sorted(CONSTRAINT_FUNCS, key=lambda n: (n != "_parse_decimal",))
    for name in names:
        fn = fns.get(name)
        if fn is None:
            notes.append(f"untranslatable {src_file} Constraints.{name} (not found)")
            out.append(f"def {lean_ident(name)} (P : Prims) (a_ b_ : PyVal) : M PyVal := throw (.unmodelled \"missing {name}\")\n")
            continue
        nargs = len([a for a in fn.args.args if a.arg not in ("cls", "self")])
        try:
            tr = FuncTranslator(fn, "Utv.Gen.Constraints", set(CONSTRAINT_FUNCS), {"TYPE_EXACT_TOLERANCE"}, src_file)
            out.append(tr.translate() + "\n")
        except Untranslatable as e:
            notes.append(f"untranslatable {e} (Constraints.{name})")
            params = " ".join(f"(a{i}_ : PyVal)" for i in range(nargs))
            out.append(f"def {lean_ident(name)} (P : Prims) {params} : M PyVal := throw (.unmodelled \"untranslatable {name}\")\n")
    out += ["end Utv.Gen.Constraints", ""]
    return "\n".join(out)


# -------------------------------------------------------------------------------------------------------------
# utils/functional.py: multi, copy_value  ->  Gen/Functional.lean (over Utv.C03C.CVal; recursion left open: the
# recursive call becomes the parameter `rec`, theorems are about every function satisfying the equation)
# -------------------------------------------------------------------------------------------------------------

FUNC_CLS = {"list": ".list", "tuple": ".tuple", "set": ".set", "frozenset": ".frozenset", "dict": ".dict"}


class FunctionalTranslator:
    def __init__(self, fn: ast.FunctionDef, bool_siblings: set[str], src_file: str):
        self.fn = fn
        self.bool_siblings = bool_siblings
        self.src_file = src_file

    def fail(self, node, why=""):
        raise Untranslatable(f"{self.src_file}:{getattr(node, 'lineno', '?')} {type(node).__name__} {why}")

    def name(self, e) -> str:
        if isinstance(e, ast.Name) and e.id not in FUNC_CLS:
            return lname(e.id)
        self.fail(e, "expected a local name")

    def cls(self, e) -> str:
        if isinstance(e, ast.Name) and e.id in FUNC_CLS:
            return FUNC_CLS[e.id]
        # type({}.values()) / type({}.keys())
        if isinstance(e, ast.Call) and isinstance(e.func, ast.Name) and e.func.id == "type" and len(e.args) == 1 and not e.keywords:
            a = e.args[0]
            if isinstance(a, ast.Call) and isinstance(a.func, ast.Attribute) and isinstance(a.func.value, ast.Dict) \
                    and not a.func.value.keys and not a.args and a.func.attr in ("values", "keys"):
                return ".dictValues" if a.func.attr == "values" else ".dictKeys"
        self.fail(e, "class expression")

    def cond(self, e) -> str:
        if isinstance(e, ast.UnaryOp) and isinstance(e.op, ast.Not):
            return f"(!{self.cond(e.operand)})"
        if isinstance(e, ast.BoolOp):
            op = " && " if isinstance(e.op, ast.And) else " || "
            return "(" + op.join(self.cond(v) for v in e.values) + ")"
        if isinstance(e, ast.Call) and isinstance(e.func, ast.Name) and not e.keywords:
            if e.func.id == "isinstance" and len(e.args) == 2:
                c = e.args[1]
                cs = [self.cls(x) for x in c.elts] if isinstance(c, ast.Tuple) else [self.cls(c)]
                return f"(CV.isinstance {self.name(e.args[0])} [{', '.join(cs)}])"
            if e.func.id in self.bool_siblings and len(e.args) == 1:
                return f"({e.func.id} {self.name(e.args[0])})"
        self.fail(e, "condition")

    def elt(self, e, var: str) -> str:
        """element expression of a comprehension over `var`: the variable itself or f(var) with f the function itself"""
        if isinstance(e, ast.Name) and e.id == var:
            return f"pure {lname(var)}"
        if isinstance(e, ast.Call) and isinstance(e.func, ast.Name) and e.func.id == self.fn.name and len(e.args) == 1 \
                and not e.keywords and isinstance(e.args[0], ast.Name) and e.args[0].id == var:
            return f"rec {lname(var)}"
        self.fail(e, "comprehension element")

    def items(self, e) -> str:
        """[g(d) for d in x] / (g(d) for d in x)  ->  M (List CVal)"""
        if isinstance(e, (ast.ListComp, ast.GeneratorExp)) and len(e.generators) == 1:
            g = e.generators[0]
            if not g.ifs and not g.is_async and isinstance(g.target, ast.Name):
                return f"(← CV.iter {self.name(g.iter)}).mapM (fun {lname(g.target.id)} => {self.elt(e.elt, g.target.id)})"
        self.fail(e, "comprehension form")

    def value(self, e) -> str:
        """-> code of type M CVal"""
        if isinstance(e, ast.Name):
            return f"pure {self.name(e)}"
        if isinstance(e, ast.ListComp):
            return f"CV.construct W .list (← {self.items(e)})"
        if isinstance(e, ast.DictComp) and len(e.generators) == 1:
            g = e.generators[0]
            it = g.iter
            if not g.ifs and isinstance(g.target, ast.Tuple) and len(g.target.elts) == 2 and all(isinstance(x, ast.Name) for x in g.target.elts) \
                    and isinstance(it, ast.Call) and isinstance(it.func, ast.Attribute) and it.func.attr == "items" and not it.args \
                    and isinstance(e.key, ast.Name) and e.key.id == g.target.elts[0].id:
                v = g.target.elts[1].id
                return f"CV.dictMapValues {self.name(it.func.value)} (fun {lname(v)} => {self.elt(e.value, v)})"
            self.fail(e, "dict comprehension form")
        if isinstance(e, ast.Call) and len(e.args) == 1 and not e.keywords:
            f = e.func
            if isinstance(f, ast.Call) and isinstance(f.func, ast.Name) and f.func.id == "type" and len(f.args) == 1:
                return f"CV.construct W (CV.typeOf {self.name(f.args[0])}) (← {self.items(e.args[0])})"
            if isinstance(f, ast.Name) and f.id in FUNC_CLS and f.id != "dict":
                return f"CV.construct W {FUNC_CLS[f.id]} (← {self.items(e.args[0])})"
        self.fail(e, "returned expression")

    def stmts(self, body, ind: str) -> list[str]:
        out = []
        for st in body:
            if isinstance(st, ast.Expr) and isinstance(st.value, ast.Constant) and isinstance(st.value.value, str):
                continue
            if isinstance(st, ast.Return) and st.value is not None:
                out.append(f"{ind}return (← {self.value(st.value)})")
            elif isinstance(st, ast.If):
                out.append(f"{ind}if {self.cond(st.test)} then")
                out += self.stmts(st.body, ind + "  ") or [f"{ind}  pure ()"]
                if st.orelse:
                    out.append(f"{ind}else")
                    out += self.stmts(st.orelse, ind + "  ")
            else:
                self.fail(st, "statement")
        return out

    def args(self):
        a = self.fn.args
        if a.vararg or a.kwarg or a.kwonlyargs or a.defaults or len(a.args) != 1:
            self.fail(self.fn, "signature")
        return a.args[0].arg

    def translate_bool(self) -> str:
        arg = self.args()
        body = [st for st in self.fn.body if not (isinstance(st, ast.Expr) and isinstance(st.value, ast.Constant))]
        if len(body) != 1 or not isinstance(body[0], ast.Return):
            self.fail(self.fn, "bool function body")
        return (f"/-- {self.src_file}:{self.fn.lineno} `{self.fn.name}` -/\n"
                f"def {self.fn.name} ({lname(arg)} : CVal) : Bool :=\n  {self.cond(body[0].value)}")

    def translate_step(self) -> str:
        arg = self.args()
        lines = [f"/-- {self.src_file}:{self.fn.lineno} `{self.fn.name}`, one unfolding: the recursive calls go through `rec` -/",
                 f"def {self.fn.name}_step (W : World) (rec : CVal → M CVal) ({lname(arg)} : CVal) : M CVal := do",
                 "  let _ := W", "  let _ := rec"]
        body = self.stmts(self.fn.body, "  ")
        if not body:
            self.fail(self.fn, "empty body")
        return "\n".join(lines + body)


def gen_functional(repo: Path, notes: list) -> str:
    src_file = "utype/utils/functional.py"
    tree = ast.parse((repo / src_file).read_text())
    fns = {n.name: n for n in tree.body if isinstance(n, ast.FunctionDef)}
    out = ["import Utv.Model.C03Copy",
           "/-! GENERATED by tools/extract.py from utype/utils/functional.py (multi, copy_value) — do not edit. -/",
           "set_option linter.unusedVariables false",
           "namespace Utv.Gen.Functional", "open Utv.C03C", ""]
    try:
        if "multi" not in fns:
            raise Untranslatable(f"{src_file} multi (not found)")
        out.append(FunctionalTranslator(fns["multi"], set(), src_file).translate_bool() + "\n")
    except Untranslatable as e:
        notes.append(f"untranslatable {e} (functional.multi)")
        out.append("def multi (f_ : CVal) : Bool := false\n")
    try:
        if "copy_value" not in fns:
            raise Untranslatable(f"{src_file} copy_value (not found)")
        out.append(FunctionalTranslator(fns["copy_value"], {"multi"}, src_file).translate_step() + "\n")
    except Untranslatable as e:
        notes.append(f"untranslatable {e} (functional.copy_value)")
        out.append("def copy_value_step (W : World) (rec : CVal → M CVal) (data_ : CVal) : M CVal := "
                   "throw (.unmodelled \"untranslatable copy_value\")\n")
    out += ["end Utv.Gen.Functional", ""]
    return "\n".join(out)



# -------------------------------------------------------------------------------------------------------------
# object code: methods that read attributes of `self` / `options`, call user callables, assign to `self`
#   -> Lean `do` blocks over `Utv.Obj.OVal` (lean/Utv/GenEq/Support.lean)
# -------------------------------------------------------------------------------------------------------------

OBJ_CLASS_NAMES = {"bool", "int", "str", "list", "tuple", "set", "frozenset", "dict", "Options", "RuntimeContext", "Mapping",
                   "type", "Iterable", "ForwardRef", "LogicalType"}
EXC_SUBCLASSES: dict = {}      # utype exception class -> the classes defined below it (filled by `load_exc_subclasses`)


def load_exc_subclasses(repo: Path):
    """the class tree of utype/utils/exceptions.py: name -> every class derived from it, in source order"""
    EXC_SUBCLASSES.clear()
    try:
        tree = ast.parse((repo / "utype/utils/exceptions.py").read_text())
    except Exception:
        return
    classes = [(n.name, [b.id for b in n.bases if isinstance(b, ast.Name)]) for n in tree.body if isinstance(n, ast.ClassDef)]
    for name, _ in classes:
        below = []
        for c, bases in classes:        # source order: a base is always written before its subclasses
            if c != name and any(b == name or b in below for b in bases):
                below.append(c)
        EXC_SUBCLASSES[name] = below


OBJ_EXC_BUILTIN = {"TypeError", "ValueError", "KeyError", "IndexError", "AttributeError", "Exception"}


class Sibling:
    """another translated function of the same output file"""

    def __init__(self, py_name, lean_name, kind, n_args, is_property=False, fn=None, recv="self", state=None):
        self.py_name, self.lean_name, self.kind, self.n_args, self.is_property = py_name, lean_name, kind, n_args, is_property
        self.fn, self.recv = fn, recv
        self.state = state       # for kind "mut": the parameter that is threaded when it is not the receiver

    def positional(self, tr, call: "ast.Call") -> list:
        """the call's arguments as the positional list of the callee's signature (keywords placed, defaults filled in)"""
        if self.fn is None:
            if call.keywords:
                tr.fail(call, "keyword arguments to a callee whose signature is unknown")
            return list(call.args)
        a = self.fn.args
        params = [x.arg for x in a.args if x.arg != self.recv]
        defaults = dict(zip(reversed(params), reversed(a.defaults)))
        if a.vararg or a.kwarg or a.kwonlyargs or any(isinstance(x, ast.Starred) for x in call.args) or len(call.args) > len(params):
            tr.fail(call, "call form")
        got = dict(zip(params, call.args))
        for k in call.keywords:
            if k.arg is None or k.arg not in params or k.arg in got:
                tr.fail(call, "keyword argument")
            got[k.arg] = k.value
        out = []
        for prm in params:
            if prm in got:
                out.append(got[prm])
            elif prm in defaults:
                out.append(defaults[prm])
            else:
                tr.fail(call, f"missing argument {prm}")
        return out


class ObjTranslator:
    """One Python function/method -> one Lean `def` over `OVal V` in the monad `M V`.

    kind = "pure":  `def f (W : World V) (self_ …args : OVal V) : M V (OVal V)`
    kind = "mut":   the method assigns to `self`:  `… : M V (OVal V × Outcome V)`; the receiver travels with the outcome
                    (`return x` -> `(self_, .ret x)`, `raise X(…)` -> `(self_, .raise X)`)
    """

    def __init__(self, fn, *, src_file, lean_name, kind, siblings, externals=(), ignored_calls=(), params=None,
                 has_self=True, stop_before=None, result_locals=None, doc="", method_externals=(), consts=None,
                 state=None, state_siblings=None, enter_ok=True, operators=None, constructors=None, owner_cls=None,
                 module_tables=None, module_calls=None, dict_base=False, module_consts=None, kwargs_param=False,
                 foreign_self_methods=()):
        self.fn, self.src_file, self.lean_name, self.kind = fn, src_file, lean_name, kind
        # a subclass of `dict`: the instance keeps its items under the pseudo attribute "<dict>"; `super().m(…)` is `dict.m`
        self.dict_base = dict_base
        self.kwargs_param = kwargs_param        # a used `**kwargs` arrives as one more parameter holding the dict
        # methods of self that are not translated: called on the threaded self they are the world's (`W.method`)
        self.foreign_self_methods = set(foreign_self_methods)
        # constants of a class of another module, read from its source: "utype.Options.THROW" -> Lean code of the value
        self.module_consts: dict = dict(module_consts or {})
        self.siblings: dict[str, Sibling] = siblings
        self.externals, self.ignored_calls = set(externals), set(ignored_calls)
        self.method_externals = set(method_externals)
        self.consts = dict(consts or {})
        first = fn.args.args[0].arg if fn.args.args else None
        self.recv = first if (has_self and first in ("self", "cls")) else "self"
        # the object whose changes travel with the outcome of a "mut" function: the receiver, or a named parameter
        # (`context`) whose own methods (translated elsewhere: `state_siblings`) are called on it
        self.state = state or self.recv
        self.state_siblings: dict[str, Sibling] = dict(state_siblings or {})
        self.enter_ok = enter_ok
        self.operators: dict[str, Sibling] = dict(operators or {})
        self.constructors: dict[str, Sibling] = dict(constructors or {})     # class name -> its `<Cls>_new`
        self.owner_cls = owner_cls
        self.module_tables: dict = dict(module_tables or {})
        self.module_calls: dict = dict(module_calls or {})     # "inspect.isclass" -> name the world knows it by
        self.has_self = has_self
        self.params = params
        self.stop_before = stop_before          # predicate on a statement: translation ends before it
        self.result_locals = result_locals      # names returned as an `obj "locals"` when the cut is reached
        self.doc = doc
        self.declared: set[str] = set()
        self.handler_vars: dict[str, str] = {}      # `except … as e`: Python name -> the Lean variable holding the `Exc`
        self.tmp = 0

    def fail(self, node, why=""):
        raise Untranslatable(f"{self.src_file}:{getattr(node, 'lineno', '?')} {type(node).__name__} {why}")

    # ---- a `dict` subclass: `super().m(…)` ---------------------------------------------------------------------
    def super_call(self, e):
        """`super().m(args)` in a class built on dict: (m, args), else None"""
        if self.dict_base and isinstance(e, ast.Call) and isinstance(e.func, ast.Attribute) \
                and isinstance(e.func.value, ast.Call) and isinstance(e.func.value.func, ast.Name) \
                and e.func.value.func.id == "super" and not e.func.value.args and not e.func.value.keywords and not e.keywords:
            return e.func.attr, e.args
        return None

    @property
    def items_l(self) -> str:
        return f"(← getattr {self.recv_l} \"<dict>\")"

    def super_stmt(self, c, ind: str, target: str | None, returns: bool) -> list[str] | None:
        """a statement made of one `dict` method on self: the new items go back into the threaded self"""
        sc = self.super_call(c)
        if sc is None:
            return None
        m, a = sc
        if m in ("__contains__", "__getitem__"):
            return None         # they read only: expressions
        if self.kind != "mut" or self.state != self.recv:
            self.fail(c, "dict method of self in a function that does not thread self")
        plain = not any(isinstance(x, ast.Starred) for x in a)
        put = lambda code: self.set_self_attr("<dict>", f"(← {code})", ind)
        if m == "__delitem__" and len(a) == 1 and plain:
            lines, result = [put(f"dictDel {self.items_l} {self.atom(a[0])}")], "OVal.none"
        elif m == "__setitem__" and len(a) == 2 and plain:
            lines, result = [put(f"dictSet {self.items_l} {self.atom(a[0])} {self.atom(a[1])}")], "OVal.none"
        elif m == "clear" and not a:
            lines, result = [put(f"dictClear {self.items_l}")], "OVal.none"
        elif m == "pop" and len(a) in (1, 2) and isinstance(a[0], ast.expr) and not isinstance(a[0], ast.Starred):
            # `super().pop(k)`, `super().pop(k, d)`, `super().pop(k, *args)` with `args` the tuple of optional defaults
            if len(a) == 1:
                dflt = "(OVal.seq .tuple [])"
            elif isinstance(a[1], ast.Starred):
                dflt = self.atom(a[1].value)
            else:
                dflt = f"(OVal.seq .tuple [{self.atom(a[1])}])"
            r = f"pop_{c.lineno}"
            lines = [f"{ind}let {r} ← dictPop {self.items_l} {self.atom(a[0])} {dflt}",
                     f"{ind}{self.state_l} ← setattr {self.state_l} \"<dict>\" {r}.1"]
            result = f"{r}.2"
        else:
            self.fail(c, f"dict method {m}")
        if target is not None:
            lines.append(self.assign(target, (result, True), ind))
        if returns:
            lines.append(self.ret(result, ind))
        return lines

    # ---- class expressions (isinstance second argument, except clauses) ----------------------------------------
    def cls_name(self, e) -> str:
        if isinstance(e, ast.Name) and e.id in OBJ_CLASS_NAMES | OBJ_EXC_BUILTIN:
            return e.id
        if isinstance(e, ast.Attribute) and isinstance(e.value, ast.Name) and e.value.id == "exc":
            return e.attr
        if isinstance(e, ast.Call) and isinstance(e.func, ast.Name) and e.func.id == "type" and len(e.args) == 1 and not e.keywords:
            a = e.args[0]
            if isinstance(a, ast.Constant) and a.value is None:
                return "NoneType"
            if isinstance(a, ast.Call) and isinstance(a.func, ast.Attribute) and isinstance(a.func.value, ast.Dict) \
                    and not a.func.value.keys and not a.args and a.func.attr in ("values", "keys"):
                return "dict_" + a.func.attr
        self.fail(e, "class expression")

    def cls_list(self, e, subclasses=False) -> str:
        elts = e.elts if isinstance(e, ast.Tuple) else [e]
        names = []
        for x in elts:
            n = self.cls_name(x)
            names.append(n)
            if subclasses and isinstance(x, ast.Attribute) and isinstance(x.value, ast.Name) and x.value.id == "exc":
                # `isinstance(v, exc.X)`: an instance of a class is an instance of its bases — the classes written in
                # utype/utils/exceptions.py below X count too (the value layer knows an object's own class name only)
                names += [m for m in EXC_SUBCLASSES.get(n, []) if m not in names]
        return "[" + ", ".join(json.dumps(n) for n in names) + "]"

    # ---- expressions: (code, pure); pure code : OVal V, impure code : M V (OVal V) ------------------------------
    def bind(self, cp):
        code, pure = cp
        return code if pure else f"(← {code})"

    def atom(self, e) -> str:
        return self.bind(self.val(e))

    def args_list(self, args) -> str:
        return "[" + ", ".join(self.atom(a) for a in args) + "]"

    def is_self(self, e) -> bool:
        return self.has_self and isinstance(e, ast.Name) and e.id == self.recv

    def same_class(self, e) -> bool:
        """a parameter annotated with the class that owns this method (`other: "Options"`)"""
        if not (isinstance(e, ast.Name) and self.owner_cls):
            return False
        for a in self.fn.args.args:
            if a.arg == e.id and a.annotation is not None:
                an = a.annotation
                return (isinstance(an, ast.Name) and an.id == self.owner_cls) or \
                       (isinstance(an, ast.Constant) and an.value == self.owner_cls)
        return False

    def is_state(self, e) -> bool:
        return self.kind == "mut" and isinstance(e, ast.Name) and e.id == self.state

    @property
    def recv_l(self) -> str:
        return lname(self.recv)

    @property
    def state_l(self) -> str:
        return lname(self.state)

    def exc_class_call(self, e) -> bool:
        """`exc.X(...)` / `TypeError(...)`: an exception object built as a value"""
        return isinstance(e, ast.Call) and (
            (isinstance(e.func, ast.Attribute) and isinstance(e.func.value, ast.Name) and e.func.value.id == "exc")
            or (isinstance(e.func, ast.Name) and e.func.id in OBJ_EXC_BUILTIN))

    def val(self, e):
        if isinstance(e, ast.Attribute) and self.module_consts and ast.unparse(e) in self.module_consts:
            return self.module_consts[ast.unparse(e)], True
        if isinstance(e, ast.Name):
            if e.id == "unprovided":
                return "OVal.unprovided", True
            if e.id in self.declared or e.id in self.handler_vars:
                if e.id in self.handler_vars:
                    return f"(Exc.toVal {self.handler_vars[e.id]})", True      # the caught exception as an object
                return lname(e.id), True
            if e.id in OBJ_CLASS_NAMES:
                # a builtin class handed on as a value (`type=dict` in an error): known by its name
                return f"(OVal.obj \"type\" [(\"__name__\", (OVal.str {json.dumps(e.id)}))])", True
            if e.id in self.consts:
                # a module-level integer constant, inlined with the value it has in the source now
                return f"(OVal.int ({self.consts[e.id]}))", True
            self.fail(e, f"unknown name {e.id}")
        if isinstance(e, ast.Constant):
            v = e.value
            if v is None:
                return "OVal.none", True
            if v is Ellipsis:
                return "OVal.ellipsis", True
            if v is True or v is False:
                return f"(OVal.bool {'true' if v else 'false'})", True
            if isinstance(v, int):
                return f"(OVal.int ({v}))", True
            if isinstance(v, str):
                return f"(OVal.str {json.dumps(v)})", True
            self.fail(e, "constant")
        if isinstance(e, (ast.Set, ast.Tuple, ast.List)):
            kind = {ast.Set: ".set", ast.Tuple: ".tuple", ast.List: ".list"}[type(e)]
            return f"(OVal.seq {kind} [{', '.join(self.atom(x) for x in e.elts)}])", True
        if isinstance(e, ast.Dict):
            if any(k is None for k in e.keys):
                self.fail(e, "dict unpacking")
            items = ", ".join(f"({self.atom(k)}, {self.atom(v)})" for k, v in zip(e.keys, e.values))
            return f"(OVal.dict [{items}])", True
        if isinstance(e, ast.BinOp) and isinstance(e.op, ast.BitAnd) and "__and__" in self.operators:
            # `a & b` on `Options`: the translated `Options.__and__` (the left operand is its receiver)
            sb = self.operators["__and__"]
            return f"{sb.lean_name} W {self.atom(e.left)} {self.atom(e.right)}", False
        if isinstance(e, ast.BinOp):
            op = {ast.Sub: "sub", ast.Add: "concat", ast.Mult: "mul", ast.FloorDiv: "floordiv", ast.Mod: "mod"}.get(type(e.op))
            if not op:
                self.fail(e, "operator")
            return f"{op} {self.atom(e.left)} {self.atom(e.right)}", False
        if isinstance(e, ast.UnaryOp) and isinstance(e.op, ast.USub):
            return f"neg {self.atom(e.operand)}", False
        if isinstance(e, ast.BoolOp):
            # value-level short circuit: `a or b` is a if a is true else b; `a and b` is a if a is false else b
            parts = [f"(do pure {self.atom(v)})" for v in e.values]
            acc = parts[-1]
            for p in reversed(parts[:-1]):
                if isinstance(e.op, ast.Or):
                    acc = f"(do let x ← {p}; if (← truthy x) then pure x else {acc})"
                else:
                    acc = f"(do let x ← {p}; if (← truthy x) then {acc} else pure x)"
            return acc, False
        if isinstance(e, ast.Compare) or (isinstance(e, ast.UnaryOp) and isinstance(e.op, ast.Not)):
            return f"(OVal.bool {self.cond(e)})", True
        if isinstance(e, ast.IfExp):
            return (f"(do if {self.cond(e.test)} then pure {self.atom(e.body)} else pure {self.atom(e.orelse)})"), False
        if isinstance(e, ast.Subscript):
            if isinstance(e.slice, ast.Slice):
                self.fail(e, "slice")
            if self.dict_base and self.is_self(e.value):
                # `self[k]` on a dict subclass: its own `__getitem__` if it defines one, else dict's
                sb = self.siblings.get("__getitem__")
                if sb is not None:
                    if sb.kind != "pure":
                        self.fail(e, "__getitem__ with effects")
                    return f"{sb.lean_name} W {self.recv_l} {self.atom(e.slice)}", False
                return f"dictItem {self.items_l} {self.atom(e.slice)}", False
            return f"index {self.atom(e.value)} {self.atom(e.slice)}", False
        if isinstance(e, ast.Attribute) and isinstance(e.value, ast.Name) and (e.value.id, e.attr) in self.module_tables:
            # a table of another module (`constant.FORMAT_MAP`), inlined as it is in the source now: a dict whose keys /
            # values are the string literals, or the source text of anything else (class expressions)
            ps = self.module_tables[(e.value.id, e.attr)]
            items = ", ".join(f"((OVal.str {json.dumps(k)}), (OVal.str {json.dumps(v)}))" for k, v in ps)
            return f"(OVal.dict [{items}])", True
        if isinstance(e, ast.Attribute):
            if (self.is_self(e.value) or self.same_class(e.value)) and e.attr in self.siblings and self.siblings[e.attr].is_property:
                sb = self.siblings[e.attr]
                if sb.kind != "pure":
                    self.fail(e, "property with effects")
                return f"{sb.lean_name} W {self.atom(e.value)}", False
            return f"getattr {self.atom(e.value)} {json.dumps(e.attr)}", False
        if isinstance(e, ast.Call):
            return self.call(e)
        if isinstance(e, ast.JoinedStr):
            # an f-string: a message.  Its text is not modelled; it is a non-empty string only if a literal part is
            if any(isinstance(p, ast.Constant) and isinstance(p.value, str) and p.value for p in e.values):
                return "(OVal.obj \"<message>\" [])", True
            self.fail(e, "f-string without literal text")
        self.fail(e)

    def call(self, e: ast.Call):
        f = e.func
        if self.exc_class_call(e):
            return self.exc_obj(e), True
        sc = self.super_call(e)
        if sc is not None:
            if sc[0] == "__contains__" and len(sc[1]) == 1:
                return f"(OVal.bool {self.cond(e)})", True
            if sc[0] == "__getitem__" and len(sc[1]) == 1:
                return f"dictItem {self.items_l} {self.atom(sc[1][0])}", False
            self.fail(e, f"dict method {sc[0]} inside an expression")
        # constructing an instance: `RuntimeContext(k=v, …)` / `self.__class__(k=v, …)` -> the translated `__init__`
        cname = None
        if isinstance(f, ast.Name) and f.id in self.constructors:
            cname = f.id
        elif isinstance(f, ast.Attribute) and f.attr == "__class__" and self.is_self(f.value) and self.owner_cls:
            cname = self.owner_cls
        if cname is not None:
            if len(e.keywords) == 1 and e.keywords[0].arg is None and not e.args:
                # `self.__class__(**specs)`: built from a dict of keyword arguments — the world's
                return f"W.ext {json.dumps(cname + '(**)')} [{self.atom(e.keywords[0].value)}]", False
            if cname in self.constructors:
                sb = self.constructors[cname]
                return f"{sb.lean_name} W {' '.join(self.atom(x) for x in sb.positional(self, e))}", False
            self.fail(e, f"constructor of {cname}")
        if isinstance(f, ast.Attribute) and self.is_self(f.value) and f.attr in self.siblings and not self.siblings[f.attr].is_property:
            sb = self.siblings[f.attr]
            if sb.kind != "pure":
                self.fail(e, "call of a sibling with effects inside an expression")
            args = sb.positional(self, e)
            return f"{sb.lean_name} W {self.recv_l} {' '.join(self.atom(x) for x in args)}".rstrip(), False
        if isinstance(f, ast.Name) and f.id == "dict" and "dict" not in self.declared and not e.args and e.keywords \
                and all(k.arg for k in e.keywords):
            # `dict(k=v, …)`: the dict with those string keys, in that order
            items = [f"((OVal.str {json.dumps(k.arg)}), {self.atom(k.value)})" for k in e.keywords]
            return f"(OVal.dict [{', '.join(items)}])", True
        if ast.unparse(f) in self.module_calls and not any(isinstance(x, ast.Starred) for x in e.args):
            # a function / class of another module, the world's by name; keyword arguments travel as (name, value) pairs,
            # a `**d` splat as the pair ("**", d)
            kws = [f"(OVal.seq .tuple [(OVal.str {json.dumps(k.arg if k.arg else '**')}), {self.atom(k.value)}])" for k in e.keywords]
            items = [self.atom(x) for x in e.args] + kws
            return f"W.ext {json.dumps(self.module_calls[ast.unparse(f)])} [{', '.join(items)}]", False
        if isinstance(f, ast.Attribute) and e.keywords and all(k.arg for k in e.keywords) \
                and not any(isinstance(x, ast.Starred) for x in e.args) and not self.is_self(f.value) \
                and not self.is_state(f.value) and f.attr not in ("append", "extend", "clear", "sort", "pop", "update"):
            # a method of a foreign object called with keyword arguments (`data.isoformat(timespec="milliseconds")`):
            # the world's, by name; a keyword argument travels as the pair (name, value)
            kws = [f"(OVal.seq .tuple [(OVal.str {json.dumps(k.arg)}), {self.atom(k.value)}])" for k in e.keywords]
            items = [self.atom(f.value)] + [self.atom(x) for x in e.args] + kws
            return f"W.ext {json.dumps(f.attr)} [{', '.join(items)}]", False
        if e.keywords or any(isinstance(a, ast.Starred) for a in e.args):
            self.fail(e, "keyword/star arguments")
        a = e.args
        if isinstance(f, ast.Name):
            n = f.id
            if n in ("unprovided", "callable", "isinstance", "issubclass", "bool", "hasattr"):
                return f"(OVal.bool {self.cond(e)})", True
            if n == "len" and len(a) == 1 and self.dict_base and self.is_self(a[0]) and "__len__" not in self.siblings:
                return f"len {self.items_l}", False
            if n == "next" and len(a) == 1 and self.dict_base and isinstance(a[0], ast.Call) and not a[0].keywords \
                    and isinstance(a[0].func, ast.Name) and a[0].func.id == "reversed" and len(a[0].args) == 1 \
                    and self.is_self(a[0].args[0]) and "__reversed__" not in self.siblings and "__iter__" not in self.siblings:
                return f"dictLastKey {self.items_l}", False
            if n == "len" and len(a) == 1:
                return f"len {self.atom(a[0])}", False
            if n == "list" and len(a) == 1:
                return f"toList {self.atom(a[0])}", False
            if n == "dict" and len(a) == 1:
                return f"dictCopy {self.atom(a[0])}", False
            if n == "type" and len(a) == 1 and "type" not in self.declared:
                return f"W.ext \"type\" [{self.atom(a[0])}]", False
            if n == "timedelta" and len(a) == 1:
                return f"timedeltaDays {self.atom(a[0])}", False
            if n == "getattr" and len(a) == 2:
                return f"getattrW W {self.atom(a[0])} {self.atom(a[1])}", False
            if n == "getattr" and len(a) == 3:
                return f"getattrD W {self.atom(a[0])} {self.atom(a[1])} {self.atom(a[2])}", False
            if n in self.siblings and not self.siblings[n].is_property and self.siblings[n].kind == "fn":
                sb = self.siblings[n]
                if len(a) != sb.n_args:
                    self.fail(e, "sibling arity")
                return f"{sb.lean_name} W {' '.join(self.atom(x) for x in a)}", False
            if n in self.externals:
                return f"W.ext {json.dumps(n)} {self.args_list(a)}", False
            if n in self.declared:
                # calling a value held in a local / parameter
                return f"W.call {lname(n)} {self.args_list(a)}", False
            self.fail(e, f"call of {n}")
        if isinstance(f, ast.Attribute):
            if f.attr == "get" and len(a) == 1:
                return f"dictGet {self.atom(f.value)} {self.atom(a[0])}", False
            if f.attr == "items" and not a:
                return f"dictItems {self.atom(f.value)}", False
            if ast.unparse(f) in self.module_calls:
                return f"W.ext {json.dumps(self.module_calls[ast.unparse(f)])} {self.args_list(a)}", False
            if f.attr == "format" and isinstance(f.value, ast.Constant) and isinstance(f.value.value, str):
                return f"strFormat {self.atom(f.value)} {self.args_list(a)}", False
            if f.attr in self.method_externals and not self.is_self(f.value):
                # the same method on *another* instance (`self.base.resolve(t)`): not unfolded, the world answers
                return f"W.ext {json.dumps(f.attr)} {self.args_list([f.value] + list(a))}", False
            if f.attr in ("append", "extend", "clear", "sort", "pop", "update", "insert", "remove"):
                self.fail(e, f"mutating method {f.attr} inside an expression")
            # calling the value of an attribute: self.no_input(value), self.default_factory(), self.validator(f)
            return f"W.call {self.atom(f)} {self.args_list(a)}", False
        self.fail(e, "call form")

    # ---- conditions: Lean Bool code usable in a `do` block (may contain nested `(← …)`) -------------------------
    def cond(self, e) -> str:
        if isinstance(e, ast.UnaryOp) and isinstance(e.op, ast.Not):
            return f"(!{self.cond(e.operand)})"
        if isinstance(e, ast.BoolOp):
            parts = [f"(do pure {self.cond(v)})" for v in e.values]
            acc = parts[-1]
            for p in reversed(parts[:-1]):
                if isinstance(e.op, ast.Or):
                    acc = f"(do if (← {p}) then pure true else {acc})"
                else:
                    acc = f"(do if (← {p}) then {acc} else pure false)"
            return f"(← {acc})"
        if isinstance(e, ast.Compare):
            if len(e.ops) != 1:
                self.fail(e, "chained comparison")
            op, l, r = e.ops[0], e.left, e.comparators[0]
            if isinstance(op, (ast.Is, ast.IsNot)):
                neg = "!" if isinstance(op, ast.IsNot) else ""
                if isinstance(r, ast.Constant) and (r.value is None or r.value is True or r.value is False or r.value is Ellipsis):
                    t = {None: "isNone", True: "isTrue", False: "isFalse", Ellipsis: "isEllipsis"}[r.value]
                    return f"({neg}(OVal.{t} {self.atom(l)}))"
                self.fail(e, "identity test against a non-singleton")
            m = {ast.Lt: "lt", ast.LtE: "le", ast.Gt: "gt", ast.GtE: "ge"}.get(type(op))
            if m:
                return f"(← {m} {self.atom(l)} {self.atom(r)})"
            if isinstance(op, ast.Eq):
                return f"(← eq {self.atom(l)} {self.atom(r)})"
            if isinstance(op, ast.NotEq):
                return f"(!(← eq {self.atom(l)} {self.atom(r)}))"
            if isinstance(op, (ast.In, ast.NotIn)) and self.dict_base and self.is_self(r):
                # `k in self` on a dict subclass: its own `__contains__` if it defines one, else dict's
                neg = "!" if isinstance(op, ast.NotIn) else ""
                sb = self.siblings.get("__contains__")
                if sb is not None:
                    if sb.kind != "pure":
                        self.fail(e, "__contains__ with effects")
                    return f"({neg}(← truthy (← {sb.lean_name} W {self.recv_l} {self.atom(l)})))"
                return f"({neg}(← contains {self.items_l} {self.atom(l)}))"
            if isinstance(op, ast.In):
                return f"(← contains {self.atom(r)} {self.atom(l)})"
            if isinstance(op, ast.NotIn):
                return f"(!(← contains {self.atom(r)} {self.atom(l)}))"
            self.fail(e, "comparison operator")
        sc = self.super_call(e)
        if sc is not None and sc[0] == "__contains__" and len(sc[1]) == 1:
            return f"(← contains {self.items_l} {self.atom(sc[1][0])})"
        if isinstance(e, ast.Call) and isinstance(e.func, ast.Name) and not e.keywords:
            n, a = e.func.id, e.args
            if n == "unprovided" and len(a) == 1:
                return f"(OVal.isUnprovided {self.atom(a[0])})"
            if n == "callable" and len(a) == 1:
                return f"(← callable {self.atom(a[0])})"
            if n == "isinstance" and len(a) == 2:
                try:
                    return f"(← isinstance {self.atom(a[0])} {self.cls_list(a[1], subclasses=True)})"
                except Untranslatable:
                    # the class is a computed value (`isinstance(_cls, metaclass)`): the world answers for that value
                    return f"(← truthy (← W.ext \"isinstance\" [{self.atom(a[0])}, {self.atom(a[1])}]))"
            if n == "bool" and len(a) == 1:
                return f"(← truthy {self.atom(a[0])})"
            if n == "issubclass" and len(a) == 2:
                try:
                    return f"(← W.issubclass {self.atom(a[0])} {self.cls_list(a[1])})"
                except Untranslatable:
                    # the classes are a computed value (a key of a table): the world answers for that value
                    return f"(← truthy (← W.ext \"issubclass\" [{self.atom(a[0])}, {self.atom(a[1])}]))"
            if n == "hasattr" and len(a) == 2:
                return f"(← hasattrW W {self.atom(a[0])} {self.atom(a[1])})"
        return f"(← truthy {self.atom(e)})"

    # ---- statements ------------------------------------------------------------------------------------------
    def assign(self, name: str, cp, ind: str) -> str:
        code, pure = cp
        n = lname(name)
        if name in self.declared:
            return f"{ind}{n} := {code}" if pure else f"{ind}{n} ← {code}"
        self.declared.add(name)
        return f"{ind}let mut {n} := {code}" if pure else f"{ind}let mut {n} ← {code}"

    def set_self_attr(self, attr: str, value_code: str, ind: str) -> str:
        if self.kind != "mut" or self.state != self.recv:
            raise Untranslatable(f"{self.src_file} assignment to self.{attr} in a function that does not thread self")
        return f"{ind}{self.state_l} ← setattr {self.state_l} {json.dumps(attr)} {value_code}"

    def ret(self, code: str, ind: str) -> str:
        if self.kind == "mut":
            return f"{ind}return ({self.state_l}, Outcome.ret {code})"
        return f"{ind}return {code}"

    def exc_obj(self, exc) -> str:
        """`X(...)`, `exc.X(...)`, `X` as an exception object: class name + keyword arguments (messages are dropped)"""
        if isinstance(exc, ast.Call):
            if isinstance(exc.func, ast.Attribute) and isinstance(exc.func.value, ast.Name) and exc.func.value.id == "exc":
                name = exc.func.attr
            elif isinstance(exc.func, ast.Name):
                name = exc.func.id
            else:
                self.fail(exc, "exception class")
            for a in exc.args:
                if not (isinstance(a, ast.JoinedStr) or (isinstance(a, ast.Constant) and isinstance(a.value, str))):
                    self.fail(exc, "positional exception argument that is not a message")
            kws = []
            for k in exc.keywords:
                if k.arg is None:
                    self.fail(exc, "**kwargs in exception")
                kws.append(f"({json.dumps(k.arg)}, {self.atom(k.value)})")
            return f"(OVal.obj {json.dumps(name)} [{', '.join(kws)}])"
        if isinstance(exc, (ast.Name, ast.Attribute)) and not (isinstance(exc, ast.Name) and exc.id in self.declared):
            return f"(OVal.obj {json.dumps(self.cls_name(exc))} [])"
        self.fail(exc, "raise form")

    def predeclare(self, bodies, ind: str) -> list[str]:
        pre = []
        names = set()
        for b in bodies:
            names |= assigned_names_obj(b)
        for nm in sorted(names):
            if nm not in self.declared:
                self.declared.add(nm)
                pre.append(f"{ind}let mut {lname(nm)} := (OVal.none : OVal V)")
        return pre

    def stmts(self, body, ind: str) -> list[str]:
        out = []
        for s in body:
            out += self.stmt(s, ind)
        return out

    def container_target(self, v):
        """a local name or `self.attr` holding a container that a statement updates in place.
        returns (read_code, write(new_code, ind) -> line)"""
        if isinstance(v, ast.Name) and v.id in self.declared:
            n = lname(v.id)
            return n, (lambda code, ind: f"{ind}{n} ← {code}")
        if isinstance(v, ast.Attribute) and self.is_self(v.value):
            attr = v.attr
            return f"(← getattr {self.recv_l} {json.dumps(attr)})", (lambda code, ind: self.set_self_attr(attr, f"(← {code})", ind))
        self.fail(v, "in-place update of something that is neither a local nor an attribute of self")

    def effect_call(self, st):
        """a simple statement that calls a method of the threaded object: ("sib", Sibling, call, target) for a translated
        one (`context.handle_error(e)`), ("method", name, call, target) for a foreign one (`context.transformer(v, t)`)"""
        if isinstance(st, ast.Expr):
            c, target = st.value, None
        elif isinstance(st, ast.Assign) and len(st.targets) == 1 and isinstance(st.targets[0], ast.Name):
            c, target = st.value, st.targets[0].id
        else:
            return None
        if not (isinstance(c, ast.Call) and isinstance(c.func, ast.Attribute) and self.is_state(c.func.value)):
            return None
        if ast.unparse(c.func) in self.ignored_calls:
            return None
        m = c.func.attr
        if m in self.state_siblings:
            return ("sib", self.state_siblings[m], c, target)
        if c.keywords or any(isinstance(x, ast.Starred) for x in c.args):
            return None
        return ("method", m, c, target)

    def try_effects(self, s, ind: str) -> list[str]:
        """`try:` whose body acts on the threaded object.  A raise inside a translated method does not go through Lean's
        `try` (the object it hands back would be lost): every statement of the body is run while no exception is pending,
        what is raised is kept as a value, and the handler / `else` part is chosen afterwards."""
        if s.finalbody or len(s.handlers) != 1:
            self.fail(s, "try form")
        h = s.handlers[0]
        if h.type is None:
            self.fail(s, "bare except")
        classes = [self.cls_name(x) for x in h.type.elts] if isinstance(h.type, ast.Tuple) else [self.cls_name(h.type)]
        for st in s.body:
            if not isinstance(st, (ast.Expr, ast.Assign, ast.Return, ast.Pass)):
                self.fail(st, "compound statement in a try that acts on the threaded object")
        L = s.lineno
        pend = f"pending_{L}"
        out = self.predeclare([s.body, h.body, s.orelse], ind)
        out.append(f"{ind}let mut {pend} : Option (OVal V) := none")
        for st in s.body:
            eff = self.effect_call(st)
            out.append(f"{ind}if {pend}.isNone then")
            i2 = ind + "  "
            if eff is None:
                out.append(f"{i2}try")
                out += self.stmt(st, i2 + "  ")
                out.append(f"{i2}catch x_{st.lineno} =>")
                out.append(f"{i2}  {pend} := some (Exc.toVal x_{st.lineno})")
            elif eff[0] == "sib":
                _, sb, c, target = eff
                if sb.kind != "mut":
                    self.fail(st, "state method that is not translated with effects")
                args = " ".join(self.atom(x) for x in sb.positional(self, c))
                r = f"r_{st.lineno}"
                out.append(f"{i2}let {r} ← {sb.lean_name} W {self.state_l} {args}".rstrip())
                out.append(f"{i2}{self.state_l} := {r}.1")
                out.append(f"{i2}match {r}.2 with")
                out.append(f"{i2}| Outcome.raise x => {pend} := some x")
                if target:
                    self.declared.add(target)
                    out.append(f"{i2}| Outcome.ret x => {lname(target)} := x")
                else:
                    out.append(f"{i2}| Outcome.ret _ => pure ()")
            else:
                _, m, c, target = eff
                r = f"r_{st.lineno}"
                out.append(f"{i2}let {r} ← W.method {json.dumps(m)} {self.state_l} {self.args_list(c.args)}")
                out.append(f"{i2}{self.state_l} := {r}.1")
                out.append(f"{i2}match {r}.2 with")
                out.append(f"{i2}| Outcome.raise x => {pend} := some x")
                if target:
                    out.append(f"{i2}| Outcome.ret x => {lname(target)} := x")
                else:
                    out.append(f"{i2}| Outcome.ret _ => pure ()")
        ev = f"caught_{L}"
        out.append(f"{ind}if let some {ev} := {pend} then")
        i2 = ind + "  "
        catch_all = "Exception" in classes
        if not catch_all:
            out.append(f"{i2}if (← isinstance {ev} [{', '.join(json.dumps(c) for c in classes)}]) then")
            i3 = i2 + "  "
        else:
            i3 = i2
        was_declared = h.name in self.declared if h.name else False
        if h.name:
            out.append(f"{i3}{lname(h.name)} := {ev}" if was_declared else f"{i3}let mut {lname(h.name)} := {ev}")
            self.declared.add(h.name)
        out += self.stmts(h.body, i3) or [f"{i3}pure ()"]
        if h.name and not was_declared:
            self.declared.discard(h.name)
        if not catch_all:
            out.append(f"{i2}else")
            out.append(f"{i2}  throw (Exc.raised {ev})")
        if s.orelse:
            out.append(f"{ind}else")
            out += self.stmts(s.orelse, ind + "  ")
        return out

    def mut_sibling_call(self, e):
        """`self.sib(…, context, …)` where `sib` is translated with effects on the same threaded parameter"""
        if isinstance(e, ast.Call) and isinstance(e.func, ast.Attribute) and self.is_self(e.func.value) \
                and e.func.attr in self.siblings:
            sb = self.siblings[e.func.attr]
            if sb.kind == "mut" and sb.state and sb.state == self.state and self.kind == "mut" and self.state != self.recv:
                return sb
        return None

    def self_mut_call(self, e):
        """`self.sib(…)` where `sib` is translated with effects on self, in a function that threads self"""
        if isinstance(e, ast.Call) and isinstance(e.func, ast.Attribute) and self.is_self(e.func.value) \
                and e.func.attr in self.siblings and self.kind == "mut" and self.state == self.recv:
            sb = self.siblings[e.func.attr]
            if sb.kind == "mut" and not sb.is_property and (sb.state is None or sb.state == sb.recv):
                return sb
        return None

    def hoist_self(self, e, ind: str):
        sb = self.self_mut_call(e)
        args = sb.positional(self, e)
        r, v = f"r_{e.lineno}", f"ret_{e.lineno}"
        lines = [f"{ind}let {r} ← {sb.lean_name} W {self.recv_l} {' '.join(self.atom(x) for x in args)}".rstrip(),
                 f"{ind}{self.state_l} := {r}.1",
                 f"{ind}if let Outcome.raise exc_{e.lineno} := {r}.2 then",
                 f"{ind}  return ({self.state_l}, Outcome.raise exc_{e.lineno})",
                 f"{ind}let {lname(v)} := (match {r}.2 with | Outcome.ret x => x | Outcome.raise x => x)"]
        self.declared.add(v)
        return lines, ast.copy_location(ast.Name(id=v, ctx=ast.Load()), e)

    def hoist(self, e, ind: str):
        """evaluate a call of a sibling with effects before the statement that uses its result:
        returns (lines, replacement expression)"""
        sb = self.mut_sibling_call(e)
        args = sb.positional(self, e)
        names = [x.arg for x in sb.fn.args.args if x.arg != sb.recv]
        pos = names.index(sb.state)
        if not (isinstance(args[pos], ast.Name) and args[pos].id == self.state):
            self.fail(e, "the threaded object is not handed on as it is")
        r, v = f"r_{e.lineno}", f"ret_{e.lineno}"
        lines = [f"{ind}let {r} ← {sb.lean_name} W {self.recv_l} {' '.join(self.atom(x) for x in args)}",
                 f"{ind}{self.state_l} := {r}.1",
                 f"{ind}if let Outcome.raise exc_{e.lineno} := {r}.2 then",
                 f"{ind}  return ({self.state_l}, Outcome.raise exc_{e.lineno})",
                 f"{ind}let {lname(v)} := (match {r}.2 with | Outcome.ret x => x | Outcome.raise x => x)"]
        self.declared.add(v)
        return lines, ast.copy_location(ast.Name(id=v, ctx=ast.Load()), e)

    def stmt(self, s, ind: str) -> list[str]:
        if isinstance(s, ast.Expr) and isinstance(s.value, ast.Constant) and isinstance(s.value.value, str):
            return []
        if self.dict_base:
            if isinstance(s, ast.Expr):
                got = self.super_stmt(s.value, ind, None, False)
            elif isinstance(s, ast.Return) and s.value is not None:
                got = self.super_stmt(s.value, ind, None, True)
            elif isinstance(s, ast.Assign) and len(s.targets) == 1 and isinstance(s.targets[0], ast.Name):
                got = self.super_stmt(s.value, ind, s.targets[0].id, False)
            else:
                got = None
            if got is not None:
                return got
        if self.kind == "mut" and self.state == self.recv and isinstance(s, (ast.Return, ast.Expr)) and s.value is not None:
            # `self.sib(…)` for a sibling translated with effects on self: as a statement, as the returned value, or
            # inside the returned tuple — it runs first, hands self back, and a raise of it ends this function
            v = s.value
            elts = v.elts if isinstance(v, ast.Tuple) else [v]
            if any(self.self_mut_call(x) for x in elts):
                lines, new = [], []
                for x in elts:
                    if self.self_mut_call(x):
                        more, repl = self.hoist_self(x, ind)
                        lines += more
                        new.append(repl)
                    else:
                        tmp = f"held_{x.lineno}_{x.col_offset}"
                        lines.append(self.assign(tmp, self.val(x), ind))
                        new.append(ast.copy_location(ast.Name(id=tmp, ctx=ast.Load()), x))
                if isinstance(s, ast.Expr):
                    return lines
                nv = ast.copy_location(ast.Tuple(elts=new, ctx=ast.Load()), v) if isinstance(v, ast.Tuple) else new[0]
                return lines + [self.ret(self.atom(nv), ind)]
        if isinstance(s, ast.Expr) and isinstance(s.value, ast.Call) and not s.value.keywords \
                and isinstance(s.value.func, ast.Attribute) and s.value.func.attr == "pop" and len(s.value.args) == 1 \
                and isinstance(s.value.func.value, ast.Attribute) and self.is_self(s.value.func.value.value):
            # `self.attr.pop(k)` with the result dropped: `del self.attr[k]`
            read, write = self.container_target(s.value.func.value)
            return [write(f"dictDel {read} {self.atom(s.value.args[0])}", ind)]
        if isinstance(s, ast.Expr) and isinstance(s.value, ast.Call) and not s.value.keywords \
                and isinstance(s.value.func, ast.Attribute) and self.is_self(s.value.func.value) \
                and s.value.func.attr in self.foreign_self_methods and self.kind == "mut" and self.state == self.recv \
                and not any(isinstance(x, ast.Starred) for x in s.value.args):
            # `self.m(…)` for a method that is not translated: the world's, on the threaded self
            r = f"r_{s.lineno}"
            return [f"{ind}let {r} ← W.method {json.dumps(s.value.func.attr)} {self.state_l} {self.args_list(s.value.args)}",
                    f"{ind}{self.state_l} := {r}.1",
                    f"{ind}if let Outcome.raise exc_{s.lineno} := {r}.2 then",
                    f"{ind}  return ({self.state_l}, Outcome.raise exc_{s.lineno})"]
        if isinstance(s, ast.Expr) and isinstance(s.value, ast.Call) and not s.value.keywords \
                and isinstance(s.value.func, ast.Name) and s.value.func.id in self.declared and len(s.value.args) == 1 \
                and self.is_state(s.value.args[0]) and self.state == self.recv:
            # `f(self)` for a callable held in a parameter: foreign code given the threaded object — the world's, and
            # what it does to the object travels back
            r = f"r_{s.lineno}"
            return [f"{ind}let {r} ← W.method \"()\" {self.state_l} [{lname(s.value.func.id)}]",
                    f"{ind}{self.state_l} := {r}.1",
                    f"{ind}if let Outcome.raise exc_{s.lineno} := {r}.2 then",
                    f"{ind}  return ({self.state_l}, Outcome.raise exc_{s.lineno})"]
        if isinstance(s, ast.For):
            # `for … in enumerate(cls._read_items(value, context))`: the call with effects runs first
            it = s.iter
            inner = it.args[0] if (isinstance(it, ast.Call) and isinstance(it.func, ast.Name) and it.func.id == "enumerate"
                                   and len(it.args) == 1 and not it.keywords) else it
            if self.mut_sibling_call(inner) is not None:
                lines, repl = self.hoist(inner, ind)
                new_iter = repl if inner is it else ast.copy_location(
                    ast.Call(func=it.func, args=[repl], keywords=[]), it)
                s2 = ast.copy_location(ast.For(target=s.target, iter=new_iter, body=s.body, orelse=s.orelse), s)
                return lines + self.stmt(s2, ind)
        if isinstance(s, ast.Return) and s.value is not None and self.mut_sibling_call(s.value) is not None:
            # `return self._invalid_value(error, raw, context, …)`: the sibling's outcome is this function's
            lines, repl = self.hoist(s.value, ind)
            return lines + [self.ret(self.atom(repl), ind)]
        if isinstance(s, ast.Return):
            if s.value is None:
                return [self.ret("OVal.none", ind)]
            return [self.ret(self.atom(s.value), ind)]
        if isinstance(s, ast.Raise):
            exc = s.exc
            if exc is None:
                self.fail(s, "bare raise")
            # `raise e.__class__(msg) from e` inside `except … as e`: the same class again (messages are not modelled)
            if isinstance(exc, ast.Call) and isinstance(exc.func, ast.Attribute) and exc.func.attr == "__class__" \
                    and isinstance(exc.func.value, ast.Name) and exc.func.value.id in self.handler_vars:
                return [f"{ind}throw {self.handler_vars[exc.func.value.id]}"]
            if isinstance(exc, ast.Name) and exc.id in self.handler_vars:
                return [f"{ind}throw {self.handler_vars[exc.id]}"]
            if isinstance(exc, ast.Name) and exc.id in self.declared:
                code = lname(exc.id)       # `raise e` for an exception object held in a parameter / local
            else:
                code = self.exc_obj(exc)
            if self.kind == "mut":
                return [f"{ind}return ({self.state_l}, Outcome.raise {code})"]
            return [f"{ind}throw (Exc.raised {code})"]
        if isinstance(s, (ast.Assign, ast.AnnAssign)):
            if isinstance(s, ast.AnnAssign):
                if s.value is None:
                    return []
                targets, value = [s.target], s.value
            else:
                targets, value = s.targets, s.value
            if len(targets) != 1:
                self.fail(s, "multiple targets")
            t = targets[0]
            if isinstance(t, ast.Name):
                return [self.assign(t.id, self.val(value), ind)]
            if isinstance(t, ast.Attribute) and self.is_self(t.value):
                return [self.set_self_attr(t.attr, self.atom(value), ind)]
            if isinstance(t, ast.Subscript) and not isinstance(t.slice, ast.Slice):
                read, write = self.container_target(t.value)
                return [write(f"dictSet {read} {self.atom(t.slice)} {self.atom(value)}", ind)]
            if isinstance(t, ast.Tuple) and all(isinstance(x, ast.Name) for x in t.elts) and len(t.elts) in (2, 3):
                tmp = f"tup_{s.lineno}"
                out = [f"{ind}let {tmp} ← unpack{len(t.elts)} {self.atom(value)}"]
                proj = [".1", ".2"] if len(t.elts) == 2 else [".1", ".2.1", ".2.2"]
                for x, pj in zip(t.elts, proj):
                    out.append(self.assign(x.id, (tmp + pj, True), ind))
                return out
            self.fail(s, "assignment target")
        if isinstance(s, ast.AugAssign):
            op = {ast.Add: "concat", ast.Sub: "sub", ast.Mult: "mul"}.get(type(s.op))
            if not op:
                self.fail(s, "augmented operator")
            t = s.target
            if isinstance(t, ast.Name) and t.id in self.declared:
                return [f"{ind}{lname(t.id)} ← {op} {lname(t.id)} {self.atom(s.value)}"]
            if isinstance(t, ast.Attribute) and self.is_self(t.value):
                return [self.set_self_attr(t.attr, f"(← {op} (← getattr {self.recv_l} {json.dumps(t.attr)}) {self.atom(s.value)})", ind)]
            self.fail(s, "augmented target")
        if isinstance(s, ast.If):
            pre = self.predeclare([s.body, s.orelse], ind)
            out = pre + [f"{ind}if {self.cond(s.test)} then"]
            out += self.stmts(s.body, ind + "  ") or [f"{ind}  pure ()"]
            if s.orelse:
                out.append(f"{ind}else")
                out += self.stmts(s.orelse, ind + "  ") or [f"{ind}  pure ()"]
            return out
        if isinstance(s, ast.For):
            if s.orelse:
                self.fail(s, "for-else")
            pre = self.predeclare([s.body], ind)
            if isinstance(s.iter, ast.Call) and isinstance(s.iter.func, ast.Name) and s.iter.func.id == "enumerate" \
                    and len(s.iter.args) == 1 and not s.iter.keywords:
                it = f"(← enumerate {self.atom(s.iter.args[0])})"
            else:
                it = f"(← iter {self.atom(s.iter)})"
            if isinstance(s.target, ast.Name):
                self.declared.add(s.target.id)
                out = pre + [f"{ind}for {lname(s.target.id)} in {it} do"]
            elif isinstance(s.target, ast.Tuple) and all(isinstance(x, ast.Name) for x in s.target.elts) and len(s.target.elts) in (2, 3):
                tmp = f"item_{s.lineno}"
                n = len(s.target.elts)
                out = pre + [f"{ind}for {tmp} in {it} do", f"{ind}  let tup_{s.lineno} ← unpack{n} {tmp}"]
                proj = [".1", ".2"] if n == 2 else [".1", ".2.1", ".2.2"]
                for x, pj in zip(s.target.elts, proj):
                    self.declared.add(x.id)
                    out.append(f"{ind}  let {lname(x.id)} := tup_{s.lineno}{pj}")
            else:
                self.fail(s, "for target")
            out += self.stmts(s.body, ind + "  ")
            return out
        if isinstance(s, ast.Continue):
            return [f"{ind}continue"]
        if isinstance(s, ast.Break):
            return [f"{ind}break"]
        if isinstance(s, ast.Pass):
            return [f"{ind}pure ()"]
        if isinstance(s, ast.With) and len(s.items) == 1 and isinstance(s.items[0].context_expr, ast.Call) \
                and isinstance(s.items[0].context_expr.func, ast.Attribute) and s.items[0].context_expr.func.attr == "enter" \
                and self.is_state(s.items[0].context_expr.func.value) and "enter" in self.state_siblings \
                and isinstance(s.items[0].optional_vars, ast.Name):
            # `with context.enter(route) as c:` — `__enter__` hands the new context back, `__exit__` does nothing (checked
            # by the extractor); what `enter` builds is the world's business here (`W.ext "enter"`), it is tied separately
            if not self.enter_ok:
                self.fail(s, "RuntimeContext.__enter__/__exit__ are not the modelled ones")
            call = s.items[0].context_expr
            args = self.state_siblings["enter"].positional(self, call)
            v = s.items[0].optional_vars.id
            # always a new (shadowing) variable: the name of an earlier `with` may be out of scope here
            self.declared.add(v)
            out = [f"{ind}let mut {lname(v)} ← W.ext \"enter\" {self.args_list([call.func.value] + args)}"]
            return out + self.stmts(s.body, ind)
        if isinstance(s, ast.With):
            # `with self._lock:` — the lock is not modelled (sequential semantics): the body runs as it is
            for item in s.items:
                if item.optional_vars is not None:
                    self.fail(s, "with … as")
                ce = item.context_expr
                if not (isinstance(ce, ast.Attribute) and self.is_self(ce.value) and "lock" in ce.attr):
                    self.fail(s, "with on something that is not a lock of self")
            return [f"{ind}-- with {ast.unparse(s.items[0].context_expr)}: (lock not modelled)"] + self.stmts(s.body, ind)
        if isinstance(s, ast.Try) and self.kind == "mut" and self.state != self.recv \
                and any(self.effect_call(st) is not None for st in s.body):
            return self.try_effects(s, ind)
        if isinstance(s, ast.Try):
            if s.finalbody or len(s.handlers) != 1:
                self.fail(s, "try form")
            h = s.handlers[0]
            if h.type is None:
                self.fail(s, "bare except")
            classes = self.cls_list(h.type)
            pre = self.predeclare([s.body, h.body, s.orelse], ind)
            ev = lname(h.name) if h.name else f"exc_{s.lineno}"
            if h.name and h.name in self.declared:
                ev = f"caught_{s.lineno}"      # the name is also an ordinary (mutable) local of this function
            okv = f"noexc_{s.lineno}"
            if s.orelse:
                pre.append(f"{ind}let mut {okv} := true")
            out = pre + [f"{ind}try"]
            out += self.stmts(s.body, ind + "  ")
            out.append(f"{ind}catch {ev} =>")
            out.append(f"{ind}  if Exc.isA {ev} {classes} then")
            if s.orelse:
                out.append(f"{ind}    {okv} := false")
            shadowed = h.name in self.declared if h.name else False
            if h.name:
                self.handler_vars[h.name] = ev
                self.declared.discard(h.name)
            out += self.stmts(h.body, ind + "    ") or [f"{ind}    pure ()"]
            if h.name:
                self.handler_vars.pop(h.name, None)
                if shadowed:
                    self.declared.add(h.name)
            out.append(f"{ind}  else")
            out.append(f"{ind}    throw {ev}")
            if s.orelse:
                # `else:` runs when the body raised nothing; what it raises itself is not caught by the handler
                out.append(f"{ind}if {okv} then")
                out += self.stmts(s.orelse, ind + "  ")
            return out
        if isinstance(s, ast.Expr) and isinstance(s.value, ast.Call) and isinstance(s.value.func, ast.Attribute) \
                and self.is_state(s.value.func.value) and self.state != self.recv and s.value.func.attr in self.state_siblings \
                and ast.unparse(s.value.func) not in self.ignored_calls:
            # `context.handle_error(e)`: a method of the threaded object, translated elsewhere; it hands the object back
            # with its outcome, and a raise ends this function too
            c = s.value
            sb = self.state_siblings[c.func.attr]
            if sb.kind != "mut":
                self.fail(s, "state method that is not translated with effects")
            args = " ".join(self.atom(x) for x in sb.positional(self, c))
            r = f"r_{s.lineno}"
            return [f"{ind}let {r} ← {sb.lean_name} W {self.state_l} {args}".rstrip(),
                    f"{ind}{self.state_l} := {r}.1",
                    f"{ind}if let Outcome.raise exc_{s.lineno} := {r}.2 then",
                    f"{ind}  return ({self.state_l}, Outcome.raise exc_{s.lineno})"]
        if isinstance(s, ast.Expr) and isinstance(s.value, ast.Call):
            c = s.value
            if ast.unparse(c.func) in self.ignored_calls:
                return [f"{ind}-- {ast.unparse(c.func)}(…): no effect on the modelled state", f"{ind}pure ()"]
            if isinstance(c.func, ast.Attribute) and not c.keywords:
                m, a = c.func.attr, c.args
                if m in ("append", "extend") and len(a) == 1:
                    read, write = self.container_target(c.func.value)
                    return [write(f"{m} {read} {self.atom(a[0])}", ind)]
                if m == "clear" and not a:
                    read, write = self.container_target(c.func.value)
                    return [write(f"dictClear {read}", ind)]
                if m == "update" and len(a) == 1:
                    read, write = self.container_target(c.func.value)
                    return [write(f"dictUpdate {read} {self.atom(a[0])}", ind)]
            if isinstance(c.func, ast.Attribute) and c.func.attr == "sort" and not c.args and len(c.keywords) == 1 \
                    and c.keywords[0].arg == "key" and isinstance(c.keywords[0].value, ast.Lambda):
                lam = c.keywords[0].value
                if len(lam.args.args) != 1 or lam.args.defaults or lam.args.vararg or lam.args.kwarg:
                    self.fail(s, "sort key lambda")
                v = lam.args.args[0].arg
                was = v in self.declared
                self.declared.add(v)
                body = self.atom(lam.body)
                if not was:
                    self.declared.discard(v)
                read, write = self.container_target(c.func.value)
                return [write(f"sortByKey (fun {lname(v)} => do pure {body}) {read}", ind)]
            # a call whose result is dropped (`item_context.transformer(item, t)`): evaluated for what it raises
            code, pure = self.call(c)
            return [f"{ind}let _ ← {code}"] if not pure else [f"{ind}pure ()"]
        if isinstance(s, ast.Assert):
            # `assert cond, msg`: AssertionError when the condition is false (the message is not modelled)
            code = "(OVal.obj \"AssertionError\" [])"
            tail = f"return ({self.state_l}, Outcome.raise {code})" if self.kind == "mut" else f"throw (Exc.raised {code})"
            return [f"{ind}if (!{self.cond(s.test)}) then", f"{ind}  {tail}"]
        if isinstance(s, ast.FunctionDef):
            # a nested function: a closure object that carries the variables of this scope it mentions
            free = sorted({n.id for n in ast.walk(s) if isinstance(n, ast.Name) and n.id in self.declared
                           and n.id not in {a.arg for a in s.args.args}} - {self.recv, s.name})
            items = ", ".join(f"({json.dumps(v)}, {lname(v)})" for v in free)
            return [self.assign(s.name, (f"(OVal.obj {json.dumps('closure:' + s.name)} [{items}])", True), ind)]
        if isinstance(s, ast.ImportFrom) and all(a.asname is None and a.name in OBJ_CLASS_NAMES for a in s.names):
            return []      # a class name used in isinstance / issubclass only
        self.fail(s)

    def translate(self) -> str:
        a = self.fn.args
        if a.posonlyargs:
            self.fail(self.fn, "signature")
        kwargs_used = a.kwarg and any(isinstance(n, ast.Name) and n.id == a.kwarg.arg for st in self.fn.body for n in ast.walk(st))
        if kwargs_used and not self.kwargs_param:
            self.fail(self.fn, "**kwargs that is used")
        names = [x.arg for x in a.args if not (self.has_self and x.arg == self.recv)]
        if a.vararg:
            names.append(a.vararg.arg)       # `*classes`: the tuple of the positional arguments
        if kwargs_used:
            names.append(a.kwarg.arg)        # `**kwargs`: the dict of the keyword arguments
        kwonly = [x.arg for x in a.kwonlyargs]
        extra = list(self.params or [])
        ret_t = "M V (OVal V × Outcome V)" if self.kind == "mut" else "M V (OVal V)"
        lean_params = ([self.recv_l] if self.has_self else []) + [lname(x) for x in extra + names]
        kw_param = " (kw_ : List (String × OVal V))" if kwonly else ""
        head = (f"def {self.lean_name} (W : World V) " + " ".join(f"({p} : OVal V)" for p in lean_params) + kw_param +
                f" : {ret_t} := do")
        lines = [f"/-- {self.src_file}:{self.fn.lineno} `{self.fn.name}`{self.doc} -/", head, "  let _ := W"]
        reassigned = assigned_names_obj(self.fn.body)
        if self.has_self:
            self.declared.add(self.recv)
        if self.kind == "mut":
            if self.state != self.recv and self.state not in names:
                self.fail(self.fn, f"no parameter {self.state} to thread")
            lines.append(f"  let mut {self.state_l} := {self.state_l}")
        for x in extra + names:
            self.declared.add(x)
            if x in reassigned and not (self.kind == "mut" and x == self.state):
                lines.append(f"  let mut {lname(x)} := {lname(x)}")
        # keyword-only parameters arrive as a record; an absent one takes the default written in the signature
        for x, d in zip(kwonly, a.kw_defaults):
            if d is None:
                self.fail(self.fn, f"keyword-only parameter {x} without default")
            lines.append(f"  let mut {lname(x)} := (lookupAttr {json.dumps(x)} kw_).getD {self.atom(d)}")
            self.declared.add(x)
        body = list(self.fn.body)
        cut = False
        if self.stop_before is not None:
            for i, st in enumerate(body):
                if self.stop_before(st):
                    body, cut = body[:i], True
                    break
            if not cut:
                self.fail(self.fn, "the statement that ends the translated part was not found")
        lines += self.stmts(body, "  ")
        if cut:
            res = self.result_locals if self.result_locals is not None else (names + kwonly)
            items = ", ".join(f"({json.dumps(x)}, {lname(x)})" for x in res)
            lines.append(self.ret(f"(OVal.obj \"locals\" [{items}])", "  "))
        elif not body or not isinstance(body[-1], (ast.Return, ast.Raise)):
            lines.append(self.ret("OVal.none", "  "))
        return "\n".join(lines)


def assigned_names_obj(body) -> set[str]:
    out = set()
    for node in body:
        for n in ast.walk(node):
            if isinstance(n, (ast.Assign, ast.AnnAssign, ast.AugAssign)):
                targets = n.targets if isinstance(n, ast.Assign) else [n.target]
                for t in targets:
                    if isinstance(t, ast.Name):
                        out.add(t.id)
                    elif isinstance(t, ast.Tuple):
                        out |= {x.id for x in t.elts if isinstance(x, ast.Name)}
            elif isinstance(n, ast.Expr) and isinstance(n.value, ast.Call) and isinstance(n.value.func, ast.Attribute) \
                    and n.value.func.attr in ("append", "extend", "clear", "sort", "update") and isinstance(n.value.func.value, ast.Name):
                out.add(n.value.func.value.id)
            elif isinstance(n, ast.FunctionDef):
                out.add(n.name)
    return out


def find_class(tree, name):
    return next((n for n in tree.body if isinstance(n, ast.ClassDef) and n.name == name), None)


def find_method(cls, name):
    return next((n for n in (cls.body if cls else []) if isinstance(n, ast.FunctionDef) and n.name == name), None)


def is_property(fn) -> bool:
    return any(isinstance(d, ast.Name) and d.id in ("property", "cached_property") for d in fn.decorator_list)


def obj_file_header(title: str, ns: str, imports=()) -> list[str]:
    return ["import Utv.GenEq.Support"] + [f"import {m}" for m in imports] + [f"/-! GENERATED by tools/extract.py from {title} — do not edit. -/",
            "set_option linter.unusedVariables false", f"namespace Utv.Gen.{ns}", "open Utv.Obj", "variable {V : Type}", ""]


def stub(lean_name: str, kind: str, n_params: int, why: str, kw=False) -> str:
    ret_t = "M V (OVal V × Outcome V)" if kind == "mut" else "M V (OVal V)"
    params = " ".join(f"(a{i}_ : OVal V)" for i in range(n_params))
    kwp = " (kw_ : List (String × OVal V))" if kw else ""
    return f"def {lean_name} (W : World V) {params}{kwp} : {ret_t} := throw (.unmodelled {json.dumps('untranslatable ' + why)})\n"


def check_unprovided(repo: Path, notes: list):
    """the translator reads `unprovided(x)` as `isinstance(x, Unprovided)` and `bool(unprovided)` as False:
    check that datastructures.py still says so"""
    src_file = "utype/utils/datastructures.py"
    try:
        tree = ast.parse((repo / src_file).read_text())
        cls = find_class(tree, "Unprovided")
        call, bl = find_method(cls, "__call__"), find_method(cls, "__bool__")
        ok = (call is not None and len(call.body) == 1 and isinstance(call.body[0], ast.Return)
              and ast.unparse(call.body[0].value) == f"isinstance({call.args.args[1].arg}, Unprovided)"
              and bl is not None and len(bl.body) == 1 and ast.unparse(bl.body[0]) == "return False"
              and any(isinstance(n, ast.Assign) and ast.unparse(n) == "unprovided = Unprovided()" for n in tree.body))
    except Exception:
        ok = False
    if not ok:
        notes.append(f"untranslatable {src_file} Unprovided.__call__/__bool__ are not the modelled ones")
    return ok


FIELD_FUNCS = ["no_default", "always_provided", "is_case_insensitive", "get_default", "get_on_error", "always_no_input",
               "is_required", "is_no_input", "always_no_output", "is_no_output"]


def gen_group(repo: Path, notes: list, *, src_file: str, cls_name: str | None, funcs: list, ns: str, title: str,
              externals=(), ignored_calls=(), module_funcs: dict | None = None, gate_ok=True, base_siblings=None,
              imports=()) -> str:
    """funcs: list of dicts {py, lean?, kind, ...}; translated in the given order (callees first)."""
    tree = ast.parse((repo / src_file).read_text())
    cls = find_class(tree, cls_name) if cls_name else None
    out = obj_file_header(title, ns, imports)
    siblings: dict[str, Sibling] = dict(base_siblings or {})
    for spec in funcs:
        py, kind = spec["py"], spec.get("kind", "pure")
        lean = spec.get("lean", py)
        if "cls" in spec:
            cls = find_class(tree, spec["cls"])
        fn = spec["find"](tree, cls) if "find" in spec else find_method(cls, py)
        n_extra = len(spec.get("params", []))
        if fn is None:
            notes.append(f"untranslatable {src_file} {cls_name or ''}.{py} (not found)")
            out.append(stub(lean, kind, spec.get("arity", 1), f"{py} (not found)", kw=spec.get("kw", False)))
            continue
        has_self = spec.get("has_self", cls is not None)
        n_args = len([a for a in fn.args.args if not (has_self and a.arg in ("self", "cls"))])
        try:
            if not gate_ok:
                raise Untranslatable(f"{src_file} {py}: a definition the translation relies on changed (see above)")
            tr = ObjTranslator(fn, src_file=spec.get("src_file", src_file), lean_name=lean, kind=kind, siblings=dict(siblings),
                               externals=externals, ignored_calls=ignored_calls, params=spec.get("params"),
                               has_self=has_self, stop_before=spec.get("stop_before"),
                               result_locals=spec.get("result_locals"), doc=spec.get("doc", ""),
                               method_externals=spec.get("method_externals", ()), consts=spec.get("consts"),
                               state=spec.get("state"), state_siblings=spec.get("state_siblings"),
                               enter_ok=spec.get("enter_ok", True), operators=spec.get("operators"),
                               constructors=spec.get("constructors"), owner_cls=spec.get("cls", cls_name),
                               module_tables=spec.get("module_tables"), module_calls=spec.get("module_calls"),
                               dict_base=spec.get("dict_base", False), module_consts=spec.get("module_consts"),
                               kwargs_param=spec.get("kwargs_param", False),
                               foreign_self_methods=spec.get("foreign_self_methods", ()))
            out.append(tr.translate() + "\n")
        except Untranslatable as e:
            notes.append(f"untranslatable {e} ({cls_name or ns}.{py})")
            out.append(stub(lean, kind, n_args + n_extra + (1 if has_self else 0), py, kw=bool(fn.args.kwonlyargs)))
        siblings[py] = Sibling(py, lean, kind if has_self else "fn", n_args, is_property(fn), fn=fn,
                               recv=(fn.args.args[0].arg if has_self and fn.args.args else "self"),
                               state=spec.get("state"))
    out += [f"end Utv.Gen.{ns}", ""]
    return "\n".join(out)


def _find_module_func(repo: Path, rel: str, name: str):
    def find(_tree, _cls):
        try:
            tree = ast.parse((repo / rel).read_text())
        except Exception:
            return None
        return next((n for n in tree.body if isinstance(n, ast.FunctionDef) and n.name == name), None)
    return find


def _is_options_dict_start(st) -> bool:
    """`options = {}` — where `Options.__init__` stops normalising its arguments and starts storing them"""
    return (isinstance(st, ast.Assign) and len(st.targets) == 1 and isinstance(st.targets[0], ast.Name)
            and st.targets[0].id == "options" and isinstance(st.value, ast.Dict) and not st.value.keys)


def gen_options(repo: Path, notes: list, gate_ok: bool) -> str:
    """Gen/Options.lean: the normalising part of `Options.__init__` (result: the locals as a record), and the
    `RuntimeContext` methods that account for depth / routes and collect errors"""
    src = "utype/parser/options.py"
    tree = ast.parse((repo / src).read_text())
    out = obj_file_header("utype/parser/options.py (Options.__init__ normalisation; RuntimeContext)", "Options")
    body = []
    # --- Options
    part = gen_group(
        repo, notes, src_file=src, cls_name="Options", ns="Options", title="",
        funcs=[
            {"py": "multi", "find": _find_module_func(repo, "utype/utils/functional.py", "multi"), "has_self": False,
             "src_file": "utype/utils/functional.py", "arity": 1},
            {"py": "__init__", "lean": "Options_init", "stop_before": _is_options_dict_start, "kw": True, "arity": 1,
             "doc": " up to (not including) `options = {}`: the keyword arguments after normalisation, as a record"},
        ],
        ignored_calls={"warning_settings.warn"}, gate_ok=gate_ok)
    body += _group_body(part)
    # --- Options.vacuum, Options.__and__
    part = gen_group(
        repo, notes, src_file=src, cls_name="Options", ns="Options", title="",
        funcs=[{"py": "vacuum", "lean": "Options_vacuum", "arity": 1},
               {"py": "__and__", "lean": "Options_and", "arity": 2}], gate_ok=gate_ok)
    body += _group_body(part)
    tree_cls = find_class(tree, "Options")
    and_fn = find_method(tree_cls, "__and__")
    operators = {"__and__": Sibling("__and__", "Options_and", "pure", 1, fn=and_fn)} if and_fn else {}
    # --- RuntimeContext
    rc = find_class(tree, "RuntimeContext")
    init_fn = find_method(rc, "__init__")
    new_sib = Sibling("__init__", "RuntimeContext_new", "pure", 0, fn=init_fn) if init_fn else None
    part = gen_group(
        repo, notes, src_file=src, cls_name="RuntimeContext", ns="Options", title="",
        funcs=[
            {"py": "__init__", "lean": "RuntimeContext_init", "kind": "mut", "arity": 7},
        ],
        externals={"Options"}, gate_ok=gate_ok)
    body += _group_body(part)
    if init_fn is not None:
        params = [a.arg for a in init_fn.args.args if a.arg != "self"]
        ps = " ".join(f"({lname(x)} : OVal V)" for x in params)
        body += ["/-- `RuntimeContext(…)`: a new instance through `__init__`; what `__init__` raises, the construction raises -/",
                 f"def RuntimeContext_new (W : World V) {ps} : M V (OVal V) := do",
                 f"  let r ← RuntimeContext_init W (OVal.obj \"RuntimeContext\" []) {' '.join(lname(x) for x in params)}",
                 "  match r.2 with", "  | Outcome.raise e => throw (Exc.raised e)", "  | Outcome.ret _ => pure r.1", ""]
    ctors = {"RuntimeContext": new_sib} if new_sib else {}
    part = gen_group(
        repo, notes, src_file=src, cls_name="RuntimeContext", ns="Options", title="",
        funcs=[
            {"py": "enter", "arity": 3, "operators": operators, "constructors": ctors},
            {"py": "raise_error", "kind": "mut", "arity": 1},
            {"py": "collect_tmp_error", "kind": "mut", "arity": 2},
            {"py": "clear_tmp_error", "kind": "mut", "arity": 1},
            {"py": "handle_error", "kind": "mut", "arity": 3},
            {"py": "make_context", "cls": "Options", "lean": "Options_make_context", "arity": 4, "constructors": ctors},
        ],
        externals={"Options"}, gate_ok=gate_ok)
    body += _group_body(part)
    return "\n".join(out + body + ["end Utv.Gen.Options", ""])


def _group_body(text: str) -> list[str]:
    """the definitions of a `gen_group` output, without its header and `end` line"""
    lines = text.split("\n")
    start = next(i for i, l in enumerate(lines) if l.startswith("variable {V : Type}")) + 2
    end = max(i for i, l in enumerate(lines) if l.startswith("end Utv.Gen."))
    return lines[start:end]


def _find_nested(outer: str, inner: str):
    def find(_tree, cls):
        o = find_method(cls, outer)
        return next((n for n in (ast.walk(o) if o else []) if isinstance(n, ast.FunctionDef) and n.name == inner and n is not o), None)
    return find


def _is_def(name: str):
    return lambda st: isinstance(st, ast.FunctionDef) and st.name == name


def gen_registry(repo: Path, notes: list, gate_ok: bool) -> str:
    """Gen/Registry.lean: `TypeRegistry.register`'s inner `decorator(f)` (insert + stable sort + cache drop +
    generation; the closure variables `detector`, `priority` become parameters) and `resolve`"""
    return gen_group(
        repo, notes, src_file="utype/utils/base.py", cls_name="TypeRegistry", ns="Registry",
        title="utype/utils/base.py (class TypeRegistry: register's decorator, resolve)",
        funcs=[
            {"py": "decorator", "lean": "register_decorator", "find": _find_nested("register", "decorator"), "kind": "mut",
             "params": ["detector", "priority"], "has_self": True, "arity": 4,
             "doc": " (inner function of `register`; closure variables `detector`, `priority` are parameters)"},
            {"py": "resolve", "kind": "mut", "arity": 2, "method_externals": {"resolve"}},
            {"py": "detector", "lean": "register_detector", "find": _find_nested("register", "detector"), "has_self": False,
             "params": ["classes", "allow_subclasses", "metaclass", "attr"], "arity": 5,
             "doc": " (closure built by `register`; its closure variables are parameters)"},
            {"py": "register", "lean": "register_outer", "stop_before": _is_def("decorator"), "arity": 3, "kw": True,
             "result_locals": ["detector", "priority"], "module_calls": {"inspect.isclass": "isclass"},
             "doc": " up to (not including) `def decorator`: the argument checks; result: what the decorator captures"},
        ], gate_ok=gate_ok)


# -------------------------------------------------------------------------------------------------------------
# more tables: specs/json_schema/constant.py, the format lists of transform.py, the safe-number bounds of encode.py
# -------------------------------------------------------------------------------------------------------------

def lean_pairs(ps) -> str:
    return "[" + ", ".join(f"({json.dumps(a)}, {json.dumps(b)})" for a, b in ps) + "]"


def gen_json_tables(repo: Path, notes: list) -> str:
    """Gen/JsonTables.lean — every map of specs/json_schema/constant.py as data.  A key / value that is a string
    literal is that string; anything else (a class expression such as `type(None)`, `(float, Decimal)`) is its source
    text (`ast.unparse`).  `**OTHER` and a bare name as a value are expanded from the module's own assignments."""
    src_file = "utype/specs/json_schema/constant.py"
    out = ["/-! GENERATED by tools/extract.py from utype/specs/json_schema/constant.py (+ generator.py DEFAULT_PRIMITIVE) — do not edit. -/",
           "namespace Utv.Gen.JsonTables", ""]
    try:
        tree = ast.parse((repo / src_file).read_text())
    except Exception:
        tree = ast.parse("")
    env = {}
    for node in tree.body:
        if isinstance(node, ast.Assign) and len(node.targets) == 1 and isinstance(node.targets[0], ast.Name):
            env[node.targets[0].id] = node.value

    def text(e) -> str:
        if isinstance(e, ast.Constant) and isinstance(e.value, str):
            return e.value
        if isinstance(e, ast.Constant):
            raise Untranslatable(f"{src_file}:{e.lineno} non-string literal")
        return ast.unparse(e)

    def pairs(d, depth=0):
        if isinstance(d, ast.Name) and d.id in env and depth < 4:
            return pairs(env[d.id], depth + 1)
        if not isinstance(d, ast.Dict):
            raise Untranslatable(f"{src_file}:{getattr(d, 'lineno', '?')} not a dict literal")
        ps = []
        for k, v in zip(d.keys, d.values):
            if k is None:
                ps += pairs(v, depth + 1)
            else:
                ps.append((text(k), text(v)))
        return ps

    def strs(e):
        if not isinstance(e, (ast.Tuple, ast.List)) or not all(isinstance(x, ast.Constant) and isinstance(x.value, str) for x in e.elts):
            raise Untranslatable(f"{src_file}:{getattr(e, 'lineno', '?')} not a tuple of string literals")
        return [x.value for x in e.elts]

    def emit(name, ty, f):
        try:
            if name not in env:
                raise Untranslatable(f"{src_file} {name} (not found)")
            out.append(f"def {name} : {ty} := {f(env[name])}")
        except Untranslatable as e:
            notes.append(f"untranslatable {e} (table {name})")
            out.append(f"def {name} : {ty} := []   -- untranslatable")

    emit("PRIMITIVES", "List String", lambda e: lean_str_list(strs(e)))
    for nm in ("PRIMITIVE_MAP", "TYPE_MAP", "OPERATOR_NAMES", "FORMAT_MAP", "DEFAULT_CONSTRAINTS_MAP", "CONSTRAINTS_MAP",
               "FORMAT_PATTERNS"):
        emit(nm, "List (String × String)", lambda e: lean_pairs(pairs(e)))

    def tcm(e):
        if not isinstance(e, ast.Dict) or any(k is None for k in e.keys):
            raise Untranslatable(f"{src_file} TYPE_CONSTRAINTS_MAP shape")
        return "[" + ",\n  ".join(f"({lean_str_list(strs(k))}, {lean_pairs(pairs(v))})" for k, v in zip(e.keys, e.values)) + "]"
    emit("TYPE_CONSTRAINTS_MAP", "List (List String × List (String × String))", tcm)
    # generator.py: class attribute DEFAULT_PRIMITIVE of JsonSchemaGenerator
    try:
        g = ast.parse((repo / "utype/specs/json_schema/generator.py").read_text())
        v = find_assign(g, "DEFAULT_PRIMITIVE", "JsonSchemaGenerator")
        if not (isinstance(v, ast.Constant) and isinstance(v.value, str)):
            raise Untranslatable("utype/specs/json_schema/generator.py JsonSchemaGenerator.DEFAULT_PRIMITIVE")
        out.append(f"def DEFAULT_PRIMITIVE : String := {json.dumps(v.value)}")
    except (Untranslatable, OSError, SyntaxError) as e:
        notes.append(f"untranslatable {e} (DEFAULT_PRIMITIVE)")
        out.append('def DEFAULT_PRIMITIVE : String := ""   -- untranslatable')
    # parser.py: class attribute TYPE_KEYWORDS of JsonSchemaParser (type name -> the keywords that reveal it)
    try:
        pt = ast.parse((repo / "utype/specs/json_schema/parser.py").read_text())
        v = find_assign(pt, "TYPE_KEYWORDS", "JsonSchemaParser")
        if not isinstance(v, ast.Dict) or any(k is None for k in v.keys):
            raise Untranslatable("utype/specs/json_schema/parser.py JsonSchemaParser.TYPE_KEYWORDS")
        rows = []
        for k, val in zip(v.keys, v.values):
            if not (isinstance(k, ast.Constant) and isinstance(k.value, str)):
                raise Untranslatable("utype/specs/json_schema/parser.py TYPE_KEYWORDS key")
            rows.append(f"({json.dumps(k.value)}, {lean_str_list(strs(val))})")
        out.append("def PARSER_TYPE_KEYWORDS : List (String × List String) := [" + ", ".join(rows) + "]")
    except (Untranslatable, OSError, SyntaxError) as e:
        notes.append(f"untranslatable {e} (TYPE_KEYWORDS)")
        out.append("def PARSER_TYPE_KEYWORDS : List (String × List String) := []   -- untranslatable")
    out += ["", "end Utv.Gen.JsonTables", ""]
    return "\n".join(out)


def gen_codec_tables(repo: Path, notes: list) -> str:
    """Gen/CodecTables.lean — the format lists of `TypeTransformer` (transform.py; `DateFormat.X` resolved) and the
    safe-number bounds of encode.py"""
    out = ["/-! GENERATED by tools/extract.py from utype/utils/transform.py (DATE_FORMATS, DATETIME_FORMATS) and "
           "utype/utils/encode.py (MAX/MIN_SAFE_NUMBER) — do not edit. -/", "namespace Utv.Gen.CodecTables", ""]
    src_file = "utype/utils/transform.py"
    try:
        tr = ast.parse((repo / src_file).read_text())
    except Exception:
        tr = ast.parse("")

    def fmt(e):
        if isinstance(e, ast.Constant) and isinstance(e.value, str):
            return e.value
        if isinstance(e, ast.Attribute) and isinstance(e.value, ast.Name):
            v = find_assign(tr, e.attr, e.value.id)
            if isinstance(v, ast.Constant) and isinstance(v.value, str):
                return v.value
        raise Untranslatable(f"{src_file}:{getattr(e, 'lineno', '?')} format entry {ast.unparse(e)}")

    for nm in ("DATE_FORMATS", "DATETIME_FORMATS"):
        try:
            v = find_assign(tr, nm, "TypeTransformer")
            if not isinstance(v, (ast.List, ast.Tuple)):
                raise Untranslatable(f"{src_file} TypeTransformer.{nm}")
            out.append(f"def {nm} : List String := {lean_str_list([fmt(x) for x in v.elts])}")
        except Untranslatable as e:
            notes.append(f"untranslatable {e} (table {nm})")
            out.append(f"def {nm} : List String := []   -- untranslatable")
    try:
        en = ast.parse((repo / "utype/utils/encode.py").read_text())
    except Exception:
        en = ast.parse("")
    for nm in ("MAX_SAFE_NUMBER", "MIN_SAFE_NUMBER"):
        v = find_assign(en, nm)
        try:
            val = ast.literal_eval(v) if v is not None else None
        except Exception:
            val = None
        if isinstance(val, int) and not isinstance(val, bool):
            out.append(f"def {nm} : Int := {val}")
        else:
            notes.append(f"untranslatable utype/utils/encode.py {nm}")
            out.append(f"def {nm} : Int := 0   -- untranslatable")
    out += ["", "end Utv.Gen.CodecTables", ""]
    return "\n".join(out)


def _siblings_of(repo: Path, rel: str, cls_name: str, ns: str, names_kinds: dict) -> dict:
    """`Sibling` records for functions another generated file (`Utv.Gen.<ns>`) already defines"""
    out = {}
    try:
        cls = find_class(ast.parse((repo / rel).read_text()), cls_name)
    except Exception:
        cls = None
    for nm, kind in names_kinds.items():
        fn = find_method(cls, nm)
        if fn is None:
            continue
        n_args = len([a for a in fn.args.args if a.arg not in ("self", "cls")])
        out[nm] = Sibling(nm, f"Utv.Gen.{ns}.{nm}", kind, n_args, is_property(fn), fn=fn, recv=fn.args.args[0].arg)
    return out


def check_context_manager(repo: Path, notes: list) -> bool:
    """`with context.enter(r) as c:` is read as `c = context.enter(r)`: `__enter__` must return self, `__exit__` do nothing"""
    try:
        cls = find_class(ast.parse((repo / "utype/parser/options.py").read_text()), "RuntimeContext")
        en, ex = find_method(cls, "__enter__"), find_method(cls, "__exit__")
        ok = (en is not None and len(en.body) == 1 and ast.unparse(en.body[0]) == "return self"
              and ex is not None and len(ex.body) == 1 and isinstance(ex.body[0], ast.Pass))
    except Exception:
        ok = False
    if not ok:
        notes.append("untranslatable utype/parser/options.py RuntimeContext.__enter__/__exit__ are not the modelled ones")
    return ok


def _class_str_consts(repo: Path, rel: str, cls_name: str, prefix: str) -> dict:
    """the string constants written in the body of a class (`THROW = "throw"`), by dotted name"""
    try:
        cls = find_class(ast.parse((repo / rel).read_text()), cls_name)
    except Exception:
        cls = None
    out = {}
    for st in (cls.body if cls else []):
        if isinstance(st, ast.Assign) and len(st.targets) == 1 and isinstance(st.targets[0], ast.Name) \
                and isinstance(st.value, ast.Constant) and isinstance(st.value.value, str) and st.targets[0].id.isupper():
            out[f"{prefix}.{st.targets[0].id}"] = f"(OVal.str {json.dumps(st.value.value)})"
    return out


def gen_parse(repo: Path, notes: list, gate_ok: bool) -> str:
    """Gen/Parse.lean: the functions that convert one value under a context and report through it —
    `ParserField.parse_value`, `BaseParser.parse_addition`, `Rule._parse_contains`, `Rule._validate_contains`.
    The context is threaded (its `handle_error` is `Utv.Gen.Options.handle_error`); entering a sub-context and the
    conversion itself are the world's (`W.ext "enter"`, calling the `transformer` of the entered context)."""
    enter_ok = check_context_manager(repo, notes)
    ctx_sibs = _siblings_of(repo, "utype/parser/options.py", "RuntimeContext", "Options",
                            {"handle_error": "mut", "enter": "mut", "raise_error": "mut", "collect_tmp_error": "mut",
                             "clear_tmp_error": "mut"})
    field_sibs = _siblings_of(repo, "utype/parser/field.py", "ParserField", "Field",
                              {"get_on_error": "pure", "is_required": "pure", "get_default": "pure"})
    common = dict(kind="mut", state="context", state_siblings=ctx_sibs, enter_ok=enter_ok)
    out = obj_file_header("utype/parser/field.py (parse_value), base.py (parse_addition), rule.py (_parse_contains, "
                          "_validate_contains)", "Parse", imports=["Utv.Gen.Field", "Utv.Gen.Options"])
    body = []
    part = gen_group(repo, notes, src_file="utype/parser/field.py", cls_name="ParserField", ns="Parse", title="",
                     funcs=[dict(py="_invalid_value", lean="invalid_value", arity=5, **common),
                            dict(py="parse_value", arity=4, **common)], base_siblings=field_sibs,
                     ignored_calls={"context.collect_waring"}, gate_ok=gate_ok)
    body += _group_body(part)
    part = gen_group(repo, notes, src_file="utype/parser/base.py", cls_name="BaseParser", ns="Parse", title="",
                     funcs=[dict(py="parse_addition", arity=4, **common)],
                     ignored_calls={"context.collect_waring"}, gate_ok=gate_ok)
    body += _group_body(part)
    part = gen_group(repo, notes, src_file="utype/parser/rule.py", cls_name="Rule", ns="Parse", title="",
                     funcs=[dict(py="_validate_contains", lean="validate_contains", kind="pure", arity=1),
                            dict(py="_read_items", lean="read_items", arity=4, **common),
                            dict(py="_parse_contains", lean="parse_contains", arity=3, **common)],
                     gate_ok=gate_ok)
    body += _group_body(part)
    part = gen_group(repo, notes, src_file="utype/parser/rule.py", cls_name="LogicalType", ns="Parse", title="",
                     funcs=[dict(py="logical_parse", arity=3, module_calls={"utype.Options": "Options"},
                                        module_consts=_class_str_consts(repo, "utype/parser/options.py", "Options", "utype.Options"),
                                        **common)],
                     externals={"RuntimeContext"},
                     gate_ok=gate_ok)
    body += _group_body(part)
    return "\n".join(out + body + ["end Utv.Gen.Parse", ""])


def _constant_tables(repo: Path) -> dict:
    """(module alias, name) -> pairs, for the dict tables of specs/json_schema/constant.py"""
    out = {}
    try:
        tree = ast.parse((repo / "utype/specs/json_schema/constant.py").read_text())
    except Exception:
        return out
    for node in tree.body:
        if isinstance(node, ast.Assign) and len(node.targets) == 1 and isinstance(node.targets[0], ast.Name) \
                and isinstance(node.value, ast.Dict) and all(k is not None for k in node.value.keys):
            ps = []
            ok = True
            for k, v in zip(node.value.keys, node.value.values):
                kk = k.value if isinstance(k, ast.Constant) and isinstance(k.value, str) else ast.unparse(k)
                if isinstance(v, ast.Constant) and isinstance(v.value, str):
                    ps.append((kk, v.value))
                elif isinstance(v, (ast.Dict, ast.Name)):
                    ok = False
                    break
                else:
                    ps.append((kk, ast.unparse(v)))
            if ok:
                out[("constant", node.targets[0].id)] = ps
    return out


def gen_generator(repo: Path, notes: list, gate_ok: bool) -> str:
    """Gen/Generator.lean: `JsonSchemaGenerator._get_format / _get_primitive` (first table entry whose classes cover the
    origin; the tables of constant.py are inlined)"""
    return gen_group(
        repo, notes, src_file="utype/specs/json_schema/generator.py", cls_name="JsonSchemaGenerator", ns="Generator",
        title="utype/specs/json_schema/generator.py (_get_format, _get_primitive)",
        funcs=[{"py": "_get_format", "lean": "get_format", "arity": 2, "module_tables": _constant_tables(repo)},
               {"py": "_get_primitive", "lean": "get_primitive", "arity": 2, "module_tables": _constant_tables(repo)}],
        gate_ok=gate_ok)


def gen_functional_obj(repo: Path, notes: list, gate_ok: bool) -> str:
    """Gen/FunctionalObj.lean: `distinct_add` of utils/functional.py (the list it extends in place is handed back)"""
    src = "utype/utils/functional.py"
    return gen_group(
        repo, notes, src_file=src, cls_name=None, ns="FunctionalObj", title="utype/utils/functional.py (multi, distinct_add)",
        funcs=[{"py": "multi", "find": _find_module_func(repo, src, "multi"), "has_self": False, "arity": 1},
               {"py": "distinct_add", "find": _find_module_func(repo, src, "distinct_add"), "has_self": False, "arity": 2}],
        gate_ok=gate_ok)


def gen_encode(repo: Path, notes: list, gate_ok: bool) -> str:
    """Gen/Encode.lean: `js_unsafe` of utils/encode.py (the module constants it compares with are inlined)"""
    src = "utype/utils/encode.py"
    consts = {}
    try:
        tree = ast.parse((repo / src).read_text())
        for nm in ("MAX_SAFE_NUMBER", "MIN_SAFE_NUMBER"):
            v = find_assign(tree, nm)
            val = ast.literal_eval(v) if v is not None else None
            if isinstance(val, int) and not isinstance(val, bool):
                consts[nm] = val
    except Exception:
        pass
    return gen_group(
        repo, notes, src_file=src, cls_name=None, ns="Encode", title="utype/utils/encode.py (js_unsafe)",
        funcs=[{"py": "js_unsafe", "find": _find_module_func(repo, src, "js_unsafe"), "has_self": False, "arity": 1,
                "consts": consts},
               {"py": "duration_iso_string", "find": _find_module_func(repo, src, "duration_iso_string"),
                "has_self": False, "arity": 1},
               {"py": "from_time", "find": _find_module_func(repo, src, "from_time"), "has_self": False, "arity": 1}],
        gate_ok=gate_ok)


def gen_field(repo: Path, notes: list, gate_ok: bool) -> str:
    return gen_group(
        repo, notes, src_file="utype/parser/field.py", cls_name="ParserField", ns="Field",
        title="utype/parser/field.py (class ParserField: the predicates a parse asks of a field)",
        funcs=[{"py": f} for f in FIELD_FUNCS], externals={"copy_value"}, gate_ok=gate_ok)


def gen_forward(repo: Path, notes: list, gate_ok: bool) -> str:
    """Gen/Forward.lean: rule.py's module functions on forward references"""
    src = "utype/parser/rule.py"
    return gen_group(
        repo, notes, src_file=src, cls_name=None, ns="Forward",
        title="utype/parser/rule.py (resolve_forward_type)",
        funcs=[{"py": "resolve_forward_type", "find": _find_module_func(repo, src, "resolve_forward_type"),
                "has_self": False, "arity": 1}],
        gate_ok=gate_ok)


def gen_schema(repo: Path, notes: list, gate_ok: bool) -> str:
    """Gen/Schema.lean: the deleting mutators of `Schema` (a dict subclass: items under "<dict>", attributes under
    "__dict__"); the parser's `get_field`, a field's `is_required` and a property's deleter are the world's"""
    c = dict(dict_base=True)
    return gen_group(
        repo, notes, src_file="utype/schema.py", cls_name="Schema", ns="Schema",
        title="utype/schema.py (class Schema: __contains__, __field_deleter__, __delitem__, pop, popitem, clear, __getitem__, setdefault, update)",
        funcs=[dict(py="__contains__", lean="contains_", kind="pure", **c),
               dict(py="__field_deleter__", lean="field_deleter", kind="mut", **c),
               dict(py="__delitem__", lean="delitem", kind="mut", **c),
               dict(py="pop", kind="mut", **c),
               dict(py="popitem", kind="mut", **c),
               dict(py="clear", kind="mut", **c),
               dict(py="__getitem__", lean="getitem_", kind="pure", **c),
               dict(py="setdefault", kind="mut", foreign_self_methods={"__setitem__"}, **c),
               dict(py="update", kind="mut", foreign_self_methods={"__setitem__"}, kwargs_param=True, **c)],
        gate_ok=gate_ok)


def main():
    ap = argparse.ArgumentParser()
    ap.add_argument("--repo", default="/repo")
    ap.add_argument("--out", required=True)
    a = ap.parse_args()
    repo, outd = Path(a.repo), Path(a.out)
    outd.mkdir(parents=True, exist_ok=True)
    notes: list[str] = []
    files = {}
    load_exc_subclasses(repo)
    tables, js = gen_tables(repo, notes)
    files["Tables.lean"] = tables
    files["Constraints.lean"] = gen_constraints(repo, notes)
    files["Functional.lean"] = gen_functional(repo, notes)
    files["tables.json"] = json.dumps(js, indent=1, sort_keys=True)
    unprov_ok = check_unprovided(repo, notes)
    files["Field.lean"] = gen_field(repo, notes, unprov_ok)
    files["Options.lean"] = gen_options(repo, notes, unprov_ok)
    files["Registry.lean"] = gen_registry(repo, notes, unprov_ok)
    files["Encode.lean"] = gen_encode(repo, notes, unprov_ok)
    files["Parse.lean"] = gen_parse(repo, notes, unprov_ok)
    files["Generator.lean"] = gen_generator(repo, notes, unprov_ok)
    files["FunctionalObj.lean"] = gen_functional_obj(repo, notes, unprov_ok)
    files["Schema.lean"] = gen_schema(repo, notes, unprov_ok)
    files["Forward.lean"] = gen_forward(repo, notes, unprov_ok)
    files["JsonTables.lean"] = gen_json_tables(repo, notes)
    files["CodecTables.lean"] = gen_codec_tables(repo, notes)
    files["NOTES.txt"] = "\n".join(notes) + ("\n" if notes else "")
    for name, txt in files.items():
        p = outd / name
        if not p.exists() or p.read_text() != txt:   # keep mtimes when nothing changed (lake no-op)
            p.write_text(txt)
    for n in notes:
        print(n)
    print(f"extract: {len(files)} files, {len(notes)} untranslatable")
    return 0


if __name__ == "__main__":
    sys.exit(main())
