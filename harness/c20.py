"""C20 — concurrent use is safe, including the first use of a type.

Tie (T2): a deterministic line-level thread scheduler.  The threads of a case run the real utype under
`sys.settrace`; every `line` event inside the functions that touch the shared parser / registry state is a
scheduling point, the controller lets exactly one thread execute exactly one such line at a time and follows
the explicit schedule of the case.  What comes back is (a) what every call returned, (b) the executed
sequence of (thread, source line) events.  The Lean model `Utv.C20` is replayed on that very sequence: it must
be able to follow it line by line (same control flow) and predict the same outcomes.

Spec (the property itself, evaluated on what the implementation returned): every call made under the schedule
returns what the same call returns when the threads run one after the other, no call ends in a dead-lock, and
the calls made after the concurrent phase behave as after the sequential run (nothing half-initialised stays).
"""
from __future__ import annotations

import inspect
import itertools
import json
import os
import re
import sys
import threading
import types

from . import common
from .common import Check

# ------------------------------------------------------------------------------------------------
# 1. scheduling points: (file suffix, qualified name) -> tag ; a label is "<tag>:<key of the line>"
# ------------------------------------------------------------------------------------------------

TARGETS = {
    ("utype/parser/base.py", "BaseParser.resolve_forward_refs"): "rfr",
    ("utype/parser/base.py", "BaseParser._resolve_forward_refs"): "rfr",
    ("utype/parser/func.py", "FunctionParser.resolve_forward_refs"): "frf",
    ("utype/parser/options.py", "Options.__and__"): "opt",      # merge of shared Options objects on the parse path
    ("utype/parser/func.py", "FunctionParser.positional_fields"): "pf",      # lazily built index (cached_property body)
    ("utype/parser/cls.py", "ClassParser.resolve_forward_refs"): "crf",      # walks the base classes' parsers first
    ("utype/parser/field.py", "ParserField.resolve_forward_refs"): "fld",
    ("utype/parser/field.py", "ParserField.parse_value"): "pv",
    ("utype/parser/rule.py", "resolve_forward_type"): "rft",
    ("utype/parser/rule.py", "LogicalType.resolve_forward_refs"): "lrf",
    ("utype/parser/rule.py", "Rule.resolve_forward_refs"): "rrf",
    ("utype/utils/transform.py", "TypeTransformer.__call__"): "tc",
    ("utype/utils/transform.py", "TypeTransformer.apply"): "ta",
    ("utype/utils/base.py", "TypeRegistry.resolve"): "res",
    ("utype/utils/base.py", "TypeRegistry.register.<locals>.decorator"): "reg",
    ("utype/parser/base.py", "BaseParser.apply_for"): "apf",
}

# a source line is *visible* (touches state shared between threads) when it matches this; every other line
# of the functions above only works on locals, commutes with every step of the other threads and is not a
# scheduling point in mode "vis" (it is one in mode "all", used by the thorough tier to test this claim)
SHARED = re.compile(
    r"\.forward_refs\b(?!,)|__forward_evaluated__|__forward_value__|evaluate_forward_ref|self\.type\b|self\.output_type\b"
    r"|addition_type|__args__|__arg_transformers__|\b_cache\b|\b_registry\b|\b_generation\b|__parsers__|position_type|return_type"
    r"|^\s*with\s+[\w.]*lock[\w.]*\s*:|\.args\b"
)
LOCK_RE = re.compile(r"^\s*with\s+([\w.]*lock[\w.]*)\s*:", re.I)

# names of visible lines the model knows (first matching pattern wins); anything visible that is not named
# gets the label "<tag>:?<text>" and the model cannot follow it -> reported as a disagreement
NAMES = {
    "rfr": [
        (r"^if not self\.forward_refs:", "chk"),
        (r"^with\s", "lock"),
        (r"^for name in list\(self\.forward_refs\):", "list"),
        (r"^ref, constraints = self\.forward_refs\[name\]", "get"),
        (r"^evaluate_forward_ref\(", "eval"),
        (r"^if ref\.__forward_evaluated__:", "isev"),
        (r"^value = ref\.__forward_value__", "rdval"),
        (r"^ref\.__forward_value__ = self\.rule_cls\.parse_annotation\(", "wr"),
        (r"^ref\.__forward_value__ = self\.rule_cls\.annotate\(", "wrc"),
        (r"^constraints=\{\"const\": ref\.__forward_value__\}", "wrcarg"),
        (r"^self\.forward_refs\.pop\(name\)", "pop"),
        (r"^self\.forward_refs\.pop\(name, None\)", "popd"),
        (r"^self\.addition_type, r = resolve_forward_type\(self\.addition_type\)", "addn"),
        (r"^ref\.__forward_evaluated__ = False", "clr1"),
        (r"^ref\.__forward_value__ = None", "clr2"),
    ],
    "pf": [
        (r"^fields = \{\}", "new"),
        (r"^for index, key in self\.pos_key_map\.items\(\):", "for"),
        (r"^field = self\.get_field\(key\)", "get"),
        (r"^if not field:", "chk"),
        (r"^continue", "cont"),
        (r"^fields\[index\] = field", "put"),
        (r"^return fields", "ret"),
    ],
    "frf": [
        (r"^if self\.position_type:", "pos?"),
        (r"^self\.position_type, r = resolve_forward_type\(self\.position_type\)", "pos"),
        (r"^if self\.return_type:", "ret?"),
        (r"^self\.return_type, r = resolve_forward_type\(self\.return_type\)", "ret"),
    ],
    "fld": [
        (r"^if self\.type:", "ty?"),
        (r"^self\.type, r = resolve_forward_type\(self\.type\)", "ty"),
        (r"^if self\.output_type:", "oty?"),
        (r"^self\.output_type, r = resolve_forward_type\(self\.output_type\)", "oty"),
    ],
    "rft": [
        (r"^if t\.__forward_evaluated__:", "isev"),
        (r"^return t\.__forward_value__, True", "rdval"),
    ],
    "rrf": [
        (r"^if not cls\.__args__:", "args?"),
        (r"^for arg, trans in zip\(cls\.__args__, cls\.__arg_transformers__\):", "zip"),
    ],
    "pv": [
        (r"^type = self\.type", "rdty"),
        (r"^type=self\.type,", "errty"),
    ],
    "tc": [
        (r"^if not t\.__forward_evaluated__:", "isev"),
        (r"^t = t\.__forward_value__", "rdval"),
    ],
    "ta": [
        (r"^if not t\.__forward_evaluated__:", "isev"),
        (r"^t = t\.__forward_value__", "rdval"),
    ],
    "res": [
        (r"^cached = self\._cache\.get\(t\)", "cget"),
        (r"^generation = self\._generation", "gen"),
        (r"^for detector, trans, priority in self\._registry:", "iter"),
        (r"^with\s", "lock"),
        (r"^if generation == self\._generation:", "gchk"),
        (r"^self\._cache\[t\] = trans", "cset"),
        (r"^if self\.cache and t in self\._cache:", "cchk"),          # before C20-registry-cache-lookup
        (r"^return self\._cache\[t\]", "cget"),                        # before C20-registry-cache-lookup
    ],
    "reg": [
        (r"^with\s", "lock"),
        (r"^self\._cache\.clear\(\)", "clr"),
        (r"^registry = \[\(detector, f, priority\)\] \+ self\._registry", "copy"),
        (r"^self\._registry = registry", "pub"),
        (r"^self\._generation \+= 1", "gen"),
        (r"^self\._registry\.insert\(0, \(detector, f, priority\)\)", "ins"),   # before C20-register-race
        (r"^self\._registry\.sort\(", "sort"),                                   # before C20-register-race
    ],
    "apf": [
        (r"^if not no_cache and key in __parsers__:", "chk"),
        (r"^cached: \"BaseParser\" = __parsers__\[key\]", "get"),
        (r"^__parsers__\[key\] = inst", "set"),
    ],
}


# ---- lazily initialised / runtime-written parser state, found in the source (ast, nothing imported) -------------
LAZY_FILES = ["utype/parser/func.py", "utype/parser/base.py", "utype/parser/cls.py", "utype/parser/field.py",
              "utype/parser/options.py"]
# objects created per call (never shared between threads): their methods may write their own state at any time
PER_CALL_CLASSES = {"RuntimeContext"}
# methods that run while a declaration is being built (single-threaded by nature: the object is not shared yet)
CONSTRUCTION_ROOTS = ["__init__", "__init_subclass__", "__set_name__", "make_init"]
# the functions of the thread model that rewrite parser state at the first use (all in TARGETS, all modelled)
RUNTIME_WRITERS = {
    ("utype/parser/base.py", "BaseParser._resolve_forward_refs"),
    ("utype/parser/base.py", "BaseParser.resolve_forward_refs"),
    ("utype/parser/func.py", "FunctionParser.resolve_forward_refs"),
    ("utype/parser/field.py", "ParserField.resolve_forward_refs"),
}
MUTATORS = {"append", "add", "update", "pop", "popitem", "setdefault", "clear", "insert", "extend", "remove", "discard"}


def scan_lazy(repo):
    """-> (writers, cached): {(file, 'Cls.meth'): [(attr, line)…]} of methods outside the construction call graph that
    store to / mutate `self.<attr>`, and [(file, 'Cls.meth')] of cached_property methods"""
    import ast
    methods: dict = {}
    for f in LAZY_FILES:
        try:
            tree = ast.parse((repo / f).read_text())
        except Exception:
            continue
        for cls in [n for n in tree.body if isinstance(n, ast.ClassDef)]:
            if cls.name in PER_CALL_CLASSES:
                continue
            for n in cls.body:
                if isinstance(n, (ast.FunctionDef, ast.AsyncFunctionDef)):
                    methods.setdefault(n.name, []).append((f, cls.name, n))

    def refs(node):
        # methods called (x.m(...)) and properties read on self/cls
        # (closures defined in the method run later, at call time: not followed)
        out = set()
        todo = list(ast.iter_child_nodes(node))
        while todo:
            n = todo.pop()
            if isinstance(n, (ast.FunctionDef, ast.AsyncFunctionDef, ast.Lambda)):
                continue
            if isinstance(n, ast.Call) and isinstance(n.func, ast.Attribute):
                out.add(n.func.attr)
            if isinstance(n, ast.Attribute) and isinstance(n.value, ast.Name) and n.value.id in ("self", "cls"):
                out.add(n.attr)
            todo += list(ast.iter_child_nodes(n))
        return out

    reach, todo = set(), list(CONSTRUCTION_ROOTS)
    while todo:
        m = todo.pop()
        if m in reach or m not in methods:
            continue
        reach.add(m)
        for _, _, node in methods[m]:
            todo += list(refs(node))

    def is_self_attr(x):
        return isinstance(x, ast.Attribute) and isinstance(x.value, ast.Name) and x.value.id == "self"

    def writes(node):
        out = []
        for n in ast.walk(node):
            tgts = []
            if isinstance(n, ast.Assign):
                tgts = n.targets
            elif isinstance(n, (ast.AugAssign, ast.AnnAssign)):
                tgts = [n.target]
            for t in tgts:
                for x in ast.walk(t):
                    if is_self_attr(x) and isinstance(x.ctx, ast.Store):
                        out.append((x.attr, x.lineno))
                    if isinstance(x, ast.Subscript) and isinstance(x.ctx, ast.Store) and is_self_attr(x.value):
                        out.append((x.value.attr + "[]", x.lineno))
            if (isinstance(n, ast.Call) and isinstance(n.func, ast.Attribute) and n.func.attr in MUTATORS
                    and is_self_attr(n.func.value)):
                out.append((n.func.value.attr + "." + n.func.attr, n.lineno))
        return out

    writers, cached = {}, []
    for name, lst in methods.items():
        for f, c, node in lst:
            decos = []
            for d in node.decorator_list:
                try:
                    decos.append(ast.unparse(d))
                except Exception:
                    pass
            if any("cached_property" in d for d in decos):
                cached.append((f, f"{c}.{name}"))
                continue
            w = writes(node)
            if w and name not in reach:
                writers[(f, f"{c}.{name}")] = w
    return writers, cached


_DISCOVERED = None


def discovered():
    """traced on top of TARGETS: runtime writers of parser state that TARGETS does not name (tag `lazy`) and the bodies
    of cached_property attributes (tag `cp`); every line of them is a scheduling point"""
    global _DISCOVERED
    if _DISCOVERED is None:
        d = {}
        try:
            writers, cached = scan_lazy(common.REPO)
            for k in writers:
                if k not in RUNTIME_WRITERS:
                    d[k] = "lazy"
            for k in cached:
                if k not in TARGETS:
                    d[k] = "cp"
        except Exception:
            pass
        _DISCOVERED = d
    return _DISCOVERED


class _Abort(BaseException):
    pass


class _CodeInfo:
    __slots__ = ("tag", "lines", "start")

    def __init__(self, tag, code):
        self.tag = tag
        try:
            self.lines, self.start = inspect.getsourcelines(code)
        except Exception:
            self.lines, self.start = [], 0

    def text(self, lineno):
        i = lineno - self.start
        return self.lines[i] if 0 <= i < len(self.lines) else ""


_CODES: dict = {}


def _code_info(code):
    ci = _CODES.get(code, 0)
    if ci != 0:
        return ci
    ci = None
    fn = code.co_filename
    for (suf, qn), tag in [x for x in discovered().items() if x[1] == "lazy"] + list(TARGETS.items()) + list(discovered().items()):
        if fn.endswith(suf) and getattr(code, "co_qualname", code.co_name) == qn:
            ci = _CodeInfo(tag, code)
            break
    _CODES[code] = ci
    return ci


_LABELS: dict = {}


def _label(ci, code, lineno):
    """(label or None, visible?)"""
    k = (code, lineno)
    r = _LABELS.get(k)
    if r is not None:
        return r
    raw = ci.text(lineno)
    txt = raw.split("#")[0].strip()
    if ci.tag in ("lazy", "cp", "opt"):
        r = (f"{ci.tag}:{getattr(code, 'co_qualname', code.co_name)}+{lineno - ci.start}", True, LOCK_RE.match(raw))
        _LABELS[k] = r
        return r
    if ci.tag == "pf":          # every line of the getter body is a scheduling point
        lab = next((f"pf:{nm}" for pat, nm in NAMES["pf"] if re.match(pat, txt)), f"pf:?{txt[:60]}")
        r = (lab, True, LOCK_RE.match(raw))
        _LABELS[k] = r
        return r
    vis = bool(SHARED.search(raw.split("#")[0]))
    lab = None
    if vis:
        for pat, name in NAMES.get(ci.tag, []):
            if re.match(pat, txt):
                lab = f"{ci.tag}:{name}"
                break
        if lab is None:
            lab = f"{ci.tag}:?{txt[:60]}"
    r = (lab, vis, LOCK_RE.match(raw))
    _LABELS[k] = r
    return r


class Sched:
    """Runs the thread bodies; one traced `line` event = one atomic step; follows an explicit schedule.

    schedule = [[tid, nsteps], ...]: run thread `tid` for `nsteps` steps (or until it ends), then the next
    entry; when the list is used up the current thread runs on, then the lowest unfinished thread, without
    further preemption.  A thread that would block on a lock held by another thread is not enabled.
    """

    def __init__(self, schedule, mode="vis", points=None, max_steps=4000):
        self.schedule = [list(x) for x in schedule]
        self.all_lines = mode == "all"
        self.points = set(points) if points else None      # tags whose lines are scheduling points
        self.max_steps = max_steps
        self.trace: list = []       # [tid, label] of every executed *visible* step (and "start")
        self.steps = 0
        self.deadlock = False
        self.abort = False

    # -- thread side ------------------------------------------------------------------------------
    def _yield(self, tid, frame, lab, lock_m):
        if self.abort:
            return
        key = (id(frame), frame.f_lineno)
        if lock_m is not None and key in self.entered and lab:
            lab = lab.split(":")[0] + ":unlock"
        self.pending[tid] = lab
        self.state[tid] = "ready"
        self.ctrl.release()
        self.sem[tid].acquire()
        while True:
            if self.abort:
                raise _Abort()
            if lock_m is None:
                return
            if key in self.entered:
                self.entered.discard(key)        # the `with` line again: leaving the block
                return
            try:
                lk = eval(lock_m.group(1), frame.f_globals, frame.f_locals)
            except Exception:
                return
            if lk.acquire(False):
                lk.release()
                self.entered.add(key)
                return
            self.state[tid] = "blocked"
            self.ctrl.release()
            self.sem[tid].acquire()

    def _mk(self, tid, body):
        def local_tracer(frame, event, arg):
            if event == "line":
                code = frame.f_code
                ci = _code_info(code)
                if self.points is None or ci.tag in self.points:
                    lab, vis, lock_m = _label(ci, code, frame.f_lineno)
                    if vis or self.all_lines:
                        self._yield(tid, frame, lab, lock_m)
            return local_tracer

        def global_tracer(frame, event, arg):
            if _code_info(frame.f_code) is None:
                return None
            return local_tracer

        def target():
            self.pending[tid] = "start"
            self.state[tid] = "ready"
            self.ctrl.release()
            self.sem[tid].acquire()
            if not self.abort:
                sys.settrace(global_tracer)
                try:
                    self.results[tid] = body()
                except BaseException as e:  # noqa
                    self.results[tid] = {"body-exc": type(e).__name__}
                finally:
                    sys.settrace(None)
            self.state[tid] = "done"
            self.ctrl.release()

        return target

    # -- controller -------------------------------------------------------------------------------
    def run(self, bodies):
        n = len(bodies)
        self.sem = [threading.Semaphore(0) for _ in range(n)]
        self.ctrl = threading.Semaphore(0)
        self.state = ["new"] * n
        self.pending = [None] * n
        self.results = [None] * n
        self.entered = set()
        self.per_thread = [0] * n
        ths = [threading.Thread(target=self._mk(t, bodies[t]), daemon=True) for t in range(n)]
        for th in ths:
            th.start()
        for _ in range(n):
            self.ctrl.acquire()
        cur, left = None, 0
        sched = list(self.schedule)
        while any(s != "done" for s in self.state):
            enabled = [t for t in range(n) if self.state[t] == "ready"]
            if not enabled or self.steps >= self.max_steps:
                self.deadlock = True
                break
            if cur is None or left <= 0 or self.state[cur] != "ready":
                pick = None
                while sched:
                    t, k = sched[0]
                    if k <= 0 or not (0 <= t < n) or self.state[t] == "done":
                        sched.pop(0)
                        continue
                    if self.state[t] == "blocked":
                        break
                    pick, left = t, k
                    sched.pop(0)
                    break
                if pick is None:
                    if not sched and cur is not None and self.state[cur] == "ready":
                        pick = cur
                    else:
                        pick = enabled[0]
                    left = 1 if sched else 10 ** 9
                cur = pick
            t = cur
            lab = self.pending[t]
            self.sem[t].release()
            self.ctrl.acquire()
            if self.state[t] == "blocked":
                continue
            self.steps += 1
            self.per_thread[t] += 1
            left -= 1
            if lab is not None:
                self.trace.append([t, lab])
            for u in range(n):
                if self.state[u] == "blocked":
                    self.state[u] = "ready"
        if self.deadlock:
            self.abort = True
            for t in range(n):
                self.sem[t].release()
        for th in ths:
            th.join(5)
        return self.results


# ------------------------------------------------------------------------------------------------
# 2. programs (JSON descriptors -> generated source -> real classes / functions in a fresh module)
# ------------------------------------------------------------------------------------------------

_MOD = itertools.count()
TARGET_NAMES = ["B", "C", "D", "E"]          # defined after the class that refers to them; "U" never is


def _ann(f, uid=""):
    # typing caches List['B'] (and the ForwardRef inside it) process-wide: keep target names unique per module
    to = repr(f["to"] + uid)
    return {"ref": to, "list": f"List[{to}]", "opt": f"Optional[{to}]", "dict": f"Dict[str, {to}]",
            "slist": repr(f"List[{f['to'] + uid}]"), "plain": "int"}[f["ann"]]


def program_source(prog, uid="") -> str:
    fields = prog["fields"]
    imp = "import utype\nfrom utype import Schema, Options\nfrom typing import List, Optional, Dict, Union\n"
    if prog["kind"] in ("cls", "dc"):
        body = "".join(f"    f{i}: {_ann(f, uid)} = None\n" for i, f in enumerate(fields))
        if prog.get("inherit"):
            # the pending references live in the base class's parser: the subclass resolves them through it
            decl = "class Base(Schema):\n" + body + "class A(Base):\n    extra: int = 0\n"
        elif prog.get("twin"):
            # a second class with the same annotations: typing memoises List['B'], so the two parsers share the
            # ForwardRef objects nested in generics
            decl = "class A(Schema):\n" + body + "class A2(Schema):\n" + body
        elif prog["kind"] == "dc":
            decl = "@utype.dataclass\nclass A:\n" + body           # base class `object`: no base parser is asked
        else:
            decl = "class A(Schema):\n" + body
        if prog.get("local"):
            if prog.get("twin"):
                decl = "def _make():\n" + "".join("    " + l + "\n" for l in decl.splitlines()) + "    return A, A2\nA, A2 = _make()\n"
            else:
                decl = "def _make():\n" + "".join("    " + l + "\n" for l in decl.splitlines()) + "    return A\nA = _make()\n"
    else:
        params = ", ".join(f"f{i}: {_ann(f, uid)} = None" for i, f in enumerate(fields))
        ret = "{" + ", ".join(f"'f{i}': f{i}" for i in range(len(fields))) + "}"
        if prog.get("ret"):
            # the result itself is parsed through a forward reference: -> 'R'  (class R: x: int; n: int = 0)
            decl = f"@utype.parse\ndef A({params}) -> 'R{uid}':\n    return {{'x': '5', 'n': len([v for v in {ret}.values() if v is not None])}}\n"
        else:
            decl = f"@utype.parse\ndef A({params}):\n    return {ret}\n"
        if prog.get("local"):
            decl = "def _make():\n" + "".join("    " + l + "\n" for l in decl.splitlines()) + "    return A\nA = _make()\n"
    used = sorted({f["to"] for f in fields if f.get("to") in TARGET_NAMES}) or TARGET_NAMES[:1]
    if prog.get("chain"):
        # the referenced classes have a pending reference of their own: their first parse happens inside A's
        targets = "".join(f"class {n}{uid}(Schema):\n    x: int\n    y: 'Z{uid}' = None\n" for n in used)
        targets += f"class Z{uid}(Schema):\n    x: int\n"
    else:
        targets = "".join(f"class {n}{uid}(Schema):\n    x: int\n" for n in used)
    if prog.get("ret"):
        targets += f"class R{uid}(Schema):\n    x: int\n    n: int = 0\n"
    return imp + decl + targets


def build(prog):
    k = next(_MOD)
    name = f"_c20_mod_{k}"
    m = types.ModuleType(name)
    sys.modules[name] = m
    exec(compile(program_source(prog, f"_{k}"), name, "exec", dont_inherit=True), m.__dict__)
    return m


def drop(m):
    sys.modules.pop(m.__name__, None)


def field_input(i, f, bad, chain=False):
    x = "zz" if bad else str(i + 1)
    v = {"x": x, "y": {"x": "9"}} if chain else {"x": x}
    return {"ref": v, "list": [v], "slist": [v], "opt": v, "dict": {"k": v}, "plain": ("zz" if bad else str(i + 7))}[f["ann"]]


def call_input(prog, call):
    return {f"f{i}": field_input(i, prog["fields"][i], call.get("bad") == i, bool(prog.get("chain"))) for i in call["use"]}


def canon(v):
    if isinstance(v, dict):
        return {str(k): canon(x) for k, x in v.items()}
    if isinstance(v, (list, tuple)):
        return [canon(x) for x in v]
    if isinstance(v, (int, str, float, bool)) or v is None:
        return v
    if hasattr(type(v), "__parser__") and hasattr(v, "__dict__"):      # @utype.dataclass instance
        return {str(k): canon(x) for k, x in vars(v).items() if not str(k).startswith("_")}
    return repr(type(v).__name__)


def do_call(m, prog, call):
    try:
        kw = call_input(prog, call)
        if call.get("on") and prog.get("twin"):
            return {"ok": canon(m.A2(**kw))}
        if call.get("pos") and prog["kind"] == "fn":
            # positional call: the first keywords of the call go by position (needs the parser's lazily built index)
            npos = min(call["pos"], len(call["use"])) if not isinstance(call["pos"], bool) else len(call["use"])
            names = [f"f{i}" for i in call["use"]]
            if call["use"] == list(range(len(call["use"]))):
                r = m.A(*[kw[n] for n in names[:npos]], **{n: kw[n] for n in names[npos:]})
            else:
                r = m.A(**kw)
        else:
            r = m.A(**kw)
        return {"ok": canon(r)}
    except _Abort:
        raise
    except Exception as e:  # canonical: "ParseError" for the whole ParseError family, else the class name
        from utype.utils.exceptions import ParseError
        return {"err": "ParseError" if isinstance(e, ParseError) else type(e).__name__}


def post_calls(prog):
    n = len(prog["fields"])
    calls = [{"use": list(range(n))}] + [{"use": [i], "bad": i} for i in range(n)]
    if prog.get("twin"):
        calls += [dict(c, on=1) for c in calls]
    return calls


def run_sequential(prog, threads):
    m = build(prog)
    try:
        outs = [[do_call(m, prog, c) for c in calls] for calls in threads]
        post = [do_call(m, prog, c) for c in post_calls(prog)]
        return outs, post
    finally:
        drop(m)


def run_alone(prog, call):
    m = build(prog)
    try:
        return do_call(m, prog, call)
    finally:
        drop(m)


_REF: dict = {}


def impl(case):
    """Run one (program, schedule) on the real utype."""
    if case.get("op") == "registry":
        return impl_registry(case)
    if case.get("op") == "apf":
        return impl_apf(case)
    if case.get("op") == "steady":
        return impl_steady(case)
    prog, threads = case["prog"], case["threads"]
    # the sequential references depend on the declaration and the calls only: computed once per worker
    mk = json.dumps([prog, threads], sort_keys=True)
    ref = _REF.get(mk)
    if ref is None:
        if len(_REF) > 500:
            _REF.clear()
        seq_outs, seq_post = run_sequential(prog, threads)
        alone = [[run_alone(prog, c) for c in calls] for calls in threads]
        ref = _REF[mk] = (seq_outs, seq_post, alone)
    seq_outs, seq_post, alone = ref
    m = build(prog)
    try:
        s = Sched(case["sched"], case.get("mode", "vis"), case.get("points"))
        bodies = [(lambda calls=calls: [do_call(m, prog, c) for c in calls]) for calls in threads]
        outs = s.run(bodies)
        post = None if s.deadlock else [do_call(m, prog, c) for c in post_calls(prog)]
        return {"outs": outs, "post": post, "seq": seq_outs, "seq_post": seq_post, "alone": alone,
                "trace": s.trace, "steps": s.per_thread, "deadlock": s.deadlock}
    finally:
        drop(m)


def probe(case):
    """step counts of every thread when it runs first and alone to its end (upper bounds for the enumeration)"""
    if case.get("op") == "registry":
        return probe_registry(case)
    if case.get("op") == "steady":
        out = []
        for t in range(len(case["threads"])):
            do, done = _steady_env(case)
            for i in range(len(STEADY_INPUTS)):
                do(i)
            s = Sched([[t, 10 ** 9]], case.get("mode", "vis"), case.get("points") or STEADY_POINTS)
            s.run([(lambda calls=calls: [do(i) for i in calls]) for calls in case["threads"]])
            done()
            out.append(s.per_thread[t])
        return {"steps": out}
    if case.get("op") == "apf":
        out = []
        for t in range(len(case["threads"])):
            do, post = _apf_env(case)
            s = Sched([[t, 10 ** 9]], case.get("mode", "vis"), case.get("points") or ["apf"])
            s.run([(lambda ops=ops: [do(op) for op in ops]) for ops in case["threads"]])
            post()
            out.append(s.per_thread[t])
        return {"steps": out}
    prog, threads = case["prog"], case["threads"]
    out = []
    for t in range(len(threads)):
        m = build(prog)
        try:
            s = Sched([[t, 10 ** 9]], case.get("mode", "vis"), case.get("points"))
            bodies = [(lambda calls=calls: [do_call(m, prog, c) for c in calls]) for calls in threads]
            s.run(bodies)
            out.append(s.per_thread[t])
        finally:
            drop(m)
    return {"steps": out}


# ---- registry cases: a fresh TypeRegistry shared by threads that look up (and, rarely, register) ------

NCLS = 8
RATTRS = ["x", "y"]


def _rworld():
    """the class hierarchy the registry cases talk about (built inside the worker)"""
    class M(type):
        pass

    class A:  # 0
        pass

    class B(A):  # 1
        x = 1

    class C(B):  # 2
        pass

    class D(A, metaclass=M):  # 3
        y = 2

    class E(D):  # 4
        pass

    class F:  # 5
        pass

    class G(C, F):  # 6
        pass

    class H(F):  # 7   may carry a shortcut converter
        pass

    return [A, B, C, D, E, F, G, H], [M]


def _rdetectors(classes):
    A, B, C, D, E, F, G, H = classes

    def d0(c):
        if c is F:
            raise TypeError("no")
        return issubclass(c, B)

    def d1(c):
        if c in (A, E):
            raise ValueError("no")
        return c in (D, G)

    def d2(c):
        return True

    return [d0, d1, d2]


def rbuild_tables():
    classes, metas = _rworld()
    dets = _rdetectors(classes)
    t = {"issub": [], "isinst": [], "hasattr": [], "custom": []}
    for i, c in enumerate(classes):
        for j, k in enumerate(classes):
            if issubclass(c, k):
                t["issub"].append([i, j])
        for j, m in enumerate(metas):
            if isinstance(c, m):
                t["isinst"].append([i, j])
        for j, a in enumerate(RATTRS):
            if hasattr(c, a):
                t["hasattr"].append([i, j])
        for k, d in enumerate(dets):
            try:
                v = 1 if d(c) else 0
            except (TypeError, ValueError):
                v = 2
            t["custom"].append([k, i, v])
    return t


def rgen_reg(rng, fn):
    r = {"fn": fn, "prio": rng.choice([0, 0, 0, 0, 1, 1, 2, -1, 5]), "meta": None, "attr": None, "custom": None}
    if rng.random() < 0.12:
        r.update(custom=rng.randrange(3), classes=[], sub=True)
        return r
    ncl = rng.choice([0, 1, 1, 1, 1, 2])
    r["classes"] = rng.sample(range(NCLS), ncl)
    r["sub"] = rng.random() < 0.7
    r["meta"] = 0 if rng.random() < (0.6 if ncl == 0 else 0.1) else None
    r["attr"] = rng.randrange(2) if rng.random() < (0.6 if ncl == 0 else 0.1) else None
    if ncl == 0 and r["meta"] is None and r["attr"] is None:
        r["attr"] = rng.randrange(2)
    return r


def _registry_env(case):
    from utype.utils.base import TypeRegistry
    classes, metas = _rworld()
    dets = _rdetectors(classes)
    fns = {}

    def fn(n):
        if n not in fns:
            def f(*a, _n=n, **k):
                return ("conv", _n)
            f.fid = n
            fns[n] = f
        return fns[n]

    reg = TypeRegistry("t", cache=case["cache"], shortcut="__conv__",
                       default=fn(case["default"]) if case.get("default") is not None else None)
    for t, f in case.get("shortcut", []):
        setattr(classes[t], "__conv__", staticmethod(fn(f)))

    def do(op):
        try:
            if "res" in op:
                r = reg.resolve(classes[op["res"]])
                return {"fn": getattr(r, "fid", -1) if r is not None else None}
            r = op["reg"]
            kw = {}
            if r.get("custom") is not None:
                kw["detector"] = dets[r["custom"]]
                cl = []
            else:
                cl = [classes[i] for i in r["classes"]]
                kw["allow_subclasses"] = r["sub"]
                if r.get("meta") is not None:
                    kw["metaclass"] = metas[r["meta"]]
                if r.get("attr") is not None:
                    kw["attr"] = RATTRS[r["attr"]]
            reg.register(*cl, priority=r["prio"], **kw)(fn(r["fn"]))
            return {"reg": True}
        except _Abort:
            raise
        except Exception as e:
            return {"err": type(e).__name__}

    for r in case.get("init", []):
        do({"reg": r})
    return do


def _registry_sequential(case, order):
    """run the operations one after the other in the given global order [(thread, index), ...]"""
    do = _registry_env(case)
    outs = [[None] * len(ops) for ops in case["threads"]]
    for t, k in order:
        outs[t][k] = do(case["threads"][t][k])
    post = [do({"res": c}) for c in range(NCLS)]
    return outs, post


def _interleavings(lens):
    def rec(pos):
        if all(p == n for p, n in zip(pos, lens)):
            yield []
            return
        for t in range(len(lens)):
            if pos[t] < lens[t]:
                nxt = list(pos)
                nxt[t] += 1
                for rest in rec(nxt):
                    yield [(t, pos[t])] + rest
    return rec([0] * len(lens))


def impl_registry(case):
    threads = case["threads"]
    lens = [len(ops) for ops in threads]
    seq_order = [(t, k) for t in range(len(threads)) for k in range(lens[t])]
    seq_outs, seq_post = _registry_sequential(case, seq_order)
    alone = [[_registry_sequential(dict(case, threads=[[op]]), [(0, 0)])[0][0][0] for op in ops] for ops in threads]
    do = _registry_env(case)
    s = Sched(case["sched"], case.get("mode", "vis"), case.get("points") or ["res", "reg"])
    # real-time order: operation A precedes B when A had returned before B was called
    stamps = [[None] * n for n in lens]

    def body(t, ops):
        out = []
        for k, op in enumerate(ops):
            a = s.steps
            r = do(op)
            stamps[t][k] = (a, s.steps)
            out.append(r)
        return out

    outs = s.run([(lambda t=t, ops=ops: body(t, ops)) for t, ops in enumerate(threads)])
    post = None if s.deadlock else [do({"res": c}) for c in range(NCLS)]
    lin = None
    if not s.deadlock:
        before = set()
        for t1 in range(len(threads)):
            for k1 in range(lens[t1]):
                for t2 in range(len(threads)):
                    for k2 in range(lens[t2]):
                        if t1 != t2 and stamps[t1][k1] and stamps[t2][k2] and stamps[t1][k1][1] < stamps[t2][k2][0]:
                            before.add(((t1, k1), (t2, k2)))
        lin = False
        n = 0
        for order in _interleavings(lens):
            pos = {op: i for i, op in enumerate(order)}
            if any(pos[a] > pos[b] for a, b in before):
                continue
            n += 1
            if n > 3000:
                lin = None          # too many candidate orders: undecided
                break
            o, p = _registry_sequential(case, order)
            if o == outs and p == post:
                lin = True
                break
    return {"outs": outs, "post": post, "seq": seq_outs, "seq_post": seq_post, "alone": alone, "lin": lin,
            "stamps": stamps, "trace": s.trace, "steps": s.per_thread, "deadlock": s.deadlock}


def probe_registry(case):
    out = []
    for t in range(len(case["threads"])):
        do = _registry_env(case)
        s = Sched([[t, 10 ** 9]], case.get("mode", "vis"), case.get("points") or ["res", "reg"])
        s.run([(lambda ops=ops: [do(op) for op in ops]) for ops in case["threads"]])
        out.append(s.per_thread[t])
    return {"steps": out}


# ---- steady state: N threads parse different values through one fully initialised class ------------------------

STEADY_SRC = '''
import utype
from utype import Schema, Options, Field
from typing import List, Optional, Union, Dict
class Msg(Schema):
    __options__ = Options(%(opts)s)
    tags: Union[str, List[str]]
    n: Union[int, List[int]] = 0
    m: Optional[float] = None
    d: Dict[str, Union[int, str]] = Field(default_factory=dict)
@utype.parse(options=Options(%(opts)s))
def fmsg(tags: Union[str, List[str]], n: Union[int, List[int]] = 0, m: Optional[float] = None, **kw):
    return {"tags": tags, "n": n, "m": m}
'''
STEADY_OPTS = ["addition=True", "case_insensitive=True", "invalid_items='exclude'", ""]
STEADY_INPUTS = [
    {"tags": [1, 2], "n": ["3", "4"], "m": "1.5"},
    {"tags": [1, 2], "n": "3", "m": "2"},
    {"tags": "xx", "n": 3.0},
    {"tags": ["a", 2], "n": [1.0, "2"], "d": {"k": "5"}},
    {"tags": ["solo"], "n": [7]},          # one-item lists stay lists: the List[...] member takes them as they are
    {"tags": ["x"], "n": ["8"], "m": [2]},
    {"tags": "t", "n": "zz"},              # rejected by every member
]


def _steady_env(case):
    k = next(_MOD)
    name = f"_c20_mod_{k}"
    m = types.ModuleType(name)
    sys.modules[name] = m
    exec(compile(STEADY_SRC % {"opts": STEADY_OPTS[case.get("opts", 0) % len(STEADY_OPTS)]}, name, "exec", dont_inherit=True),
         m.__dict__)
    target = m.fmsg if case.get("fn") else m.Msg

    def do(i):
        data = STEADY_INPUTS[i % len(STEADY_INPUTS)]
        if case.get("fn"):
            data = {k2: v for k2, v in data.items() if k2 in ("tags", "n", "m")}
        try:
            return {"ok": canon(target(**data))}
        except _Abort:
            raise
        except Exception as e:
            from utype.utils.exceptions import ParseError
            return {"err": "ParseError" if isinstance(e, ParseError) else type(e).__name__}

    return do, (lambda: sys.modules.pop(name, None))


def impl_steady(case):
    threads = case["threads"]
    do, done = _steady_env(case)
    try:
        # every input alone, in a warm type (the first use is over): the reference
        warm = [do(i) for i in range(len(STEADY_INPUTS))]
        mk = json.dumps(["steady", case.get("opts", 0), bool(case.get("fn")), threads])
        if mk not in _REF:
            _REF[mk] = (warm, [[do(i) for i in calls] for calls in threads])
        ref, seq = _REF[mk]
        if warm != ref:
            return {"__worker_exc__": "steady reference differs between fresh modules"}
        alone = [[ref[i % len(STEADY_INPUTS)] for i in calls] for calls in threads]
        s = Sched(case["sched"], case.get("mode", "vis"), case.get("points") or STEADY_POINTS)
        outs = s.run([(lambda calls=calls: [do(i) for i in calls]) for calls in threads])
        post = None if s.deadlock else [do(i) for i in range(len(STEADY_INPUTS))]
        return {"outs": outs, "post": post, "seq": seq, "seq_post": ref, "alone": alone,
                "trace": s.trace, "steps": s.per_thread, "deadlock": s.deadlock}
    finally:
        done()


# ---- the module-level parser cache `__parsers__` (BaseParser.apply_for): spec sweep only -------------

def _apf_env(case):
    from utype.parser.cls import ClassParser
    k = next(_MOD)
    name = f"_c20_mod_{k}"
    m = types.ModuleType(name)
    sys.modules[name] = m
    src = "".join(f"class P{i}:\n    a: int\n    b: str = ''\n" for i in range(case.get("nclasses", 2)))
    exec(compile(src, name, "exec", dont_inherit=True), m.__dict__)
    got = []

    def do(op):
        cls = getattr(m, f"P{op['cls']}")
        try:
            p = ClassParser.apply_for(cls)
            got.append(p)
            return {"obj": p.obj is cls, "fields": sorted(p.fields), "type": type(p).__name__}
        except _Abort:
            raise
        except Exception as e:
            return {"err": type(e).__name__}

    def post():
        out = []
        for i in range(case.get("nclasses", 2)):
            cls = getattr(m, f"P{i}")
            p = ClassParser.apply_for(cls)
            made = [q for q in got if q.obj is cls]
            out.append({"obj": p.obj is cls, "fields": sorted(p.fields), "cached": (not made) or any(p is q for q in made)})
        sys.modules.pop(name, None)
        return out

    return do, post


def impl_apf(case):
    threads = case["threads"]
    do, post = _apf_env(case)
    seq_outs = [[do(op) for op in ops] for ops in threads]
    seq_post = post()
    alone = []
    for ops in threads:
        row = []
        for op in ops:
            d, p = _apf_env(case)
            row.append(d(op))
            p()
        alone.append(row)
    do, post = _apf_env(case)
    s = Sched(case["sched"], case.get("mode", "vis"), case.get("points") or ["apf"])
    outs = s.run([(lambda ops=ops: [do(op) for op in ops]) for ops in threads])
    return {"outs": outs, "post": None if s.deadlock else post(), "seq": seq_outs, "seq_post": seq_post, "alone": alone,
            "trace": s.trace, "steps": s.per_thread, "deadlock": s.deadlock}


# ------------------------------------------------------------------------------------------------
# 3. the check
# ------------------------------------------------------------------------------------------------

FWD_POINTS = ["rfr", "frf", "crf", "fld", "rft", "pv", "tc", "ta", "lrf", "rrf"]
ALL_POINTS = sorted(set(TARGETS.values()))
LAZY_POINTS = FWD_POINTS + ["lazy", "cp", "pf"]
STEADY_POINTS = ["opt", "lazy", "cp", "res"]      # shared objects on the steady-state parse path        # + every line of lazily initialised parser attributes
MODELLED_ANN = {"ref", "slist", "plain"}
INF = 10 ** 6


def modelled(case) -> bool:
    if case.get("op") == "registry":
        return case.get("mode", "vis") == "vis" and sorted(case.get("points") or ["res", "reg"]) == ["reg", "res"]
    if case.get("op", "fwd") != "fwd" or case.get("mode", "vis") != "vis":
        return False
    if sorted(case.get("points") or []) == sorted(LAZY_POINTS):
        return case["prog"]["kind"] == "fn"         # replayed on the lazy-attribute model (Utv.C20.Lazy)
    if sorted(case.get("points") or []) != sorted(FWD_POINTS):
        return False
    return all(f["ann"] in MODELLED_ANN for f in case["prog"]["fields"]) and not case["prog"].get("ret") and not case["prog"].get("chain") and not case["prog"].get("inherit") and not case["prog"].get("twin")


def world_of(prog):
    fs = prog["fields"]
    return {"nf": len(fs), "isRef": [f["ann"] in ("ref", "slist") for f in fs],
            "defd": [f["ann"] == "plain" or f["to"] != "U" for f in fs],
            "rawOk": [f["ann"] != "slist" for f in fs],
            "isLocal": bool(prog.get("local")), "isFn": prog["kind"] == "fn", "objectBase": prog["kind"] == "dc"}


def enum_of(o, ref):
    """map a real outcome to the model's vocabulary, relative to what the call returns alone"""
    if o is None:
        return None
    if "err" in o:
        return {"ParseError": "perr"}.get(o["err"], o["err"])
    if ref is not None and "ok" in ref and o != ref:
        return "wrong"
    if ref is not None and "err" in ref:
        return "wrong"
    return "ok"


def schedules_2(L, k):
    """all schedules of 2 threads with <= k preemptions (k <= 3), given step-count bounds L[0], L[1]"""
    out = [[[0, INF]], [[1, INF]]]
    for a in (0, 1):
        b = 1 - a
        for n0 in range(1, L[a]):
            out.append([[a, n0], [b, INF]])                                  # 1 preemption
            if k >= 2:
                for n1 in range(1, L[b]):
                    out.append([[a, n0], [b, n1], [a, INF]])                 # 2 preemptions
    return out


def schedules_n(L, nthreads, k):
    """all schedules with <= k preemptions for any number of threads"""
    out = []

    def rec(prefix, cur, left):
        out.append(prefix + [[cur, INF]])
        if left > 0:
            for n in range(1, L[cur]):
                for nxt in range(nthreads):
                    if nxt != cur:
                        rec(prefix + [[cur, n]], nxt, left - 1)

    for a in range(nthreads):
        rec([], a, k)
    return out


def random_schedule(rng, L, nthreads, k):
    sch = []
    t = rng.randrange(nthreads)
    for _ in range(k):
        sch.append([t, rng.randint(1, max(1, L[t] - 1))])
        t = rng.choice([u for u in range(nthreads) if u != t])
    sch.append([t, INF])
    return sch


def gen_prog(rng, small=False):
    kind = rng.choice(["cls", "cls", "cls", "fn", "fn", "dc"])
    local = rng.random() < 0.5
    nf = 1 if small else rng.choice([1, 1, 2, 2, 3])
    fields = []
    anns = ["ref", "ref", "ref", "slist", "plain", "list", "dict", "opt"]
    for i in range(nf):
        ann = rng.choice(anns)
        to = ""
        if ann != "plain":
            # (since C17's fixes a name may be used several times, also inside generics, and Optional['X'] resolves
            # in function-local declarations too)
            to = rng.choice(TARGET_NAMES)
            if rng.random() < 0.12:
                to = "U"
        fields.append({"ann": ann, "to": to})
    if not any(f["ann"] != "plain" for f in fields) and not (kind == "fn" and rng.random() < 0.5):
        fields[0] = {"ann": "ref", "to": "B"}
    prog = {"kind": kind, "local": local, "fields": fields}
    if rng.random() < 0.15:
        prog["chain"] = True
    if kind == "cls" and rng.random() < 0.2:
        prog["inherit"] = True
    elif kind == "cls" and rng.random() < 0.2:
        prog["twin"] = True
    if kind == "fn" and not local and rng.random() < 0.3:
        prog["ret"] = True      # (a function-local function with a forward-referenced result fails sequentially: C17)
    return prog


def gen_threads(rng, prog, n):
    nf = len(prog["fields"])
    ths = []
    for _ in range(n):
        calls = []
        for _ in range(rng.choice([1, 1, 2])):
            use = sorted(rng.sample(range(nf), rng.randint(1, nf)))
            bad = rng.choice(use) if rng.random() < 0.25 else None
            c = {"use": use, "bad": bad} if bad is not None else {"use": use}
            if prog.get("twin") and rng.random() < 0.5:
                c["on"] = 1
            if prog["kind"] == "fn" and rng.random() < 0.5:
                c["use"] = list(range(rng.randint(1, nf)))          # positional arguments are a prefix
                if c.get("bad") is not None and c["bad"] not in c["use"]:
                    c.pop("bad")
                c["pos"] = True
            calls.append(c)
        ths.append(calls)
    return ths


def gen_registry(rng, nthreads=2, with_reg=False):
    init = [rgen_reg(rng, 100 + i) for i in range(rng.randint(0, 3))]
    threads = []
    for t in range(nthreads):
        ops = [{"res": rng.randrange(NCLS)} for _ in range(rng.randint(1, 3))]
        threads.append(ops)
    for _ in range(with_reg if isinstance(with_reg, int) and not isinstance(with_reg, bool) else (1 if with_reg else 0)):
        t = rng.randrange(nthreads)
        k = rng.randint(0, len(threads[t]))
        threads[t] = (threads[t][:k] + [{"reg": rgen_reg(rng, 500 + rng.randrange(50))}] + threads[t][k:])[:3]
    # make lookups collide: the same class from several threads
    if rng.random() < 0.7:
        c = rng.randrange(NCLS)
        for ops in threads:
            for op in ops:
                if "res" in op and rng.random() < 0.6:
                    op["res"] = c
    case = {"op": "registry", "cache": rng.random() < 0.85, "init": init, "threads": threads,
            "points": ["res", "reg"], "mode": "vis"}
    if rng.random() < 0.15:
        case["shortcut"] = [[7, 900]]
    if rng.random() < 0.2:
        case["default"] = 990
    return case


_RTABLES = None


def registry_tables():
    global _RTABLES
    if _RTABLES is None:
        _RTABLES = rbuild_tables()
    return _RTABLES


BASE_PROGS = [
    {"kind": "cls", "local": False, "fields": [{"ann": "ref", "to": "B"}]},
    {"kind": "cls", "local": True, "fields": [{"ann": "ref", "to": "B"}]},
    {"kind": "fn", "local": False, "fields": [{"ann": "ref", "to": "B"}]},
    {"kind": "fn", "local": True, "fields": [{"ann": "ref", "to": "B"}]},
    {"kind": "cls", "local": True, "fields": [{"ann": "slist", "to": "B"}]},
    {"kind": "cls", "local": True, "fields": [{"ann": "ref", "to": "B"}, {"ann": "ref", "to": "C"}]},
    {"kind": "fn", "local": True, "fields": [{"ann": "ref", "to": "U"}, {"ann": "ref", "to": "B"}]},
    {"kind": "cls", "local": False, "fields": [{"ann": "ref", "to": "B"}, {"ann": "ref", "to": "U"}]},
    {"kind": "cls", "local": True, "fields": [{"ann": "list", "to": "B"}]},
    {"kind": "cls", "local": False, "fields": [{"ann": "opt", "to": "B"}, {"ann": "plain", "to": ""}]},
    {"kind": "fn", "local": False, "fields": [{"ann": "dict", "to": "B"}]},
    {"kind": "cls", "local": True, "inherit": True, "fields": [{"ann": "ref", "to": "B"}]},
    {"kind": "dc", "local": False, "fields": [{"ann": "ref", "to": "B"}, {"ann": "plain", "to": ""}]},
    {"kind": "cls", "local": True, "twin": True, "fields": [{"ann": "list", "to": "B"}]},
]


LAZY_PROGS = [
    # first calls of decorated functions with positional arguments (the positional index is built lazily)
    {"kind": "fn", "local": False, "fields": [{"ann": "plain", "to": ""}, {"ann": "plain", "to": ""}, {"ann": "plain", "to": ""}]},
    {"kind": "fn", "local": False, "fields": [{"ann": "ref", "to": "B"}, {"ann": "plain", "to": ""}]},
    {"kind": "fn", "local": True, "fields": [{"ann": "plain", "to": ""}, {"ann": "ref", "to": "B"}, {"ann": "plain", "to": ""}]},
]


def full_use(prog):
    return {"use": list(range(len(prog["fields"])))}


class C20(Check):
    prop = "C20"
    props_modules = ["Utv.Props.C20"]
    driver = "C20"
    impl = "harness.c20:impl"
    case_timeout = 30.0
    rule = ("a case = (declaration, calls of 2-3 threads, schedule); non-trivial = at least one real preemption took "
            "place (the executed thread sequence switches away from an unfinished thread) inside the first-use window "
            "(some thread executed a line of resolve_forward_refs / TypeRegistry.resolve beyond its first check); "
            "distinct by (declaration, calls, executed sequence of (thread, line))")
    assumptions = [
        "atomicity is per source line: preemption inside a line (between bytecodes, inside C calls) is not modelled nor scheduled",
        "scheduling points are the lines of the traced functions that touch shared state (regex SHARED in harness/c20.py); "
        "the thorough tier also schedules at every line of those functions to test that the other lines commute",
    ]
    budget = {"quick": 2500, "thorough": 40000}
    search_budget = {"quick": 2500, "thorough": 20000}

    # ---- generation ------------------------------------------------------------------------------
    def _probe(self, items):
        outs = common.run_impl("harness.c20:probe", items, 60.0)
        return [o.get("steps") if isinstance(o, dict) else None for o in outs]

    def cases(self, tier, rng, n):
        out = []
        # (a) exhaustive <= 2 preemptions, 2 threads, on the base declarations (each thread: one full call)
        nbase = {"quick": 4, "thorough": len(BASE_PROGS), "search": 7}[tier]
        items = []
        for p in BASE_PROGS[:nbase]:
            items.append({"op": "fwd", "prog": p, "threads": [[full_use(p)], [full_use(p)]], "points": FWD_POINTS, "mode": "vis"})
        # (b) random declarations / calls, 2-3 threads
        nrand = {"quick": 26, "thorough": 150, "search": 40}[tier]
        for _ in range(nrand):
            p = gen_prog(rng)
            nt = 2 if (tier == "quick" or rng.random() < 0.5) else 3
            pts = FWD_POINTS if rng.random() < 0.8 else ALL_POINTS
            items.append({"op": "fwd", "prog": p, "threads": gen_threads(rng, p, nt), "points": pts, "mode": "vis"})
        first3 = None
        if tier == "thorough":
            for p in BASE_PROGS[:6]:
                items.append({"op": "fwd", "prog": p, "threads": [[full_use(p)], [full_use(p)]], "points": ALL_POINTS, "mode": "all"})
            # 3 threads, every schedule with <= 2 preemptions
            first3 = len(items)
            for p in (BASE_PROGS[1], BASE_PROGS[2]):
                items.append({"op": "fwd", "prog": p, "threads": [[full_use(p)]] * 3, "points": FWD_POINTS, "mode": "vis"})
        # (b') first calls of functions with positional arguments, every line of the lazily built attributes schedulable
        first_lazy = len(items)
        nlazy = {"quick": 2, "thorough": 3, "search": 3}[tier]
        for p in LAZY_PROGS[:nlazy]:
            c = dict(full_use(p), pos=True)
            items.append({"op": "fwd", "prog": p, "threads": [[c], [c]], "points": LAZY_POINTS, "mode": "vis"})
        for i in range({"quick": 4, "thorough": 30, "search": 10}[tier]):
            p = gen_prog(rng)
            p["kind"] = "fn"
            p.pop("inherit", None)
            p.pop("twin", None)
            if len(p["fields"]) < 2:
                p["fields"].append({"ann": "plain", "to": ""})
            nt = 2 if (tier == "quick" or rng.random() < 0.5) else 3
            items.append({"op": "fwd", "prog": p, "threads": gen_threads(rng, p, nt), "points": LAZY_POINTS, "mode": "vis"})
        end_lazy = len(items)
        # (c) lookups in a shared registry (a registration now and then: known finding)
        nreg = {"quick": 20, "thorough": 120, "search": 30}[tier]
        first_reg = len(items)
        for i in range(nreg):
            nt = 2 if (tier == "quick" or rng.random() < 0.6) else 3
            items.append(gen_registry(rng, nt, with_reg=(0, 1, 0, 1, 2)[i % 5]))
        # (d) steady state: threads parse different values through one fully initialised class with its own options and
        #     Union / Optional fields (shared Options objects, registry cache on the parse path)
        first_steady = len(items)
        nst = {"quick": 4, "thorough": 16, "search": 6}[tier]
        for i in range(nst):
            nt = 2 if i < 2 else rng.choice([2, 3, 4])
            items.append({"op": "steady", "opts": i % len(STEADY_OPTS), "fn": (i % 4 == 3), "points": STEADY_POINTS, "mode": "vis",
                          "threads": [[rng.randrange(len(STEADY_INPUTS)) for _ in range(rng.randint(1, 2))] for _ in range(nt)]
                          if i >= 2 else [[4, 0], [1, 4]]})
        end_steady = len(items)
        first_apf = len(items)
        for i in range({"quick": 2, "thorough": 6, "search": 2}[tier]):
            nt = 2 if i % 2 == 0 else 3
            items.append({"op": "apf", "nclasses": 2, "points": ["apf"], "mode": "vis",
                          "threads": [[{"cls": rng.randrange(2)} for _ in range(rng.randint(1, 2))] for _ in range(nt)]})
        Ls = self._probe(items)
        per_item = max(20, (n - 0) // max(1, len(items)))
        for idx, (it, L) in enumerate(zip(items, Ls)):
            if not L:
                L = [40] * len(it["threads"])
            nt = len(it["threads"])
            if first_steady <= idx < end_steady:
                if nt == 2:
                    scheds = schedules_2(L, 1) + [random_schedule(rng, L, nt, 2) for _ in range(120)]
                else:
                    scheds = [random_schedule(rng, L, nt, rng.randint(1, 3)) for _ in range(200)]
                if tier == "quick" and len(scheds) > 260:
                    rng.shuffle(scheds)
                    scheds = scheds[:260]
            elif first_lazy <= idx < first_lazy + nlazy:
                scheds = schedules_2(L, 2)
                if tier == "quick" and len(scheds) > 450:
                    one = [x for x in scheds if len(x) <= 2]
                    two = [x for x in scheds if len(x) > 2]
                    rng.shuffle(two)
                    scheds = one + two[:450 - len(one)]
            elif first3 is not None and first3 <= idx < first3 + 2:
                scheds = schedules_n(L, 3, 2)
            elif idx >= first_apf:
                scheds = schedules_2(L, 2) if nt == 2 else [random_schedule(rng, L, nt, rng.randint(1, 3)) for _ in range(100)]
            elif idx >= first_reg:
                scheds = schedules_2(L, 2) if nt == 2 else []
                if len(scheds) > 150:
                    rng.shuffle(scheds)
                    scheds = scheds[:150]
                if nt > 2:
                    scheds = [random_schedule(rng, L, nt, rng.randint(1, 3)) for _ in range(80)]
            elif idx < nbase:
                scheds = schedules_2(L, 2)
                if tier == "quick" and idx >= 3:
                    one = [s for s in scheds if len(s) <= 2]
                    two = [s for s in scheds if len(s) > 2]
                    rng.shuffle(two)
                    scheds = one + two[:200]
                if tier == "thorough":
                    if idx == 1:
                        scheds = schedules_n(L, 2, 3)         # every schedule with <= 3 preemptions
                    else:
                        scheds += [random_schedule(rng, L, nt, 3) for _ in range(400)]
            else:
                scheds = []
                if nt == 2:
                    scheds += [s for s in schedules_2(L, 1)]
                kmax = 2 if tier == "quick" else 3
                for _ in range(per_item):
                    scheds.append(random_schedule(rng, L, nt, rng.randint(1, kmax)))
                if it["mode"] == "all":
                    scheds = [random_schedule(rng, L, nt, rng.randint(1, 3)) for _ in range(300)]
            for s in scheds:
                out.append(dict(it, sched=s))
        return out

    # ---- evaluation: the model replays the trace the implementation produced ----------------------
    def model_line(self, case, io=None):
        if not modelled(case) or not isinstance(io, dict) or "trace" not in io:
            return None
        if case.get("op") == "registry":
            w = dict(registry_tables())
            w["shortcut"] = case.get("shortcut", [])
            w["default"] = case.get("default")
            norm = lambda r: dict({"custom": None, "meta": None, "attr": None, "classes": [], "sub": True}, **r)
            legacy = bool(os.environ.get("C20_LEGACY"))            # before C20-registry-cache-lookup
            prefix = legacy or bool(os.environ.get("C20_REG_LEGACY"))   # before C20-register-race
            return {"op": "registry" if prefix else "registry2", "world": w, "cache": case["cache"], "legacy": legacy,
                    "init": [norm(r) for r in case.get("init", [])], "nclasses": NCLS,
                    "threads": [[({"reg": norm(op["reg"])} if "reg" in op else op) for op in ops] for ops in case["threads"]],
                    "trace": io["trace"]}
        if sorted(case.get("points") or []) == sorted(LAZY_POINTS):
            return {"op": "lazy", "n": len(case["prog"]["fields"]), "nthreads": len(case["threads"]), "trace": io["trace"]}
        return {"op": "fwd", "world": world_of(case["prog"]),
                "threads": [[[[i, c.get("bad") == i] for i in c["use"]] for c in calls] for calls in case["threads"]],
                "trace": io["trace"], "legacy": bool(os.environ.get("C20_LEGACY"))}

    def evaluate(self, cases):
        impl_outs = common.run_impl(self.impl, cases, self.case_timeout, extra_env=self.impl_env)
        lines, idx = [], []
        for k, (c, io) in enumerate(zip(cases, impl_outs)):
            ml = self.model_line(c, io)
            if ml is not None:
                lines.append(ml)
                idx.append(k)
        res = common.run_driver(self.driver, lines) if lines else []
        model_outs = [None] * len(cases)
        for k, r in zip(idx, res):
            model_outs[k] = r
        return impl_outs, model_outs

    def compare(self, case, io, mo):
        if mo is None:
            return None                   # outside the modelled fragment: spec sweep only
        if not isinstance(mo, dict) or "follows" not in mo:
            return f"driver: {mo}"
        if io.get("deadlock"):
            return "implementation dead-locked; the model has no dead-lock"
        if not mo["follows"] and mo.get("model_label") == "<unmodelled>":
            return None                   # the run left the modelled fragment (the model says so itself)
        if not mo["follows"]:
            k = mo["at"]
            return (f"control flow differs at event #{k}: the code executed {io['trace'][k]} where the model "
                    f"expects thread {io['trace'][k][0]} at {mo['model_label']}")
        if "builds" in mo:
            if not mo["follows"]:
                k = mo["at"]
                return (f"lazy attribute: control flow differs at event #{k}: the code executed {io['trace'][k]} where the "
                        f"model expects thread {io['trace'][k][0]} at {mo['model_label']}")
            if any(p != "<out>" for p in mo["pcs"]):
                return f"lazy attribute: a getter body did not finish: {mo['pcs']}"
            positional = any(c.get("pos") for calls in case["threads"] for c in calls)
            n = len(case["prog"]["fields"])
            if positional and mo["slot"] != list(range(n)):
                return f"lazy attribute: positional calls were made but the model has no complete index: {mo['slot']}"
            return None
        if case.get("op") == "registry":
            got = [[o for o in (outs or []) if "reg" not in o] for outs in io["outs"]]
            if mo["outs"] != got:
                return f"lookup results differ: impl={got} model={mo['outs']}"
            if any(p != "<fin>" for p in mo["pcs"]):
                return f"model threads not finished after the trace: {mo['pcs']}"
            if mo["post"] != io["post"]:
                return f"state left behind differs: later lookups impl={io['post']} model={mo['post']}"
            if not any("reg" in op for ops in case["threads"] for op in ops):
                alone = [[a for a in al] for al in io["alone"]]
                if mo["alone"] != alone:
                    return f"sequential reference differs: impl alone={alone} spec={mo['alone']}"
            return None
        want = [[enum_of(o, a) for o, a in zip(outs or [], al)] for outs, al in zip(io["outs"], io["alone"])]
        if mo["outs"] != want:
            return f"outcomes differ: impl={want} model={mo['outs']}"
        if any(p != "<fin>" for p in mo["pcs"]):
            return f"model threads not finished after the trace: {mo['pcs']}"
        # value level: a call that returned its alone-value converted every keyword by its type; one that raised has none
        wantv = [[([[i, "byType"] for i in c["use"]] if (o == a and "ok" in o) else []) for c, o, a in zip(calls, outs or [], al)]
                 for calls, outs, al in zip(case["threads"], io["outs"], io["alone"])]
        if mo.get("vouts") != wantv:
            return f"values differ: impl (relative to the call alone)={wantv} model={mo.get('vouts')}"
        alonev = [[([[i, "byType"] for i in c["use"]] if "ok" in a else []) for c, a in zip(calls, al)]
                  for calls, al in zip(case["threads"], io["alone"])]
        if mo.get("aloneVals") != alonev:
            return f"sequential values differ: impl alone={alonev} spec={mo.get('aloneVals')}"
        alone = [[enum_of(a, None) for a in al] for al in io["alone"]]
        if mo["alone"] != alone:
            return f"sequential reference differs: impl alone={alone} spec={mo['alone']}"
        return None

    def spec(self, case, io, mo):
        if not isinstance(io, dict) or "outs" not in io:
            return f"case did not complete: {io}"
        if io.get("deadlock"):
            return "dead-lock: no thread can take a step (or the step budget ran out)"
        if case.get("op") == "registry":
            for t, outs in enumerate(io["outs"]):
                if not isinstance(outs, list):
                    return f"thread {t} died: {outs}"
                for k, o in enumerate(outs):
                    if "err" in o:
                        return f"thread {t} operation {k} failed with {o['err']}"
            if io.get("lin") is False:
                return (f"lookups returned {json.dumps(io['outs'])} and later lookups {json.dumps(io['post'])}: no order of "
                        f"the operations run one after the other (respecting which operation had returned before another was called) gives that (sequential: {json.dumps(io['seq'])}, "
                        f"{json.dumps(io['seq_post'])})")
            return None
        for t, (outs, al, sq) in enumerate(zip(io["outs"], io["alone"], io["seq"])):
            if not isinstance(outs, list):
                return f"thread {t} died: {outs}"
            for k, o in enumerate(outs):
                if o != al[k] and o != sq[k]:
                    return (f"thread {t} call {k} returned {json.dumps(o)} under this schedule but "
                            f"{json.dumps(al[k])} when run alone")
        if io["post"] != io["seq_post"]:
            return (f"after the concurrent phase the type behaves differently: {json.dumps(io['post'])} "
                    f"instead of {json.dumps(io['seq_post'])}")
        return None

    def classify(self, case, io, why):
        return None          # no known finding: register-races-with-lookup is fixed (fixes/C20-register-race.patch)

    # ---- evidence --------------------------------------------------------------------------------
    @staticmethod
    def _preemptions(trace, steps):
        """number of switches away from a thread that still had steps to take"""
        left = list(steps)
        n = 0
        prev = None
        for t, _ in trace:
            if prev is not None and t != prev and left[prev] > 0:
                n += 1
            left[t] -= 1
            prev = t
        return n

    def key(self, case, io):
        if not isinstance(io, dict) or "trace" not in io:
            return None
        tr = io["trace"]
        counts = [sum(1 for t, _ in tr if t == k) for k in range(len(case["threads"]))]
        if self._preemptions(tr, counts) == 0:
            return None
        deep = any(l.split(":")[0] in ("rfr", "res", "apf", "opt", "lazy", "cp") and l not in ("rfr:chk", "res:cchk") for _, l in tr)
        if not deep:
            return None
        return json.dumps([case.get("prog") or [case.get("init"), case.get("cache")], case["threads"], tr], sort_keys=True)

    def distribution(self, case, io):
        if case.get("op") == "steady":
            return f"steady/opts={case.get('opts')}/{'fn' if case.get('fn') else 'cls'}/threads={len(case['threads'])}/spec-only"
        if case.get("op") == "apf":
            return f"apply_for/threads={len(case['threads'])}/spec-only"
        if case.get("op") == "registry":
            hr = any("reg" in op for ops in case["threads"] for op in ops)
            return f"registry/cache={case['cache']}/threads={len(case['threads'])}/{'with-register' if hr else 'lookups-only'}"
        p = case["prog"]
        anns = "+".join(f["ann"] + ("!" if f["to"] == "U" else "") for f in p["fields"]) + ("->ref" if p.get("ret") else "") + ("+chain" if p.get("chain") else "") + ("+inherit" if p.get("inherit") else "") + ("+twin" if p.get("twin") else "")
        pre = "?"
        if isinstance(io, dict) and "trace" in io:
            tr = io["trace"]
            counts = [sum(1 for t, _ in tr if t == k) for k in range(len(case["threads"]))]
            pre = self._preemptions(tr, counts)
        return (f"{p['kind']}/{'local' if p.get('local') else 'global'}/{anns}/threads={len(case['threads'])}"
                f"/preempt={pre}/{'model' if modelled(case) else 'spec-only'}"
                + ("/lazy-points" if "lazy" in (case.get("points") or []) else "")
                + ("/positional" if any(c.get("pos") for calls in case["threads"] for c in calls) else ""))

    def neighbours(self, case, rng):
        out = []
        sch = case.get("sched", [])
        for i, (t, k) in enumerate(sch):
            for d in (-2, -1, 1, 2):
                if k < INF and k + d > 0:
                    out.append(dict(case, sched=sch[:i] + [[t, k + d]] + sch[i + 1:]))
        if len(sch) > 1:
            out.append(dict(case, sched=sch[:-1]))
        return out

    def reproduce(self, case):
        return (f"UTYPE_REPO={common.REPO} {common.PY} -c 'import json,sys; sys.path[:0]=[\"{common.REPO}\",\"{common.VERIF}\"]; "
                f"from harness.c20 import impl; print(json.dumps(impl(json.loads(sys.argv[1]))))' '{json.dumps(case, sort_keys=True)}'")

    # ---- static obligation: the scheduling points the models know are where they are expected ----------
    REQUIRED = {
        "rfr": ["chk", "lock", "list", "get", "eval", "isev", "rdval", "wr", "popd", "addn", "clr1", "clr2"],
        "frf": ["pos?", "ret?"], "fld": ["ty?", "ty", "oty?"], "rft": ["isev", "rdval"], "pv": ["rdty", "errty"],
        "tc": ["isev", "rdval"], "res": ["cget", "gen", "iter", "lock", "gchk", "cset"], "reg": ["lock", "clr", "copy", "pub", "gen"],
        "apf": ["chk", "get", "set"], "pf": ["new", "for", "get", "chk", "put", "ret"],
    }
    ALL_NAMED = ("rfr", "frf", "fld", "rft", "res", "reg", "apf")
    ALL_LINES = ("pf",)          # every line of these is a scheduling point and must be one the model knows     # no unnamed shared-state line allowed here

    def extra_static(self, tier):
        """read the traced functions from $UTYPE_REPO with `ast` (nothing imported): every label the models use
        must exist, and the parser / registry functions must not have shared-state lines the models do not know"""
        import ast
        broken = []
        found: dict = {}
        seen_fn = set()
        for (suf, qn), tag in TARGETS.items():
            path = common.REPO / suf
            try:
                src = path.read_text()
                tree = ast.parse(src)
            except Exception as e:
                broken.append(f"static: cannot read {suf}: {e}")
                continue
            lines = src.splitlines()
            node = None

            def find(body, parts):
                for n in body:
                    if isinstance(n, (ast.FunctionDef, ast.AsyncFunctionDef, ast.ClassDef)) and n.name == parts[0]:
                        if len(parts) == 1:
                            return n
                        return find(n.body, parts[1:])
                return None

            node = find(tree.body, [x for x in qn.split(".") if x != "<locals>"])
            if node is None:
                continue
            seen_fn.add(tag)
            inner = set()
            for n in ast.walk(node):
                if n is not node and isinstance(n, (ast.FunctionDef, ast.AsyncFunctionDef)):
                    inner.update(range(n.lineno, n.end_lineno + 1))
            for ln in range(node.lineno + 1, node.end_lineno + 1):
                if ln in inner:
                    continue
                raw = lines[ln - 1].split("#")[0]
                every = tag in self.ALL_LINES
                if every:
                    if not raw.strip() or raw.strip().startswith(("@", "def ", '"""', "'")):
                        continue
                elif not SHARED.search(raw) or raw.strip().startswith("global "):
                    continue
                txt = raw.strip()
                name = next((nm for pat, nm in NAMES.get(tag, []) if re.match(pat, txt)), None)
                if name is None:
                    if tag in self.ALL_NAMED or tag in self.ALL_LINES:
                        broken.append(f"static: {suf}:{ln} `{txt[:70]}` touches shared state but is not a line the model knows ({tag})")
                else:
                    found.setdefault(tag, set()).add(name)
        # lazily initialised parser state: only functools.cached_property (the fully built value is published in one
        # store) or functions the scheduler traces (TARGETS) may write parser attributes after construction
        try:
            writers, cached = scan_lazy(common.REPO)
            for (f, qn), w in sorted(writers.items()):
                if (f, qn) not in RUNTIME_WRITERS:
                    attrs = ", ".join(sorted({a for a, _ in w}))
                    broken.append(f"static: {f}:{w[0][1]} {qn} writes parser state ({attrs}) outside construction and is not "
                                  f"a cached_property nor a function the thread model knows (hand-written lazy initialisation)")
            ds = (common.REPO / "utype/utils/datastructures.py").read_text()
            m = re.search(r"try:\s*\n\s*from functools import cached_property", ds)
            if cached and not m:
                broken.append("static: utype.utils.datastructures.cached_property is not functools.cached_property any more")
        except Exception as e:
            broken.append(f"static: lazy-attribute scan failed: {e}")
        for tag, names in self.REQUIRED.items():
            if tag not in seen_fn:
                broken.append(f"static: no traced function for `{tag}` found in {common.REPO}")
                continue
            for nm in names:
                if nm not in found.get(tag, ()):
                    broken.append(f"static: scheduling point {tag}:{nm} not found in the source")
        return broken

    def finish_evidence(self, ev, tier):
        ev["coverage"]["exhaustive"] = False
        ev["coverage"]["exhaustive_part"] = (
            "every schedule with <= 2 preemptions at shared-state lines, 2 threads x 1 full call, for the first "
            + ("3 base declarations; <= 150 of them for each 2-thread registry program (quick)" if tier == "quick" else
               f"{len(BASE_PROGS)} base declarations, <= 3 preemptions for one of them, and with 3 threads (<= 2 preemptions) for 2 of them; <= 150 for each 2-thread registry program (thorough)"))


CHECK = C20()
