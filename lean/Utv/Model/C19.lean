/-
C19 — heap model of parsing: values carry object ids.

Hand-written mirror of the code paths that decide *which object* a parse returns:

* `copy_value`                       utype/utils/functional.py:7-30
* `ParserField.get_default`          utype/parser/field.py:803-831
* `TypeTransformer.__call__/apply`   utype/utils/transform.py:725-748   (exact-type shortcut)
* `to_array_types`, `to_dict`, `to_integer`   utype/utils/transform.py:258-398, 415-448
* `Rule.parse` + `_parse_seq_args/_parse_tuple_args/_parse_map_args`   utype/parser/rule.py:1706-1777, 1938-2093
* `LogicalType.logical_parse` (`Optional[T]` only)   utype/parser/rule.py:371-484
* `transform_dataclass`, `init_dataclass`, generated `__init__`, `set_attributes`   utype/parser/cls.py:436-467, 499-565, 598-659
* `BaseParser.parse_data` (data-first and field-first)   utype/parser/base.py:376-705
* `FunctionParser.parse_params`      utype/parser/func.py:614-683
* `Schema.__post_init__/__field_getter__/__field_setter__/copy`, DataClass setter/getter   utype/schema.py:280-286, 294-318, 327-369, 513-519; cls.py:275-290, 318-326
* `BaseParser.apply_for` (`__parsers__` cache)   utype/parser/base.py:42-65
* `TypeRegistry.resolve` cache       utype/utils/base.py:101-128  (after the C16 fix)

Every Python object that can be mutated in place (list, set, dict, instance, its `__dict__`, and
opaque mutables such as bytearray/deque) is a `node` with an object id; aliasing = the same id
occurring twice.  Allocation is a counter; every in-place write the code performs on a container
is a `fill target …` and is logged under the id the *target value* carries (`St.writes`) — the target is whatever the
value flow hands to the write site, not a stipulated new id.  The process state a parse reads and writes (the
TypeRegistry cache, the per-parser "forward references resolved" mark, the `__parsers__` cache) is `World.proc` /
`effectiveOpts`.  Tied to the code by harness/c19.py
(identical programs run on the real utype; outcomes and identity-labelled object graphs compared).
-/
namespace Utv.C19

/-- user subclasses of the builtin containers: `class Tags(list)`, `class Window(tuple)`, a namedtuple, … -/
inductive UBase where
  | list | tuple | set | fset | dict | deque | ntuple
  deriving DecidableEq, Repr

inductive Kind where
  | list | tuple | set | fset | dict
  | inst (cls : Nat) (isDict : Bool)   -- instance of data class `cls`; `isDict`: a `Schema` (a dict subclass, schema.py),
                                       -- else a `DataClass` (a plain object)
  | opq (tag : Nat)         -- mutable object `copy_value` does not know: 0 bytearray, 1 deque
  | usr (b : UBase)         -- instance of a user subclass of a builtin container
  deriving DecidableEq, Repr

/-- the builtin class an object is an instance of (`isinstance` view) -/
def Kind.base : Kind → Kind
  | .usr .list => .list
  | .usr .tuple => .tuple
  | .usr .ntuple => .tuple
  | .usr .set => .set
  | .usr .fset => .fset
  | .usr .dict => .dict
  | .usr .deque => .opq 1
  | k => k

/-- can the object be changed in place? (tuple / frozenset and their subclasses cannot) -/
def Kind.mutable (k : Kind) : Bool :=
  match k.base with
  | .tuple | .fset => false
  | _ => true

/-- `multi(data) or isinstance(data, dict)` — functional.py:7-10, 26-30: the kinds `copy_value` rebuilds.  Both tests
are `isinstance` tests, so instances of user subclasses of list / set / frozenset / tuple / dict are rebuilt too.
(Data-class instances are outside the generated fragment: the driver answers `unmodelled` for them; so does it for
namedtuple defaults, whose constructor refuses the single list argument.) -/
def Kind.copied (k : Kind) : Bool :=
  match k with
  | .inst _ true => true        -- a Schema instance is a dict: `isinstance(data, dict)`
  | _ =>
    match k.base with
    | .list | .tuple | .set | .fset | .dict => true
    | _ => false

/-- the class of the rebuilt object: `type(data)(...)` keeps a user subclass of list / set / frozenset / tuple,
`{k: copy_value(v) ...}` turns a dict subclass into a plain dict (functional.py:27, 29) -/
def Kind.rebuilt : Kind → Kind
  | .usr .dict => .dict
  | .inst _ true => .dict       -- `{k: copy_value(v) for k, v in data.items()}`: a plain dict of the Schema's items
  | k => k

/-- `multi(data)`: list, tuple, set, frozenset and their subclasses -/
def Kind.isSeq (k : Kind) : Bool :=
  match k.base with
  | .list | .tuple | .set | .fset => true
  | _ => false

/-- collections.deque / bytearray: mutable builtins `copy_value` does not rebuild -/
abbrev Kind.deque : Kind := .opq 1
abbrev Kind.bytearray : Kind := .opq 0

/-- the classes `to_array_types` is registered for (transform.py:258): list, tuple, set, frozenset, deque -/
def Kind.isSeqTarget : Kind → Bool
  | .list | .tuple | .set | .fset | .opq 1 => true
  | _ => false

/-- `value[:n]` works (list, tuple, bytearray and subclasses of the first two — the slice is a plain list / tuple);
set / frozenset / deque / dict raise TypeError -/
def Kind.sliceable (k : Kind) : Bool :=
  match k.base with
  | .list | .tuple | .opq 0 => true
  | _ => false

def Kind.isSet (k : Kind) : Bool :=
  match k.base with
  | .set | .fset => true
  | _ => false

inductive Val where
  | none
  | int (i : Int)
  | str (s : String)
  | node (id : Nat) (k : Kind) (keys : List String) (items : List Val)
  deriving Repr, Inhabited

/-! ### ids -/

mutual
/-- ids of the mutable objects reachable from a value (with multiplicity) -/
def Val.mutIds : Val → List Nat
  | .node i k _ items => if k.mutable then i :: mutIdsL items else mutIdsL items
  | _ => []
def mutIdsL : List Val → List Nat
  | [] => []
  | v :: vs => v.mutIds ++ mutIdsL vs
end

mutual
/-- ids of the reachable mutable objects that `copy_value` hands back as they are -/
def Val.opqIds : Val → List Nat
  | .node i k _ items => if k.copied then opqIdsL items else i :: mutIdsL items
  | _ => []
def opqIdsL : List Val → List Nat
  | [] => []
  | v :: vs => v.opqIds ++ opqIdsL vs
end

mutual
/-- value equality, ignoring object ids (Python `==` on the fragment) -/
def Val.veq : Val → Val → Bool
  | .none, .none => true
  | .int a, .int b => a == b
  | .str a, .str b => a == b
  | .node _ k ks xs, .node _ k' ks' ys => k.base == k'.base && ks == ks' && veqL xs ys      -- `==` ignores the subclass
  | _, _ => false
def veqL : List Val → List Val → Bool
  | [], [] => true
  | x :: xs, y :: ys => x.veq y && veqL xs ys
  | _, _ => false
end

mutual
/-- `hash(v)` succeeds -/
def Val.hashable : Val → Bool
  | .node _ k _ items => !k.mutable && hashableL items
  | _ => true
def hashableL : List Val → Bool
  | [] => true
  | v :: vs => v.hashable && hashableL vs
end

mutual
/-- a DataClass instance (not a Schema: that is a dict) somewhere inside: such an object hashes by identity -/
def Val.hasDC : Val → Bool
  | .node _ k _ items => (match k with | .inst _ false => true | _ => false) || hasDCL items
  | _ => false
def hasDCL : List Val → Bool
  | [] => false
  | v :: vs => v.hasDC || hasDCL vs
end

mutual
/-- no data-class instance inside -/
def Val.noInst : Val → Bool
  | .node _ k _ items => (match k with | .inst _ _ => false | _ => true) && noInstL items
  | _ => true
def noInstL : List Val → Bool
  | [] => true
  | v :: vs => v.noInst && noInstL vs
end

/-! ### allocation state -/

structure St where
  next : Nat
  writes : List Nat := []      -- ids of the objects written in place so far
  deriving Repr

inductive Err where
  | perr                     -- a ParseError leaves the public entry point
  | unmodelled (why : String)
  | fuel
  deriving Repr, DecidableEq

abbrev Res := Except Err Val
abbrev Comp := St → Res × St

def Res.isOk : Res → Bool
  | .ok _ => true
  | .error _ => false

/-- allocate a new container object; `written = true` when the code fills it in place afterwards -/
def mk (k : Kind) (keys : List String) (items : List Val) (written : Bool) : Comp := fun s =>
  (.ok (.node s.next k keys items),
   { next := s.next + 1, writes := if written then s.next :: s.writes else s.writes })

/-- An in-place write (`x.append(..)`, `x[k] = v`, `x.update(..)`, `x.pop(k)`, `dict.__init__(x, ..)`): the object the
variable `x` holds gets new content.  The write is logged under the identity **the target value carries** — whatever
object flowed into that variable: a container the code created itself, or its argument. -/
def fill (target : Val) (keys : List String) (items : List Val) : Comp := fun s =>
  match target with
  | .node i k _ _ => (.ok (.node i k keys items), { s with writes := i :: s.writes })
  | _ => (.error (.unmodelled "in-place write to an atom"), s)

/-- `x = K(); … ; x.<stores>`: create a container, compute what goes into it, store it into `x` in place.
(`result = []` … `result.append(..)`; `result = {}` … `result[name] = ..`; the call's `**kwargs` … `kwargs.update(_d)`.) -/
def newThenFill (k : Kind) (body : St → Except Err (List String × List Val) × St) : Comp := fun s =>
  match mk k [] [] false s with
  | (.error e, s1) => (.error e, s1)
  | (.ok x, s1) =>
    match body s1 with
    | (.error e, s2) => (.error e, s2)
    | (.ok (ks, xs), s2) => fill x ks xs s2

/-! ### copy_value — functional.py:21-30 -/

mutual
def copyValue : Val → St → Val × St
  | .node _ (.inst _ true) (_ :: keys) (_ :: items), s =>
      -- a Schema instance is a dict (schema.py `class Schema(dict, …)`): `{k: copy_value(v) for k, v in data.items()}` —
      -- a new *plain* dict of its items (its `__dict__`, the first child here, is not one of them)
      match copyList items s with
      | (items', s1) => (.node s1.next .dict keys items', { s1 with next := s1.next + 1 })
  | .node i k keys items, s =>
      if k.copied then
        -- `type(data)([copy_value(d) for d in data])` / `{k: copy_value(v) for k, v in data.items()}`
        match copyList items s with
        | (items', s1) => (.node s1.next k.rebuilt keys items', { s1 with next := s1.next + 1 })
      else (.node i k keys items, s)            -- `return data`
  | v, s => (v, s)                              -- `return data`
def copyList : List Val → St → List Val × St
  | [], s => ([], s)
  | v :: vs, s =>
      match copyValue v s with
      | (v', s1) => match copyList vs s1 with
        | (vs', s2) => (v' :: vs', s2)
end

/-! ### declarations -/

/-- a value without identities: what a default *factory* builds anew on every call -/
inductive Shape where
  | none
  | int (i : Int)
  | str (s : String)
  | node (k : Kind) (keys : List String) (items : List Shape)
  deriving Repr

mutual
def Shape.build : Shape → St → Val × St
  | .none, s => (.none, s)
  | .int i, s => (.int i, s)
  | .str x, s => (.str x, s)
  | .node k keys items, s =>
      match buildL items s with
      | (items', s1) => (.node s1.next k keys items', { s1 with next := s1.next + 1 })
def buildL : List Shape → St → List Val × St
  | [], s => ([], s)
  | v :: vs, s =>
      match v.build s with
      | (v', s1) => match buildL vs s1 with
        | (vs', s2) => (v' :: vs', s2)
end

inductive Ty where
  | any                       -- `Any` / no annotation
  | int
  | bare (k : Kind)           -- list, tuple, set, frozenset, dict
  | seq (k : Kind) (t : Ty)   -- List[T], Tuple[T, ...], Set[T], FrozenSet[T]
  | map (t : Ty)              -- Dict[str, T]
  | tup (ts : List Ty)        -- Tuple[T1, .., Tn]
  | opt (t : Ty)              -- Optional[T]
  | data (k : Nat)            -- a data class of the environment (possibly by forward reference)
  | con (t : Ty) (length maxLength : Option (Nat × Bool)) (minLength : Option Nat)
      -- `Field(length=.., max_length=.., min_length=..)` on a container type; `(n, true)` = `Lax(n)`
  deriving Repr, Inhabited

/-- the converters of `TypeTransformer.registry` (transform.py `@registry.register(...)`, rule.py, cls.py) -/
inductive Cid where
  | any | int | array | dict | bytes | rule | union | data
  deriving DecidableEq, Repr

/-- what the registry answers for a type from its registrations alone (no cache): `TypeRegistry.resolve`, base.py -/
def sel : Ty → Cid
  | .any => .any
  | .int => .int
  | .bare .dict => .dict
  | .bare (.opq 0) => .bytes
  | .bare _ => .array
  | .seq .. => .rule
  | .map _ => .rule
  | .tup _ => .rule
  | .con .. => .rule
  | .opt _ => .union
  | .data _ => .data

mutual
/-- the same type object (the registry cache is keyed by the type) -/
def Ty.same : Ty → Ty → Bool
  | .any, .any => true
  | .int, .int => true
  | .bare k, .bare k' => k == k'
  | .seq k t, .seq k' t' => k == k' && t.same t'
  | .map t, .map t' => t.same t'
  | .tup ts, .tup ts' => sameL ts ts'
  | .opt t, .opt t' => t.same t'
  | .data k, .data k' => k == k'
  | .con t a b c, .con t' a' b' c' => t.same t' && a == a' && b == b' && c == c'
  | _, _ => false
def sameL : List Ty → List Ty → Bool
  | [], [] => true
  | t :: ts, t' :: ts' => t.same t' && sameL ts ts'
  | _, _ => false
end

mutual
/-- every data class a type mentions has an index below `n` (is declared) -/
def Ty.scoped (n : Nat) : Ty → Bool
  | .data k => k < n
  | .seq _ t => t.scoped n
  | .map t => t.scoped n
  | .opt t => t.scoped n
  | .con t _ _ _ => t.scoped n
  | .tup ts => scopedL n ts
  | _ => true
def scopedL (n : Nat) : List Ty → Bool
  | [] => true
  | t :: ts => t.scoped n && scopedL n ts
end

/-- Process-wide state a parse reads and leaves behind (besides the declarations themselves):
* `regCache` — `TypeRegistry._cache` (base.py): type ↦ converter, filled by every lookup;
* `resolved` — the parsers whose pending forward references have been resolved (`BaseParser.resolve_forward_refs`,
  run lazily at the start of a parser's first successful call; `forward_refs` is emptied). -/
structure Proc where
  regCache : List (Ty × Cid) := []
  resolved : List Nat := []
  deriving Repr

/-- `TypeRegistry.resolve(t)`: the cached answer if there is one, else the registrations' answer -/
def Proc.resolve (p : Proc) (t : Ty) : Cid :=
  match p.regCache.find? (fun e => e.1.same t) with
  | some e => e.2
  | Option.none => sel t

inductive Dflt where
  | none                       -- required
  | val (d : Val)              -- `Field(default=d)` / `name: T = d`
  | shared (d : Val)           -- `default_factory=lambda: d`   (the same object every time)
  | fresh (sh : Shape)         -- `default_factory=lambda: build()` (a new object every time)
  deriving Repr

structure Field where
  name : String
  ty : Ty
  dflt : Dflt
  noOutput : Bool := false
  defer : Bool := false        -- `Field(defer_default=True)`: the default is not filled in by the parse
  ci : Bool := false         -- `setup_case_insensitive` (field.py:555-561): decided once, by the Options of the class that
                             -- *declares* the field; a subclass takes the field over as it is
  deriving Repr

def Dflt.isNone : Dflt → Bool
  | .none => true
  | _ => false

inductive DKind where
  | schema | dataclass | func
  deriving DecidableEq, Repr

/-- runtime options that matter here: `no_explicit_cast` -/
structure Opts where
  strict : Bool := false
  deriving DecidableEq, Repr

/-- the four wrappers `FunctionParser.wrap` chooses from (func.py:521-578): `sync_call`, `get_async_call`
(:927-957), `get_sync_generator` (:791-830), `get_async_generator` (:883-925) -/
inductive FKind where
  | sync | async | gen | agen
  deriving DecidableEq, Repr

/-- running options given to one parse: `Cls.__from__(data, Options(...))` (they *replace* the class options
for that parse, options.py:219-258); `mode` and `collect_errors` do not enter the outcome on this fragment -/
structure ROpts where
  ignoreRequired : Bool := false       -- also implied by force_default (options.py:170-176)
  noDefault : Bool := false
  deferDefault : Bool := false         -- Options(defer_default=True)
  force : Option Val := none           -- force_default
  dfs : Option Bool := none            -- data_first_search
  deriving Repr

structure Decl where
  kind : DKind
  dfs : Bool := false                       -- Options(data_first_search=True)
  ci : Bool := false                        -- Options(case_insensitive=True): how the class sets up the fields it declares
  fields : List Field
  wrappers : List (Option Opts) := []        -- func: `utype.parse(raw, options=..)` applied in this order
  fkind : FKind := .sync                     -- func: plain / `async def` / generator / async generator
  eager : Bool := false                      -- func: `utype.parse(eager=True)`
  ret : Option (String × Ty) := none         -- func (sync/async): `-> T`, the body returns the parameter of that name
  deriving Repr

abbrev Env := List Decl

/-- all forward references of the declaration are to declared classes -/
def Decl.scoped (n : Nat) (d : Decl) : Bool :=
  d.fields.all (fun f => f.ty.scoped n) && (match d.ret with | some (_, t) => t.scoped n | Option.none => true)

def Dflt.vals : Dflt → List Val
  | .val d => [d]
  | .shared d => [d]
  | _ => []

/-- the declared default objects of a declaration / an environment -/
def Decl.dfltVals (d : Decl) : List Val := d.fields.flatMap (fun f => f.dflt.vals)
def Env.dfltVals (E : Env) : List Val := E.flatMap Decl.dfltVals
/-- every mutable object reachable from a declared default -/
def Env.declIds (E : Env) : List Nat := mutIdsL E.dfltVals
/-- … and those of them `copy_value` does not rebuild (empty when defaults are list/set/tuple/dict nests) -/
def Env.leak (E : Env) : List Nat := opqIdsL E.dfltVals

/-- `ParserField.get_default` — field.py:803-831 for the field's own default -/
def getDefault0 : Dflt → St → Option Val × St
  | .none, s => (Option.none, s)                                           -- `return unprovided`
  | .val d, s => match copyValue d s with | (v, s1) => (some v, s1)        -- `copy_value(self.default)`
  | .shared d, s => match copyValue d s with | (v, s1) => (some v, s1)     -- `copy_value(self.default_factory())`
  | .fresh sh, s =>
      match sh.build s with
      | (d, s1) => match copyValue d s1 with | (v, s2) => (some v, s2)

/-- … with the running options: `no_default` first, then `force_default`, then the field (field.py:805-831) -/
def getDefault (ro : ROpts) (d : Dflt) : St → Option Val × St := fun s =>
  if ro.noDefault then (Option.none, s)
  else match ro.force with
    | some a => (match copyValue a s with | (v, s1) => (some v, s1))       -- `copy_value(options.force_default)`
    | Option.none => getDefault0 d s

/-- `get_default(options, defer)` — field.py:808-814, the `defer` test before the default is looked up:
the parse asks with `defer=False` and gets nothing for a deferred default; attribute access on a Schema instance asks with
`defer=True` (schema.py:311-318 `__field_getter__`) and gets nothing for a default that is *not* deferred. -/
def getDefaultAt (defer fdefer : Bool) (ro : ROpts) (d : Dflt) : St → Option Val × St := fun s =>
  if ro.noDefault then (Option.none, s)
  else if (!defer && (fdefer || ro.deferDefault)) || (defer && !(fdefer || ro.deferDefault)) then (Option.none, s)
  else getDefault ro d s

/-! ### converters -/

def junkStrings : List String := ["x", "w", "zz", "q"]

def isDigits (s : String) : Bool := !s.isEmpty && s.toList.all Char.isDigit

/-- `to_integer` on atoms — transform.py:415-448 -/
def convInt (o : Opts) : Val → Res
  | .int i => .ok (.int i)                                   -- `type(data) == t` → `return data`
  | .str x =>
      if o.strict then .error .perr                          -- no_explicit_cast: `raise TypeError`
      else if isDigits x then .ok (.int x.toNat!)
      else if junkStrings.contains x then .error .perr
      else .error (.unmodelled "int from this string")
  | .none => if o.strict then .error .perr else .ok (.int 0)
  | .node .. => .error (.unmodelled "int from a container")

/-- remove duplicates (`set(...)`), keeping first occurrences -/
def dedup : List Val → List Val
  | [] => []
  | v :: vs => if vs.any (fun w => v.veq w) then dedup vs else v :: dedup vs

/-- `t(items)` for a sequence class `t` — raises TypeError (→ ParseError) when a set gets an unhashable item -/
def mkSeq (k : Kind) (items : List Val) (written : Bool) : Comp := fun s =>
  if k.isSet then
    if hashableL items then mk k [] (dedup items) written s
    -- a DataClass instance is hashable (by identity) although it is a mutable object: sets of such are outside the fragment
    else (.error (if hasDCL items then .unmodelled "set holding data-class instances (hashed by identity)" else .perr), s)
  else mk k [] items written s

/-- `apply(value, origin, func=to_array_types)` for origin ∈ {list, tuple, set, frozenset}
(transform.py:258-311, 725-748) and `to_dict` for origin = dict (transform.py:315-398). -/
def convBare (o : Opts) (k : Kind) (v : Val) : Comp := fun s =>
  if k.isSeqTarget then
    match v with
    | .node _ k' _ items =>
        if k'.base == k then (.ok v, s)                              -- exact type / `isinstance(data, t)`: the argument itself
        else if k'.isSeq then
          -- `multi(data)` → `t(data)`   (before the strict check)
          if k'.isSet && !k.isSet && items.length > 1 then (.error (.unmodelled "sequence from a set (iteration order)"), s)
          else mkSeq k items false s
        else if k'.base == .dict then
          if o.strict then (.error .perr, s)
          else if k.isSet then (.error (.unmodelled "set from dict"), s)
          else if items.isEmpty then mk k [] [] false s              -- `{}` → `t()`
          else mk k [] [v] false s                                   -- `t([data])`
        else if k'.base == Kind.deque then
          -- a deque is not `multi()`: it is wrapped like a scalar, `t([data])`
          if o.strict then (.error .perr, s)
          else if k.isSet then (.error .perr, s)                     -- unhashable
          else mk k [] [v] false s
        else (.error (.unmodelled "sequence from instance/bytearray"), s)
    | _ => if o.strict then (.error .perr, s) else mkSeq k [v] false s   -- `t([data])`
  else if k == .dict then
    match v with
    | .node _ k' _ items =>
        if k'.base == .dict then (.ok v, s)                          -- `isinstance(data, t)`: the argument itself
        else if k'.isSeq then
          if o.strict then (.error .perr, s)
          else if items.isEmpty then mk .dict [] [] false s          -- `dict([])`
          else (.error (.unmodelled "dict from non-empty sequence"), s)
        else (.error (.unmodelled "dict from instance/opaque"), s)
    | _ => (.error .perr, s)
  else if k == Kind.bytearray then
    match v with
    | .node _ k' _ _ =>
        if k' == Kind.bytearray then (.ok v, s)                      -- exact type: the argument itself
        else (.error (.unmodelled "bytearray from another container"), s)
    | _ => (.error (.unmodelled "bytearray from an atom"), s)
  else (.error (.unmodelled "bare kind"), s)

/-- `value[:n]` — `lax_length` / `lax_max_length` (rule.py:1063-1095): a *new* object for list / tuple / bytearray,
TypeError (→ ParseError) for what cannot be sliced -/
def laxCut (n : Nat) : Val → Comp
  | .node _ k _ xs, s => if k.sliceable then mk k.base [] (xs.take n) false s else (.error .perr, s)
  | _, s => (.error (.unmodelled "length of an atom"), s)

def lenOf : Val → Nat
  | .node _ _ _ xs => xs.length
  | _ => 0

/-- run `f` on the result of `c` unless `c` failed -/
def andThen (c : Comp) (f : Val → Comp) : Comp := fun s =>
  match c s with
  | (.error e, s1) => (.error e, s1)
  | (.ok v, s1) => f v s1

/-- `length` / `lax_length` (rule.py:1054-1073) -/
def consLength (c : Option (Nat × Bool)) (v : Val) : Comp := fun s =>
  match c with
  | Option.none => (.ok v, s)
  | some (n, lax) =>
      if lenOf v == n then (.ok v, s)                 -- `return value`: the validated object itself
      else if lax && lenOf v > n then laxCut n v s    -- `return value[:lg]`
      else (.error .perr, s)

/-- `max_length` / `lax_max_length` (rule.py:1076-1095) -/
def consMax (c : Option (Nat × Bool)) (v : Val) : Comp := fun s =>
  match c with
  | Option.none => (.ok v, s)
  | some (n, lax) =>
      if lenOf v ≤ n then (.ok v, s)
      else if lax then laxCut n v s                   -- `return value[:m]`
      else (.error .perr, s)

/-- `min_length` (rule.py:1098-1104) -/
def consMin (c : Option Nat) (v : Val) : Comp := fun s =>
  match c with
  | Option.none => (.ok v, s)
  | some n => if lenOf v < n then (.error .perr, s) else (.ok v, s)

/-- the length validators in the order of `Rule.__constraints__` (rule.py:1158-1160): length, max_length, min_length -/
def applyCons (length maxLength : Option (Nat × Bool)) (minLength : Option Nat) (v : Val) : Comp :=
  andThen (andThen (consLength length v) (consMax maxLength)) (consMin minLength)

/-- map a computation over a list, stopping at the first error (fail-fast `throw` policy) -/
def mapC (f : Val → Comp) : List Val → St → Except Err (List Val) × St
  | [], s => (.ok [], s)
  | v :: vs, s =>
      match f v s with
      | (.error e, s1) => (.error e, s1)
      | (.ok v', s1) =>
        match mapC f vs s1 with
        | (.error e, s2) => (.error e, s2)
        | (.ok vs', s2) => (.ok (v' :: vs'), s2)

/-- positional zip of argument types and values — `_parse_tuple_args` -/
def zipC (f : Ty → Val → Comp) : List Ty → List Val → St → Except Err (List Val) × St
  | [], _, s => (.ok [], s)
  | _ :: _, [], s => (.error .perr, s)                      -- AbsenceError: prefix item not provided
  | t :: ts, v :: vs, s =>
      match f t v s with
      | (.error e, s1) => (.error e, s1)
      | (.ok v', s1) =>
        match zipC f ts vs s1 with
        | (.error e, s2) => (.error e, s2)
        | (.ok vs', s2) => (.ok (v' :: vs'), s2)

def lookupKV (k : String) : List String → List Val → Option Val
  | a :: as, v :: vs => if a == k then some v else lookupKV k as vs
  | _, _ => Option.none

/-- does input key `key` address field `f`?  A field set up case-insensitively has lower-cased aliases and its
keys are lower-cased before the lookup (base.py `generate_aliases`, `field_first_parse`): any letter case matches.
A field set up case-sensitively matches its exact name only — in whatever class it is used (`is_case_insensitive`
returns the recorded setup decision, field.py:784-789). -/
def keyMatches (f : Field) (key : String) : Bool :=
  if f.ci then key.toLower == f.name.toLower else key == f.name

def lookupF (f : Field) : List String → List Val → Option Val
  | a :: as, v :: vs => if keyMatches f a then some v else lookupF f as vs
  | _, _ => Option.none

/-- Field-first search — base.py:570-705: for every field, its input value or its default. -/
def fieldsFF (rec : Ty → Val → Comp) (ro : ROpts) (keys : List String) (items : List Val) :
    List Field → St → Except Err (List (String × Val)) × St
  | [], s => (.ok [], s)
  | f :: fs, s =>
      match lookupF f keys items with
      | some v =>
          match rec f.ty v s with                                  -- `field.parse_value(value)`
          | (.error e, s1) => (.error e, s1)
          | (.ok v', s1) =>
            match fieldsFF rec ro keys items fs s1 with
            | (.error e, s2) => (.error e, s2)
            | (.ok r, s2) => (.ok ((f.name, v') :: r), s2)
      | Option.none =>
          -- `field.is_required(options)`: declared without default and the run does not say ignore_required
          if f.dflt.isNone && !ro.ignoreRequired then (.error .perr, s)       -- AbsenceError
          else
          match getDefaultAt false f.defer ro f.dflt s with
          | (Option.none, s1) => fieldsFF rec ro keys items fs s1          -- no default: the field stays absent
          | (some d, s1) =>
            match fieldsFF rec ro keys items fs s1 with
            | (.error e, s2) => (.error e, s2)
            | (.ok r, s2) => (.ok ((f.name, d) :: r), s2)

/-- Data-first search, first loop — base.py:457-568: parse the provided items in input order. -/
def dataLoop (rec : Ty → Val → Comp) (fields : List Field) :
    List String → List Val → St → Except Err (List (String × Val)) × St
  | k :: ks, v :: vs, s =>
      match fields.find? (fun f => keyMatches f k) with
      | Option.none => dataLoop rec fields ks vs s             -- unknown key, addition=None: dropped
      | some f =>
          match rec f.ty v s with
          | (.error e, s1) => (.error e, s1)
          | (.ok v', s1) =>
            match dataLoop rec fields ks vs s1 with
            | (.error e, s2) => (.error e, s2)
            | (.ok r, s2) => (.ok ((f.name, v') :: r), s2)
  | _, _, s => (.ok [], s)

/-- Data-first search, second loop (base.py, `data_first_parse`): requiredness and defaults of the fields not provided. -/
def defaultLoop (ro : ROpts) (have_ : List String) : List Field → St → Except Err (List (String × Val)) × St
  | [], s => (.ok [], s)
  | f :: fs, s =>
      if have_.contains f.name then defaultLoop ro have_ fs s
      else if f.dflt.isNone && !ro.ignoreRequired then (.error .perr, s)     -- `field.is_required(options)`: AbsenceError
      else
        match getDefaultAt false f.defer ro f.dflt s with
        | (Option.none, s1) => defaultLoop ro have_ fs s1
        | (some d, s1) =>
          match defaultLoop ro have_ fs s1 with
          | (.error e, s2) => (.error e, s2)
          | (.ok r, s2) => (.ok ((f.name, d) :: r), s2)

/-- `parser.parse_data(kwargs)` → the name/value pairs of the result dict. -/
def parseData (rec : Ty → Val → Comp) (ro : ROpts) (d : Decl) (keys : List String) (items : List Val) :
    St → Except Err (List (String × Val)) × St := fun s =>
  if ro.dfs.getD d.dfs then
    match dataLoop rec d.fields keys items s with
    | (.error e, s1) => (.error e, s1)
    | (.ok r1, s1) =>
      -- "under ignore_required no field is required (is_required), but the defaults of unprovided fields still apply"
      match defaultLoop ro (r1.map (·.1)) d.fields s1 with
      | (.error e, s2) => (.error e, s2)
      | (.ok r2, s2) => (.ok (r1 ++ r2), s2)
  else fieldsFF rec ro keys items d.fields s

inductive Style where
  | kw      -- `Cls(**data)`
  | pos     -- `Cls(data)`            (cls.py:514-518  `kwargs.update(keyword_data(cls, _d, context))`)
  | from_   -- `Cls.__from__(data)`   (init_dataclass)
  deriving DecidableEq, Repr

/-- the items of a container -/
def Val.kids : Val → List Val
  | .node _ _ _ xs => xs
  | _ => []

def itemsOf : Val → List String × List Val
  | .node _ _ ks xs => (ks, xs)
  | _ => ([], [])

/-- `parser(kwargs)`: the parser's result dict — `result = {}` … `result[name] = parsed / default` (base.py parse_data) -/
def parseInto (rec : Ty → Val → Comp) (ro : ROpts) (d : Decl) (keys : List String) (items : List Val) : Comp :=
  newThenFill .dict (fun s => match parseData rec ro d keys items s with
    | (.error e, s1) => (.error e, s1)
    | (.ok vals, s1) => (.ok (vals.map (·.1), vals.map (·.2)), s1))

/-- `init_dataclass(cls, data)` / `cls(**data)` / `cls(d, **kw)` for the entries the parse sees.  The objects involved,
each created by this call and then written *through the variable that holds it*:
* the call's own `**kwargs` dict, filled by the call protocol / `kwargs.update(_d)` (cls.py `__init__`);
* `inst = cls.__new__(cls)` and its `__dict__`;
* `values = parser(kwargs)`, the parser's result dict;
* `set_attributes(values, inst)` (cls.py): `values.pop(key)` for no_output fields, `inst.__dict__[attname] = value`;
* `Schema.__post_init__`: `dict.__init__(inst, values)`. -/
def initWith (rec : Ty → Val → Comp) (ro : ROpts) (E : Env) (k : Nat) (keys : List String) (items : List Val) : Comp := fun s =>
  match E[k]? with
  | Option.none => (.error (.unmodelled "no such class"), s)
  | some d =>
    if d.kind == .func then (.error (.unmodelled "function used as a type"), s) else
    match newThenFill .dict (fun s0 => (.ok (keys, items), s0)) s with           -- kwargs
    | (.error e, s1) => (.error e, s1)
    | (.ok kwargs, s1) =>
    match mk (.inst k (d.kind == .schema)) [] [] false s1 with                    -- inst = cls.__new__(cls)
    | (.error e, s2) => (.error e, s2)
    | (.ok inst0, s2) =>
    match mk .dict [] [] false s2 with                                            -- inst.__dict__
    | (.error e, s3) => (.error e, s3)
    | (.ok attrs0, s3) =>
    match parseInto rec ro d (itemsOf kwargs).1 (itemsOf kwargs).2 s3 with        -- values = parser(kwargs)
    | (.error e, s4) => (.error e, s4)
    | (.ok values, s4) =>
    let vks := (itemsOf values).1
    let vxs := (itemsOf values).2
    let outP := (vks.zip vxs).filter (fun p => !(d.fields.any (fun f => f.name == p.1 && f.noOutput)))
    match fill values (outP.map (·.1)) (outP.map (·.2)) s4 with                   -- values.pop(key)   (no_output)
    | (.error e, s5) => (.error e, s5)
    | (.ok values', s5) =>
    match fill attrs0 vks vxs s5 with                                             -- inst.__dict__[attname] = value
    | (.error e, s6) => (.error e, s6)
    | (.ok attrs, s6) =>
    let shown := if d.kind == .schema then itemsOf values' else ([], [])
    fill inst0 ("__dict__" :: shown.1) (attrs :: shown.2) s6                       -- dict.__init__(inst, values)

/-- what the body of a decorated function receives, as the harness records it: `{'a': a, ..}`, a dict literal the
body itself builds from its arguments -/
def mkBinding (vals : List (String × Val)) : Comp := mk .dict (vals.map (·.1)) (vals.map (·.2)) false

/-- a set with more than one element: its iteration order is not modelled -/
def unorderedSrc : Val → Bool
  | .node _ k' _ its => k'.isSet && its.length > 1
  | _ => false

/-- `TypeTransformer.__call__` (transform.py): a field value is converted by the converter the registry answers for
the field's type (`resolver_transformer(t)`); `L` is that lookup.  Inside a `Rule` type the element converters were
bound when the class was created (`__arg_transformers__`), so `conv` recurses without another lookup.  Should the
registry answer with a converter other than the type's own, the model does not say what happens. -/
def guardL (L : Ty → Cid) (f : Ty → Val → Comp) : Ty → Val → Comp := fun ty v s =>
  if L ty == sel ty then f ty v s else (.error (.unmodelled "the registry answered with another converter"), s)

/-- The type transformer on the modelled fragment.  `fuel` bounds the nesting of data classes and types. -/
def conv (L : Ty → Cid) (E : Env) (o : Opts) : Nat → Ty → Val → Comp
  | 0, _, _ => fun s => (.error .fuel, s)
  | fuel + 1, ty, v => fun s =>
    match ty with
    | .any => (.ok v, s)                                              -- rule.py:2113-2117: `return value`
    | .int => (convInt o v, s)
    | .bare k => convBare o k v s
    | .seq k t =>
        -- Rule.parse: origin transform, `_parse_seq_args` (a new list, filled in place), re-wrap `origin(value)`
        match convBare o k v s with
        | (.error e, s1) => (.error e, s1)
        | (.ok (.node _ _ _ items), s1) =>
            -- `result = []` … `result.append(apply(item, ..))` for every item
            match newThenFill .list (fun s2 => match mapC (conv L E o fuel t) items s2 with
                | (.error e, s3) => (.error e, s3)
                | (.ok items', s3) => (.ok ([], items'), s3)) s1 with
            | (.error e, s3) => (.error e, s3)
            | (.ok r, s3) =>
              if k == .list then (.ok r, s3)                                          -- `return result`
              else mkSeq k r.kids false s3   -- `cls.__origin__(value)`
        | (.ok _, s1) => (.error (.unmodelled "origin transform returned an atom"), s1)
    | .map t =>
        match convBare o .dict v s with
        | (.error e, s1) => (.error e, s1)
        | (.ok (.node _ _ keys items), s1) =>
            -- `result = {}` … `result[key] = val` for every entry
            newThenFill .dict (fun s2 => match mapC (conv L E o fuel t) items s2 with
                | (.error e, s3) => (.error e, s3)
                | (.ok items', s3) => (.ok (keys, items'), s3)) s1
        | (.ok _, s1) => (.error (.unmodelled "origin transform returned an atom"), s1)
    | .tup ts =>
        if unorderedSrc v then (.error (.unmodelled "tuple from a set (iteration order)"), s) else
        match convBare o .tuple v s with
        | (.error e, s1) => (.error e, s1)
        | (.ok (.node _ _ _ items), s1) =>
            -- `result = []` … `result.append(..)` per prefix item, then `cls.__origin__(result)`
            match newThenFill .list (fun s2 => match zipC (conv L E o fuel) ts items s2 with
                | (.error e, s3) => (.error e, s3)
                | (.ok items', s3) => (.ok ([], items'), s3)) s1 with
            | (.error e, s3) => (.error e, s3)
            | (.ok r, s3) => mk .tuple [] r.kids false s3
        | (.ok _, s1) => (.error (.unmodelled "origin transform returned an atom"), s1)
    | .con t lg mx mn =>
        -- Rule.parse (rule.py:1706-1777): transform to the origin (+ args), then the validators on the result.
        -- The argument loops read the converted container once through `_read_items` (rule.py:1833-1841: `list(value)`,
        -- a temporary the loops iterate over; nothing is written to `value` and the temporary is not part of any result)
        match conv L E o fuel t v s with
        | (.error e, s1) => (.error e, s1)
        | (.ok r, s1) => applyCons lg mx mn r s1
    | .opt t =>
        match v with
        | .none => (.ok .none, s)                                     -- exact type NoneType
        | _ => conv L E o fuel t v s                                    -- first union stage that accepts
    | .data k =>
        match v with
        | .node _ (.inst k' _) _ _ =>
            if k' == k then (.ok v, s)                                -- `type(data) == t`: the instance itself
            else (.error (.unmodelled "instance of another class"), s)
        -- `init_dataclass`: the class parses with its *own* options (`parser.make_context(context=..)`, options.py:219-258)
        | .node _ .dict keys items => initWith (guardL L (conv L E {} fuel)) {} E k keys items s
        | .node _ k' _ items =>
            if (k' == .list || k' == .tuple) && items.isEmpty then initWith (guardL L (conv L E {} fuel)) {} E k [] [] s   -- `to_dict([])`
            else (.error (.unmodelled "data class from a sequence/opaque"), s)
        | _ => (.error .perr, s)

def fuelDefault : Nat := 64

/-- `BaseParser.apply_for` — base.py:42-65: the options of the parser that serves wrapper `j` when the
raw function is decorated with `ws[0]`, `ws[1]`, … in this order.  `options=None` re-uses whatever
parser is cached for the function. -/
def effectiveOptsAux : Option Opts → List (Option Opts) → Nat → Opts
  | cached, [], _ => cached.getD {}
  | cached, w :: ws, j =>
      let used : Opts := match w, cached with
        | Option.none, some c => c             -- `if not options …: return cached`
        | Option.none, Option.none => {}       -- new parser with vacuum options, cached
        | some o, _ => o                       -- options differ (identity comparison): a new parser, replaces the cache
      match j with
      | 0 => used
      | j + 1 => effectiveOptsAux (some used) ws j

def effectiveOpts (ws : List (Option Opts)) (j : Nat) : Opts := effectiveOptsAux Option.none ws j

/-- what the declaration of wrapper `j` says -/
def declaredOpts (ws : List (Option Opts)) (j : Nat) : Opts := (ws[j]?.getD Option.none).getD {}

/-- One parse through the public API.  `target` is a class (instance creation) or a decorated function
(arguments passed positionally or by name); `keys/items` are the entries of the caller's dict. -/
def callWith (optsOf : List (Option Opts) → Nat → Opts) (L : Ty → Cid) (resolvedBefore : Bool) (ro : ROpts) (E : Env)
    (target : Nat) (wrapper : Nat) (keys : List String) (items : List Val) : Comp := fun s =>
  match E[target]? with
  | Option.none => (.error (.unmodelled "no such target"), s)
  | some d =>
    -- `BaseParser.__call__`: `self.resolve_forward_refs(ignore_errors=False)` — nothing to do when the parser resolved
    -- its references in an earlier call (`forward_refs` is empty), else every referenced class has to exist now
    if !resolvedBefore && !d.scoped E.length then (.error (.unmodelled "forward reference to an undeclared class"), s) else
    if d.kind == .func then
      let o := optsOf d.wrappers wrapper
      -- positional arguments are looked up by position, the rest by name; both go through `parse_value`,
      -- missing ones through `get_default`; the order differs, the objects do not
      -- All four wrappers create their RuntimeContext *inside* the call (func.py:562, 806, 898, 942), resolve the
      -- parameters through the same `get_params`/`parse_params`, and differ only in when that happens (at the call
      -- when `eager`, else at the first `await` / `next`): `fkind` and `eager` do not enter the outcome.
      -- `parse_params`: `parsed_kwargs = self.parse_data(kwargs, ..)` — a result dict like any other
      match parseInto (guardL L (conv L E o fuelDefault)) {} { d with dfs := false } keys items s with
      | (.error e, s1) => (.error e, s1)
      | (.ok pk, s1) =>
        let vals := (itemsOf pk).1.zip (itemsOf pk).2
        match d.ret with
        | Option.none => mkBinding vals s1
        | some (fname, ty) =>
          -- `parse_result` (func.py:724-733): the returned value goes through the transformer with the same context
          match lookupKV fname (vals.map (·.1)) (vals.map (·.2)) with
          | Option.none => mkBinding vals s1
          | some v =>
            match guardL L (conv L E o fuelDefault) ty v s1 with
            | (.error e, s2) => (.error e, s2)
            | (.ok _, s2) => mkBinding vals s2
    else initWith (guardL L (conv L E {} fuelDefault)) ro E target keys items s

def call := callWith effectiveOpts sel false {}

/-! ### in-place mutation by the caller, `setattr`, `Schema.copy()` -/

inductive Act where
  | append (v : Val)               -- list.append(v)     (v: an atom or an object the caller holds)
  | add (v : Val)                  -- set.add(v)
  | setkey (k : String) (v : Val)  -- dict[k] = v
  | clear                          -- list/set/dict .clear()
  | popLast                        -- list.pop()
  | delkey (k : String)            -- del dict[k]
  deriving Repr

/-- the objects a caller's write puts into the target -/
def Act.ids : Act → List Nat
  | .append v => v.mutIds
  | .add v => v.mutIds
  | .setkey _ v => v.mutIds
  | _ => []

def setKV (k : String) (v : Val) : List String → List Val → List String × List Val
  | a :: as, x :: xs =>
      if a == k then (a :: as, v :: xs)
      else match setKV k v as xs with | (ks, vs) => (a :: ks, x :: vs)
  | _, _ => ([k], [v])

def delKV (k : String) : List String → List Val → List String × List Val
  | a :: as, x :: xs =>
      if a == k then (as, xs)
      else match delKV k as xs with | (ks, vs) => (a :: ks, x :: vs)
  | _, _ => ([], [])

def Act.apply (a : Act) (k : Kind) (ks : List String) (xs : List Val) : Option (List String × List Val) :=
  match a, k.base with          -- a list / set / dict or an instance of a user subclass of one
  | .append v, .list => some (ks, xs ++ [v])
  | .add v, .set => some (ks, if xs.any (fun w => v.veq w) then xs else xs ++ [v])
  | .setkey k v, .dict => some (setKV k v ks xs)
  | .clear, .list => some ([], [])
  | .clear, .set => some ([], [])
  | .clear, .dict => some ([], [])
  | .popLast, .list => some (ks, xs.dropLast)
  | .delkey k, .dict => some (delKV k ks xs)
  | _, _ => Option.none

mutual
/-- apply an in-place write to object `i`, wherever it occurs in a value -/
def Val.write (i : Nat) (f : Kind → List String → List Val → Option (List String × List Val)) : Val → Val
  | .node j k keys items =>
      let items' := writeL i f items
      if j == i && k.mutable then
        match f k keys items' with
        | some (ks, xs) => .node j k ks xs
        | Option.none => .node j k keys items'
      else .node j k keys items'
  | v => v
def writeL (i : Nat) (f : Kind → List String → List Val → Option (List String × List Val)) : List Val → List Val
  | [] => []
  | v :: vs => v.write i f :: writeL i f vs
end

/-- `Schema.copy()` — schema.py `copy` after the fix: `obj = cls.__new__(cls)`; `dict.update(obj, self)` — an in-place
write to `obj`; `obj.__dict__ = dict(self.__dict__)` — a *new* attribute dict with the same entries. -/
def schemaCopy : Val → Comp
  | .node _ (.inst k b) ("__dict__" :: ks) (.node _ .dict aks avs :: xs), s =>
      match mk (.inst k b) [] [] false s with                     -- obj = self.__class__.__new__(self.__class__)
      | (.error e, s1) => (.error e, s1)
      | (.ok obj, s1) =>
        match mk .dict aks avs false s1 with                      -- dict(self.__dict__)
        | (.error e, s2) => (.error e, s2)
        | (.ok ad, s2) => fill obj ("__dict__" :: ks) (ad :: xs) s2      -- dict.update(obj, self); obj.__dict__ = …
  | _, s => (.error (.unmodelled "copy of a non-Schema"), s)

/-- the behaviour before the fix: `obj.__dict__ = self.__dict__` -/
def schemaCopyLegacy : Val → Comp
  | .node _ (.inst k b) ("__dict__" :: ks) (.node a .dict aks avs :: xs), s =>
      match mk (.inst k b) [] [] false s with
      | (.error e, s1) => (.error e, s1)
      | (.ok obj, s1) => fill obj ("__dict__" :: ks) (.node a .dict aks avs :: xs) s1
  | _, s => (.error (.unmodelled "copy of a non-Schema"), s)

/-- `d[fname] = v` on a plain dict (an instance's `__dict__`) -/
def setItemF (fname : String) (v : Val) : Kind → List String → List Val → Option (List String × List Val) :=
  fun _ ks xs => some (setKV fname v ks xs)

/-- `dict.__setitem__(inst, fname, v)` on a Schema instance (whose first child is its `__dict__`) -/
def instSetF (fname : String) (v : Val) : Kind → List String → List Val → Option (List String × List Val) :=
  fun _ ks xs => match ks, xs with
    | "__dict__" :: ks', x :: xs' => (match setKV fname v ks' xs' with | (a', b') => some ("__dict__" :: a', x :: b'))
    | _, _ => Option.none

/-- `dict.__delitem__(inst, fname)` on a Schema instance -/
def instDelF (fname : String) : Kind → List String → List Val → Option (List String × List Val) :=
  fun _ ks xs => match ks, xs with
    | "__dict__" :: ks', x :: xs' => (match delKV fname ks' xs' with | (a', b') => some ("__dict__" :: a', x :: b'))
    | _, _ => Option.none

/-- `inst.field = atom` for a declared field whose type accepts the atom unchanged:
Schema `__field_setter__` (schema.py:327-369): no_output → `self.__dict__[attname] = v`, drop the item;
otherwise `dict.__setitem__(self, name, v)`.  DataClass setter (cls.py:275-290): `__dict__[attname] = v`. -/
def setattrWrites (d : Decl) (fname : String) (v : Val) : Val → List (Nat × (Kind → List String → List Val → Option (List String × List Val)))
  | .node i (.inst _ _) _ (.node a .dict _ _ :: _) =>
      let noOut := d.fields.any (fun f => f.name == fname && f.noOutput)
      if d.kind == .schema then
        if noOut then [(a, setItemF fname v), (i, instDelF fname)]
        else [(i, instSetF fname v)]
      else [(a, setItemF fname v)]
  | _ => []

/-! ### the world: declarations (with their default objects), allocator, live roots -/

structure World where
  env : Env
  next : Nat
  roots : List (Option Val) := []          -- inputs and results, in creation order
  proc : Proc := {}                        -- registry cache, resolved forward references
  deriving Repr

def Dflt.write (i : Nat) (f : Kind → List String → List Val → Option (List String × List Val)) : Dflt → Dflt
  | .val d => .val (d.write i f)
  | .shared d => .shared (d.write i f)
  | x => x

def Field.write (i : Nat) (f : Kind → List String → List Val → Option (List String × List Val)) (fl : Field) : Field :=
  { fl with dflt := fl.dflt.write i f }

def Decl.write (i : Nat) (f : Kind → List String → List Val → Option (List String × List Val)) (d : Decl) : Decl :=
  { d with fields := d.fields.map (Field.write i f) }

/-- an in-place write to object `i` shows wherever the object is reachable from: live roots and the
declared default objects alike -/
def World.writeAll (w : World) (i : Nat) (f : Kind → List String → List Val → Option (List String × List Val)) : World :=
  { w with roots := w.roots.map (fun r => r.map (Val.write i f)), env := w.env.map (Decl.write i f) }

def World.rootVals (w : World) : List Val := w.roots.filterMap id
/-- identities of the mutable objects reachable from the live roots -/
def World.rootIds (w : World) : List Nat := mutIdsL w.rootVals

inductive Op where
  /-- a parse; the caller first builds `input` (a dict), allocating `bump` new objects for it -/
  | call (target wrapper : Nat) (bump : Nat) (input : Val) (ro : ROpts := {})
  /-- a further declaration (a new class, a subclass or variant of an earlier one with other Options, a function):
  its default objects are new; the earlier declarations are what they were (`generate_from_bases`, cls.py:223-257,
  takes the base parser's fields over without touching them) -/
  | declare (d : Decl) (bump : Nat)
  /-- the caller changes object `id` in place (reached through some result) -/
  | mutate (id : Nat) (act : Act)
  /-- `roots[root].field = v` -/
  | setattr (root : Nat) (field : String) (v : Val)
  /-- `roots[root].copy()` -/
  | copy (root : Nat)
  /-- `roots[root].field` — attribute access; the value read becomes a root -/
  | getattr (root : Nat) (field : String)
  deriving Repr

inductive Outcome where
  | ok | perr | skip | unmodelled (why : String)
  deriving Repr, DecidableEq

def Outcome.ofErr : Err → Outcome
  | .perr => .perr
  | .unmodelled w => .unmodelled w
  | .fuel => .unmodelled "fuel"

/-- `kwargs.update(_d)` (cls.py:514-518): the keyword arguments, overridden by the positional dict's entries -/
def mergeKV : List String → List Val → List String × List Val → List String × List Val
  | k :: ks, x :: xs, acc => mergeKV ks xs (setKV k x acc.1 acc.2)
  | _, _, acc => acc

/-- the entries the parser sees: of the caller's dict, or — for `Cls(d, **kw)`, input `(d, kw)` — of the
call's own `kwargs` after `kwargs.update(d)` -/
def entriesOf : Val → List String × List Val
  | .node _ .dict ks xs => (ks, xs)
  | .node _ .tuple _ [.node _ .dict ks xs, .node _ .dict kks kxs] => mergeKV ks xs (kks, kxs)
  | _ => ([], [])

def World.root (w : World) (r : Nat) : Option Val := (w.roots[r]?).bind id

/-- what an in-place write by library code would do to a caller-visible object: anything.  The model
empties the object, so that a write to an existing object shows in the world (and in the correspondence). -/
def clobber : Kind → List String → List Val → Option (List String × List Val) := fun _ _ _ => some ([], [])

/-- apply the call's logged in-place writes to everything that existed before the call -/
def World.applyWrites (w : World) (writes : List Nat) : World := writes.foldl (fun w i => w.writeAll i clobber) w

/-- the parse as the world runs it: lookups through the registry cache as it is now, forward references resolved or not -/
def World.callP (w : World) (optsOf : List (Option Opts) → Nat → Opts) (target wrapper bump : Nat) (input : Val)
    (ro : ROpts) : Res × St :=
  callWith optsOf w.proc.resolve (w.proc.resolved.contains target) ro w.env target wrapper
    (entriesOf input).1 (entriesOf input).2 { next := w.next + bump }

/-- what a parse of `target` leaves in the process state: the registry cache remembers what it answered for the field
types it was asked about; the parser has resolved its forward references if they could all be resolved -/
def World.procAfter (w : World) (target : Nat) : Proc :=
  match w.env[target]? with
  | Option.none => w.proc
  | some d =>
    { regCache := d.fields.map (fun f => (f.ty, w.proc.resolve f.ty)) ++ w.proc.regCache,
      resolved := if d.scoped w.env.length then target :: w.proc.resolved else w.proc.resolved }

/-- what an instance holds under an attribute name: a Schema's item of that name, else the entry of `__dict__` -/
def readAttr (isDict : Bool) (fname : String) (ks : List String) (xs : List Val) : Option Val :=
  match (if isDict then lookupKV fname (ks.drop 1) (xs.drop 1) else Option.none) with
  | some v => some v
  | Option.none =>
    match xs with
    | .node _ .dict aks avs :: _ => lookupKV fname aks avs
    | _ => Option.none

/-- Attribute access on an instance.  Schema `__field_getter__` (schema.py): the item of that name, else the entry of
`__dict__` (a no_output field), else the *deferred* default — `get_default(options, defer=True)`, copied anew on every
access and not stored —, else AttributeError.  DataClass getter (cls.py `make_getter`): the entry of `__dict__`, else
AttributeError.  (For an instance built under the class's own options.) -/
def World.getattr (w : World) (r : Nat) (fname : String) : World × Outcome :=
  let fail : World × Outcome := ({ w with roots := w.roots ++ [Option.none] }, .skip)
  match w.root r with
  | some (.node _ (.inst k b) ks xs) =>
      match w.env[k]? with
      | Option.none => fail
      | some d =>
        match d.fields.find? (fun f => f.name == fname) with
        | Option.none => fail
        | some f =>
          match readAttr b fname ks xs with
          | some v => ({ w with roots := w.roots ++ [some v] }, .ok)
          | Option.none =>
            if b then
              match getDefaultAt true f.defer {} f.dflt { next := w.next } with
              | (some v, s1) => ({ w with next := s1.next, roots := w.roots ++ [some v] }, .ok)
              | (Option.none, _) => fail
            else fail
  | _ => fail

def World.stepWith (cp : Val → Comp) (optsOf : List (Option Opts) → Nat → Opts) (w : World) : Op → World × Outcome
  | .declare d bump => ({ w with env := w.env ++ [d], next := w.next + bump }, .ok)
  | .call target wrapper bump input ro =>
      let s : St := { next := w.next + bump }
      match w.callP optsOf target wrapper bump input ro with
      | (.ok r, s1) =>
          let w1 := { w with roots := w.roots ++ [some input] }.applyWrites s1.writes
          ({ w1 with next := s1.next, roots := w1.roots ++ [some r], proc := w.procAfter target }, .ok)
      | (.error e, s1) =>
          let w1 := { w with roots := w.roots ++ [some input] }.applyWrites s1.writes
          ({ w1 with next := s1.next, roots := w1.roots ++ [Option.none], proc := w.procAfter target }, .ofErr e)
  | .mutate i act => (w.writeAll i act.apply, .ok)
  | .setattr r fname v =>
      match w.root r with
      | some (.node i (.inst k b) ks xs) =>
          match w.env[k]? with
          | some d =>
              ((setattrWrites d fname v (.node i (.inst k b) ks xs)).foldl (fun w p => w.writeAll p.1 p.2) w, .ok)
          | Option.none => (w, .skip)
      | _ => (w, .skip)
  | .copy r =>
      match w.root r with
      | some v =>
          match cp v { next := w.next } with
          | (.ok c, s1) => ({ w with next := s1.next, roots := w.roots ++ [some c] }, .ok)
          | (.error _, _) => ({ w with roots := w.roots ++ [Option.none] }, .skip)
      | Option.none => ({ w with roots := w.roots ++ [Option.none] }, .skip)
  | .getattr r fname => w.getattr r fname

def World.step := World.stepWith schemaCopy effectiveOpts

def World.runWith (stp : World → Op → World × Outcome) : World → List Op → World × List Outcome
  | w, [] => (w, [])
  | w, op :: ops =>
      match stp w op with
      | (w1, o) => match World.runWith stp w1 ops with
        | (w2, os) => (w2, o :: os)

def World.run := World.runWith World.step

end Utv.C19
