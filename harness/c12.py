"""C12 — conversion preferences only restrict, and keep their promises.

Tie (T2): every case = (target class, source value) runs through the real `type_transform` under the four
combinations of `no_explicit_cast` / `no_data_loss` and through the Lean model `Utv.Conv.transformU`
(lean/Utv/Model/Conv.lean, driver op `c12`); outcomes are compared per flag combination.  The CPython builtins the
model takes as parameters (`Prims`) are answered interactively: the driver reports `prim-miss`, this module computes
the real builtin's answer and re-sends the line (so the harness never predicts which builtins the model calls).
T1: the word tables come from `Utv.Gen.Tables`; the format tables / registration flags copied into the model are
compared with the source text (`extra_static`).

Oracle (`spec`): the property in its own words, evaluated on what the implementation returned —
(1) whatever converts under a flag combination converts without flags to an equal value of the same type,
(2) the promises of no_data_loss, (3) the group rule of no_explicit_cast with the documented exceptions.

The codec / `ModelPool` / `impl_call` here are reusable by C01 and C04 (driver op `conv` = one converter call).
"""
from __future__ import annotations

import ast
import json
import math
import os
import random
import re
import signal
import subprocess
import sys
import threading
from collections import deque
from datetime import date, datetime, time, timedelta, timezone
from decimal import Decimal
from enum import Enum
from pathlib import Path
from uuid import UUID

from .common import LEAN, NCPU, REPO, Check

# ------------------------------------------------------------------------------------------------
# the class universe (the same classes exist in the generator process and in the workers)
# ------------------------------------------------------------------------------------------------


class SubInt(int): pass
class SubInt2(int): pass
class SubFloat(float): pass
class SubStr(str): pass
class SubBytes(bytes): pass
class SubByteArray(bytearray): pass
class SubList(list): pass
class SubTuple(tuple): pass
class SubSet(set): pass
class SubFrozenSet(frozenset): pass
class SubDeque(deque): pass
class SubDict(dict): pass
class SubDecimal(Decimal): pass
class SubDate(date): pass
class SubDatetime(datetime): pass
class SubTime(time): pass
class SubTimedelta(timedelta): pass
class SubUUID(UUID): pass
class Obj0:
    def __repr__(self): return "<Obj0>"
class Obj1:
    def __repr__(self): return "<Obj1>"
class Obj2:
    def __repr__(self): return "<Obj2>"


BASES = {"NoneType": type(None), "bool": bool, "int": int, "float": float, "complex": complex, "Decimal": Decimal,
         "str": str, "bytes": bytes, "bytearray": bytearray, "memoryview": memoryview, "list": list, "tuple": tuple,
         "set": set, "frozenset": frozenset, "deque": deque, "dict": dict, "date": date, "datetime": datetime,
         "time": time, "timedelta": timedelta, "UUID": UUID}
SUBS = {"int": [SubInt, SubInt2], "float": [SubFloat], "str": [SubStr], "bytes": [SubBytes], "bytearray": [SubByteArray],
        "list": [SubList], "tuple": [SubTuple], "set": [SubSet], "frozenset": [SubFrozenSet], "deque": [SubDeque],
        "dict": [SubDict], "Decimal": [SubDecimal], "date": [SubDate], "datetime": [SubDatetime], "time": [SubTime],
        "timedelta": [SubTimedelta], "UUID": [SubUUID]}
CLASS_TAG = {}
for _b, _c in BASES.items():
    CLASS_TAG[_c] = (_b, 0)
for _b, _l in SUBS.items():
    for _i, _c in enumerate(_l):
        CLASS_TAG[_c] = (_b, _i + 1)
OBJ_CLASSES = [Obj0, Obj1]
OBJS = [Obj0(), Obj1(), Obj2()]          # opaque objects (only a deterministic repr)
SEQ_KINDS = ("list", "tuple", "set", "frozenset", "deque")
BYTE_KINDS = ("bytes", "bytearray", "memoryview")

_ENUM_CACHE: dict = {}


def enum_classes(env):
    """the Enum classes an environment descriptor stands for (functional API; cached per descriptor)"""
    key = json.dumps(env, sort_keys=True)
    if key not in _ENUM_CACHE:
        out = []
        for k, d in enumerate(env):
            members = [(n, dec(v, None)) for n, v in d["members"]]
            if d.get("mt"):
                cls = Enum(f"E{k}", members, type=BASES[d["mt"]])
            else:
                cls = Enum(f"E{k}", members)
            out.append(cls)
        _ENUM_CACHE[key] = out
    return _ENUM_CACHE[key]


# ------------------------------------------------------------------------------------------------
# codec  Python value <-> JSON  (the protocol of lean/Utv/Util/ConvJson.lean)
# ------------------------------------------------------------------------------------------------

def enc_float(f: float):
    if math.isnan(f):
        return "nan"
    if math.isinf(f):
        return "inf" if f > 0 else "-inf"
    m, den = f.as_integer_ratio()
    e = -(den.bit_length() - 1)
    while m != 0 and m % 2 == 0:
        m //= 2
        e += 1
    if m == 0:
        e = 0
    return [str(m), str(e)]


def dec_float(j) -> float:
    if j == "nan":
        return float("nan")
    if j == "inf":
        return float("inf")
    if j == "-inf":
        return float("-inf")
    m, e = int(j[0]), int(j[1])
    try:
        return math.ldexp(m, e)
    except OverflowError:
        return float("inf") if m > 0 else float("-inf")


def enc_dec(d: Decimal):
    sign, digits, exp = d.as_tuple()
    if exp == "F":
        return "-inf" if sign else "inf"
    if exp == "n":
        return "nan"
    if exp == "N":
        return "snan"
    return [str(sign), str(int("".join(map(str, digits)) or "0")), str(exp)]


def dec_dec(j) -> Decimal:
    if isinstance(j, str):
        return Decimal({"inf": "Infinity", "-inf": "-Infinity", "nan": "NaN", "snan": "sNaN"}[j])
    s, c, e = int(j[0]), int(j[1]), int(j[2])
    return Decimal((s, tuple(int(ch) for ch in str(c)), e))


def _tz(x):
    off = x.utcoffset()
    return None if off is None else int(off.total_seconds())


def _c(d: dict, c: int) -> dict:
    if c:
        d["c"] = c
    return d


def enc(v, env_classes=None):
    """Python value -> JSON.  Values outside the modelled universe become {"x": <type name>}."""
    if v is None:
        return None
    t = type(v)
    if t is bool:
        return v
    if isinstance(v, Enum):
        if env_classes:
            for k, cls in enumerate(env_classes):
                if t is cls:
                    names = list(cls.__members__)
                    return {"e": [k, names.index(v.name)]}
        return {"x": "Enum"}
    for k, o in enumerate(OBJS):
        if v is o:
            return {"o": k}
    tag = CLASS_TAG.get(t)
    if tag is None:
        return {"x": t.__name__}
    b, c = tag
    if b == "int":
        return _c({"i": str(int(v))}, c)
    if b == "float":
        return _c({"f": enc_float(float(v))}, c)
    if b == "complex":
        return {"z": [enc_float(v.real), enc_float(v.imag)]}
    if b == "Decimal":
        return _c({"d": enc_dec(v)}, c)
    if b == "str":
        return _c({"s": str.__str__(v)}, c)
    if b in BYTE_KINDS:
        return _c({"b": bytes(v).hex(), "k": b}, c)
    if b in SEQ_KINDS:
        items = [enc(x, env_classes) for x in v]
        if b in ("set", "frozenset"):
            items.sort(key=vkey)
        return _c({"q": items, "k": b}, c)
    if b == "dict":
        return _c({"m": [[enc(k, env_classes), enc(x, env_classes)] for k, x in v.items()]}, c)
    if b == "datetime":
        return _c({"dt": [v.year, v.month, v.day, v.hour, v.minute, v.second, v.microsecond, _tz(v)]}, c)
    if b == "date":
        return _c({"date": [v.year, v.month, v.day]}, c)
    if b == "time":
        return _c({"tm": [v.hour, v.minute, v.second, v.microsecond, _tz(v)]}, c)
    if b == "timedelta":
        return _c({"td": str((v.days * 86400 + v.seconds) * 1000000 + v.microseconds)}, c)
    if b == "UUID":
        return _c({"u": str(int(v.int))}, c)
    return {"x": t.__name__}


def _cls(b: str, c: int):
    return BASES[b] if c == 0 else SUBS[b][c - 1]


def dec(j, env_classes=None):
    if j is None or isinstance(j, bool):
        return j
    c = j.get("c", 0)
    if "i" in j:
        return int(j["i"]) if c == 0 else _cls("int", c)(int(j["i"]))
    if "f" in j:
        return dec_float(j["f"]) if c == 0 else _cls("float", c)(dec_float(j["f"]))
    if "z" in j:
        return complex(dec_float(j["z"][0]), dec_float(j["z"][1]))
    if "d" in j:
        return dec_dec(j["d"]) if c == 0 else _cls("Decimal", c)(dec_dec(j["d"]))
    if "s" in j:
        return j["s"] if c == 0 else _cls("str", c)(j["s"])
    if "b" in j:
        raw = bytes.fromhex(j["b"])
        return _cls(j["k"], c)(raw)
    if "q" in j:
        items = [dec(x, env_classes) for x in j["q"]]
        return _cls(j["k"], c)(items)
    if "m" in j:
        return _cls("dict", c)((dec(k, env_classes), dec(v, env_classes)) for k, v in j["m"])
    if "date" in j:
        return _cls("date", c)(*j["date"])
    if "dt" in j:
        *parts, tz = j["dt"]
        return _cls("datetime", c)(*parts, tzinfo=None if tz is None else timezone(timedelta(seconds=tz)))
    if "tm" in j:
        *parts, tz = j["tm"]
        return _cls("time", c)(*parts, tzinfo=None if tz is None else timezone(timedelta(seconds=tz)))
    if "td" in j:
        return _cls("timedelta", c)(microseconds=int(j["td"]))
    if "u" in j:
        return _cls("UUID", c)(int=int(j["u"]))
    if "e" in j:
        cls = env_classes[j["e"][0]]
        return cls.__members__[list(cls.__members__)[j["e"][1]]]
    if "o" in j:
        return OBJS[j["o"]]
    raise ValueError(f"undecodable {j}")


def target_class(t, env_classes):
    if "cls" in t:
        return _cls(t["cls"], t.get("sub", 0))
    if "enum" in t:
        return env_classes[t["enum"]]
    if "abc" in t:
        import collections.abc as abc
        return {"sequence": abc.Sequence, "iterable": abc.Iterable, "iterator": abc.Iterator, "mapping": abc.Mapping}[t["abc"]]
    return OBJ_CLASSES[t["obj"]]


# keys of prim-table entries — must agree with `fkey/dkey/vkey` in ConvJson.lean

def fkey(j) -> str:
    return j if isinstance(j, str) else f"{j[0]}p{j[1]}"


def dkey(j) -> str:
    return j if isinstance(j, str) else f"{j[0]}:{j[1]}:{j[2]}"


def _tzk(x):
    return "n" if x is None else str(x)


def vkey(j) -> str:
    if j is None:
        return "N"
    if j is True:
        return "T"
    if j is False:
        return "F"
    c = j.get("c", 0)
    if "i" in j:
        return f"i{c}:{j['i']}"
    if "f" in j:
        return f"f{c}:{fkey(j['f'])}"
    if "z" in j:
        return f"z:{fkey(j['z'][0])}:{fkey(j['z'][1])}"
    if "d" in j:
        return f"d{c}:{dkey(j['d'])}"
    if "s" in j:
        return f"s{c}:{len(j['s'])}:{j['s']}"
    if "b" in j:
        return f"b{j['k']}{c}:{j['b']}"
    if "q" in j:
        return f"q{j['k']}{c}[" + ",".join(vkey(x) for x in j["q"]) + "]"
    if "m" in j:
        return f"m{c}" + "{" + ",".join(vkey(k) + "=" + vkey(v) for k, v in j["m"]) + "}"
    if "date" in j:
        y, m, d = j["date"]
        return f"D{c}:{y}-{m}-{d}"
    if "dt" in j:
        return f"DT{c}:" + "-".join(str(x) for x in j["dt"][:7]) + "-" + _tzk(j["dt"][7])
    if "tm" in j:
        return f"TM{c}:" + "-".join(str(x) for x in j["tm"][:4]) + "-" + _tzk(j["tm"][4])
    if "td" in j:
        return f"TD{c}:{j['td']}"
    if "u" in j:
        return f"U{c}:{j['u']}"
    if "e" in j:
        return f"e{j['e'][0]}:{j['e'][1]}"
    if "o" in j:
        return f"o{j['o']}"
    return "x:" + json.dumps(j, sort_keys=True)


def canon(j):
    """canonical form for comparing outcomes: set elements sorted (they come out of a hash table)"""
    if isinstance(j, dict):
        if "q" in j:
            items = [canon(x) for x in j["q"]]
            if j.get("k") in ("set", "frozenset"):
                items.sort(key=vkey)
            return dict(j, q=items)
        if "m" in j:
            return dict(j, m=[[canon(k), canon(v)] for k, v in j["m"]])
        if "d" in j and isinstance(j["d"], list) and j["d"][1] == "0":
            return dict(j, d=["0", "0", j["d"][2]])        # the float codec has no -0.0, so -0 Decimals are folded too
        return {k: canon(v) for k, v in j.items()}
    if isinstance(j, list):
        return [canon(x) for x in j]
    return j


# ------------------------------------------------------------------------------------------------
# adapter: the real public API, in worker processes
# ------------------------------------------------------------------------------------------------

class _Hang(BaseException):
    pass


def _alarm(sig, frm):
    raise _Hang()


FLAG_KEYS = [("ff", False, False), ("ft", False, True), ("tf", True, False), ("tt", True, True)]   # nec, ndl
HANG_S = 2.0          # CPU seconds (ITIMER_VIRTUAL): a loaded machine must not look like a hang


def impl_call(tcls, value, nec, ndl, envc, unresolved="throw"):
    """one real conversion -> (outcome json, result object or None)"""
    from utype import Options, type_transform
    signal.signal(signal.SIGVTALRM, _alarm)
    signal.setitimer(signal.ITIMER_VIRTUAL, HANG_S)
    try:
        try:
            r = type_transform(value, tcls, options=Options(no_explicit_cast=nec, no_data_loss=ndl, unresolved_types=unresolved))
        finally:
            signal.setitimer(signal.ITIMER_VIRTUAL, 0)
    except _Hang:
        return {"diverge": True}, None
    except RecursionError:
        return {"escape": "RecursionError"}, None
    except TypeError:
        return {"perr": "TypeError"}, None
    except ValueError:
        return {"perr": "ValueError"}, None
    except Exception as e:
        return {"escape": type(e).__name__}, None
    return {"ok": enc(r, envc)}, r


def _isnan(x) -> bool:
    if isinstance(x, float):
        return math.isnan(x)
    if isinstance(x, Decimal):
        return x.is_nan()
    return False


def _same(a, b) -> bool:
    """`a == b` and same class (a NaN counts as equal to a NaN: there is nothing else to compare it by)"""
    if type(a) is not type(b):
        return False
    if _isnan(a) or _isnan(b):
        return _isnan(a) and _isnan(b)
    if isinstance(a, complex):
        return _same(a.real, b.real) and _same(a.imag, b.imag)
    try:
        if isinstance(a, (list, tuple, deque)):
            return len(a) == len(b) and all(_same(x, y) for x, y in zip(a, b))
        if isinstance(a, (set, frozenset)) and len(a) == len(b) == 1:
            return _same(next(iter(a)), next(iter(b)))
        if isinstance(a, dict):
            return len(a) == len(b) and all(_same(ka, kb) and _same(va, vb) for (ka, va), (kb, vb) in zip(a.items(), b.items()))
        return bool(a == b)
    except Exception:
        return False


def impl(case):
    if case.get("op") == "parse":
        return impl_parse(case)
    if case.get("op") == "union":
        return impl_union(case)
    envc = enum_classes(case["env"])
    tcls = target_class(case["target"], envc)
    out = {}
    results = {}
    for key, nec, ndl in FLAG_KEYS:
        value = dec(case["value"], envc)
        out[key], results[key] = impl_call(tcls, value, nec, ndl, envc, case.get("unresolved", "throw"))
    for key in ("ft", "tf", "tt"):
        if "ok" in out[key] and "ok" in out["ff"]:
            out["same_" + key] = _same(results["ff"], results[key])
    return out


# ------------------------------------------------------------------------------------------------
# CPython builtins for the model's `Prims`, answered on demand
# ------------------------------------------------------------------------------------------------

_BASE_FORMATS = None


def source_tables():
    """literal tables of TypeTransformer read from the source text (nothing is imported from the repo)"""
    global _BASE_FORMATS
    if _BASE_FORMATS is None:
        src = (REPO / "utype" / "utils" / "transform.py").read_text()
        tree = ast.parse(src)
        consts = {}
        tabs = {}
        for node in tree.body:
            if isinstance(node, ast.ClassDef) and node.name == "DateFormat":
                for s in node.body:
                    if isinstance(s, ast.Assign) and isinstance(s.value, ast.Constant):
                        consts[s.targets[0].id] = s.value.value
            if isinstance(node, ast.ClassDef) and node.name == "TypeTransformer":
                for s in node.body:
                    if isinstance(s, ast.Assign) and isinstance(s.targets[0], ast.Name) and s.targets[0].id in ("DATE_FORMATS", "DATETIME_FORMATS", "NULL_VALUES", "TRUE_VALUES", "FALSE_VALUES"):
                        vals = []
                        for e in s.value.elts:
                            if isinstance(e, ast.Constant):
                                vals.append(e.value)
                            elif isinstance(e, ast.Attribute):
                                vals.append(consts.get(e.attr))
                        tabs[s.targets[0].id] = vals
                regs = []
                for s in node.body:
                    if isinstance(s, ast.FunctionDef):
                        for d in s.decorator_list:
                            if isinstance(d, ast.Call) and isinstance(d.func, ast.Attribute) and d.func.attr == "register":
                                names = [ast.unparse(a) for a in d.args]
                                kws = {k.arg: ast.unparse(k.value) for k in d.keywords}
                                regs.append([s.name, names, kws.get("allow_subclasses", "True")])
                tabs["registrations"] = regs
        _BASE_FORMATS = tabs
    return _BASE_FORMATS


_DUR = None


def duration_regs():
    global _DUR
    if _DUR is None:
        if str(REPO) not in sys.path:
            sys.path.insert(0, str(REPO))
        from utype.utils.transform import TypeTransformer
        _DUR = TypeTransformer.DURATION_REGS
    return _DUR


def _out(fn, encode):
    try:
        r = fn()
    except RecursionError:
        return {"escape": "RecursionError"}
    except json.JSONDecodeError:
        return {"perr": "JSONDecodeError"}
    except TypeError:
        return {"perr": "TypeError"}
    except ValueError:
        return {"perr": "ValueError"}
    except Exception as e:
        return {"escape": type(e).__name__}
    try:
        return {"ok": encode(r)}
    except Exception as e:
        return {"unmodelled": f"unencodable builtin result: {type(e).__name__}"}


def resolve_prim(prim: str, arg, envc) -> list:
    """[(table, key, outcome)] — the real builtin's answer for a `prim-miss`"""
    E = lambda v: enc(v, envc)
    D = lambda j: dec(j, envc)
    if prim == "decode":
        strict, hx = arg
        raw = bytes.fromhex(hx)
        return [("decode", ("1" if strict else "0") + hx, _out(lambda: raw.decode(errors="strict" if strict else "ignore"), str))]
    if prim == "strOf":
        return [("strOf", vkey(arg), _out(lambda: str(D(arg)), str))]
    if prim == "floatOfStr":
        return [("floatOfStr", arg, _out(lambda: float(arg), enc_float))]
    if prim == "floatOfInt":
        return [("floatOfInt", arg, _out(lambda: float(int(arg)), enc_float))]
    if prim == "floatOfDec":
        return [("floatOfDec", dkey(arg), _out(lambda: float(dec_dec(arg)), enc_float))]
    if prim == "decOfStr":
        return [("decOfStr", arg, _out(lambda: Decimal(arg), enc_dec))]
    if prim == "decOfFloatRepr":
        return [("decOfFloatRepr", fkey(arg), _out(lambda: Decimal(str(dec_float(arg))), enc_dec))]
    if prim == "complexOf":
        return [("complexOf", vkey(arg), _out(lambda: complex(D(arg)), E))]
    if prim == "complexOf2":
        return [("complexOf2", vkey(arg[0]) + "|" + vkey(arg[1]), _out(lambda: complex(D(arg[0]), D(arg[1])), E))]
    if prim == "timestampOf":
        return [("timestampOf", vkey(arg), _out(lambda: D(arg).timestamp(), enc_float))]
    if prim == "totalSeconds":
        return [("totalSeconds", arg, _out(lambda: timedelta(microseconds=int(arg)).total_seconds(), enc_float))]
    if prim == "div1000":
        return [("div1000", vkey(arg), _out(lambda: D(arg) / 1000, E))]
    if prim == "utcFromTs":
        return [("utcFromTs", vkey(arg), _out(lambda: datetime.utcfromtimestamp(D(arg)).replace(tzinfo=timezone.utc), E))]
    if prim == "strptime":
        tabs = source_tables()
        per = {}
        for fmt in tabs["DATE_FORMATS"] + tabs["DATETIME_FORMATS"]:
            for suffix in ("", " %z", "%z"):
                o = _out(lambda: datetime.strptime(arg, fmt + suffix), E)
                if "perr" not in o:
                    per[fmt + suffix] = o
        return [("strptime", arg, per)]
    if prim == "timeFromIso":
        return [("timeFromIso", arg, _out(lambda: time.fromisoformat(arg), E))]
    if prim == "uuidOfStr":
        return [("uuidOfStr", arg, _out(lambda: UUID(arg).int, str))]
    if prim == "jsonLoads":
        strict, s = arg
        return [("jsonLoads", ("1" if strict else "0") + s, _out(lambda: json.loads(s, strict=strict), E))]
    if prim == "literalEval":
        return [("literalEval", arg, _out(lambda: ast.literal_eval(arg), E))]
    if prim == "parseQs":
        from urllib.parse import parse_qs
        return [("parseQs", arg, _out(lambda: parse_qs(arg), E))]
    if prim == "durationMatch":
        i, s = arg

        def run():
            m = duration_regs()[i].match(s)
            return None if m is None else [[k, v] for k, v in m.groupdict().items()]
        return [("durationMatch", f"{i}:{s}", _out(run, lambda x: x))]
    if prim == "timedeltaKw":
        sign, kw = arg
        key = f"{sign};" + ";".join(f"{k}={fkey(f)}" for k, f in kw)
        return [("timedeltaKw", key, _out(lambda: sign * timedelta(**{k: dec_float(f) for k, f in kw}), E))]
    if prim == "timedeltaSec":
        return [("timedeltaSec", fkey(arg), _out(lambda: timedelta(seconds=dec_float(arg)), E))]
    if prim == "initObj":
        k, v = arg
        return [("initObj", f"{k}|{vkey(v)}", _out(lambda: OBJ_CLASSES[k](D(v)), E))]
    raise ValueError("unknown prim " + prim)


def _has_unencodable(j) -> bool:
    if isinstance(j, dict):
        return "x" in j or any(_has_unencodable(v) for v in j.values())
    if isinstance(j, list):
        return any(_has_unencodable(v) for v in j)
    return False


class ModelProc:
    """one `lake env lean --run drivers/C12.lean` co-process; answers prim misses interactively"""

    def __init__(self, driver="C12"):
        self.p = subprocess.Popen(["lake", "env", "lean", "--run", f"drivers/{driver}.lean"], cwd=LEAN,
                                  stdin=subprocess.PIPE, stdout=subprocess.PIPE, stderr=subprocess.DEVNULL, text=True)

    def ask(self, line: dict):
        self.p.stdin.write(json.dumps(line, sort_keys=True) + "\n")
        self.p.stdin.flush()
        ans = self.p.stdout.readline()
        if not ans:
            raise RuntimeError("driver died")
        return json.loads(ans)

    def run(self, case: dict, max_rounds: int = 200):
        envc = enum_classes(case.get("env", []))
        line = dict(case)
        line.setdefault("prims", {})
        prims = line["prims"] = json.loads(json.dumps(line["prims"]))
        for _ in range(max_rounds):
            ans = self.ask(line)
            miss = _find_miss(ans)
            if miss is None:
                return ans
            try:
                m = json.loads(miss[len("prim-miss:"):])
                for table, key, outcome in resolve_prim(m["prim"], m["arg"], envc):
                    if _has_unencodable(outcome):
                        outcome = {"unmodelled": "builtin result outside the value universe"}
                    prims.setdefault(table, {})[key] = outcome
            except Exception as e:  # the harness could not compute the builtin: leave the miss visible
                return {"driver-error": f"prim resolution failed: {type(e).__name__}: {e}", "answer": ans}
        return {"driver-error": "too many prim rounds"}

    def close(self):
        try:
            self.p.stdin.close()
            self.p.wait(timeout=10)
        except Exception:
            self.p.kill()


def _find_miss(ans):
    if isinstance(ans, dict):
        u = ans.get("unmodelled")
        if isinstance(u, str) and u.startswith("prim-miss:"):
            return u
        for v in ans.values():
            m = _find_miss(v)
            if m:
                return m
    return None


def run_model(cases: list, jobs: int | None = None, driver: str = "C12") -> list:
    """the Lean model's answers for `cases` (list of driver lines), in order"""
    if not cases:
        return []
    jobs = max(1, min(jobs or NCPU, (len(cases) + 99) // 100))
    out = [None] * len(cases)

    def work(i):
        mp = None
        try:
            mp = ModelProc(driver)
            for k in range(i, len(cases), jobs):
                try:
                    out[k] = mp.run(cases[k])
                except Exception as e:
                    out[k] = {"driver-error": f"{type(e).__name__}: {e}"}
                    mp.close()
                    mp = ModelProc(driver)
        finally:
            if mp:
                mp.close()

    ths = [threading.Thread(target=work, args=(i,)) for i in range(jobs)]
    [t.start() for t in ths]
    [t.join() for t in ths]
    return out


# ------------------------------------------------------------------------------------------------
# generator
# ------------------------------------------------------------------------------------------------

def _e(v):
    return enc(v, None)


# enum environment shared by all cases: [plain with a name/value clash, plain with an alias, int mixin, str mixin,
# float mixin, plain with an unhashable value]
ENV = [
    {"mt": None, "members": [["A", _e("B")], ["B", _e("C")]]},
    {"mt": None, "members": [["A", _e(1)], ["B", _e(2)], ["C", _e(1)]]},
    {"mt": "int", "members": [["z", _e(0)], ["a", _e(1)], ["b", _e(2)], ["true", _e(5)]]},
    {"mt": "str", "members": [["x", _e("a")], ["y", _e("true")], ["a", _e("x")]]},
    {"mt": "float", "members": [["h", _e(0.5)], ["o", _e(1.0)]]},
    {"mt": None, "members": [["L", _e([1])], ["N", _e(None)]]},
]

UID = UUID("12345678-1234-5678-1234-567812345678")
DT = datetime(2022, 1, 2, 21, 22, 23)


def source_pools() -> dict:
    """source kind -> representative values (Python objects; encoded by the caller)"""
    aware = DT.replace(tzinfo=timezone.utc)
    p = {
        "none": [None],
        "bool": [True, False],
        "int": [0, 1, 2, -1, 7, 10, 123, 10 ** 20, 20000000000, 20000000001, 1641158543, 1641158543000, 2 ** 128,
                2 ** 128 - 1, -5, 86400, SubInt(3), SubInt(0), SubInt2(1)],
        "float": [0.0, 1.0, 2.0, -1.5, 3.7, 10.1, 1e22, 1641158543.5, 0.1, 86400.0, 12.3456, 2.5e10, SubFloat(2.5),
                  SubFloat(0.0), float("nan"), 1e300],
        "float_inf": [float("inf"), float("-inf")],
        "decimal": [Decimal("0"), Decimal("1"), Decimal("1.0"), Decimal("3.0"), Decimal("3.5"), Decimal("1E+2"),
                    Decimal("-0.3"), Decimal("0.14"), Decimal("1641158543"), Decimal("0.0"), Decimal("NaN"),
                    Decimal("sNaN"), Decimal("12"), SubDecimal("2"), Decimal("1E+30")],
        "decimal_inf": [Decimal("Infinity"), Decimal("-Infinity")],
        "complex": [0j, 1 + 0j, -1.3 + 0j, 1 + 2j, 3.0 + 0j],
        "str_num": ["0", "1", "123", "10.1", "10.100", "-1.24", "1e2", " 12 ", "nan", "1_0", "5.1234567", "",
                    "-2169770310306829106111111111111111111111111.12", "3.0", "-0.5", "1641158543000.0", "+5", "0x10",
                    "１２", "12\n"],
        "str_inf": ["inf", "-Infinity", "INF"],
        "str_word": ["true", "FALSE", "yes", "off", "t", "y", "f", "no", "on", "True", "null", "None", "nil", "Nil",
                     "NULL", "maybe", "n"],
        "str_date": ["2020-02-20", "2020-02-20 10:11:12", "2020-02-20 00:00:00", "2020-02-20T10:11:12Z",
                     "Fri, 10 Mar 2023 17:25:08 +0800", "2023-10-09T20:41:59+08:00", "2023-10-09T00:00:00+08:00",
                     "20/02/2020", "20200220", "Thu, 20 Feb 2020", "2022-01-02 21:22:23 GMT", "2022/1/02", "20 Feb 2020",
                     "2022-01-02 21:22:23.123456", "2022-01-02 09:22:23 PM", "2022-01-02T21:22:23.5", "2020-02-20 10:11",
                     "Jan 02 21:22:23 2022", "2020-02-30", "2022-01-02 21:22:23 UTC", "2022-01-02T21:22:23TZD",
                     "2022-01-02 21:22:23-05:00", "2020-02-20 00:00:05", "2020-02-20 00:00:00.000001", "2020-02-20T00:00:07",
                     "2020-02-20 00:01", "Thu, 20 Feb 2020 00:00:09"],
        "str_time": ["11:12:13", "8:9:10", "8:30", "00:00", "11:12:13.5", "25:00", "11:12:13+08:00", "1:2:3:4"],
        "str_dur": ["P1DT00H00M00S", "1 day, 0:00:05", "1:30:00", "PT5M", "3 10:00:00.5", "-P2D", "P1.5D", "0:0:5",
                    "10 0:00", "-10.1", "0", "5.123456"],
        "str_struct": ["[1,2]", "(1,2)", "{1,2}", "{}", "[]", "()", '{"a": 1}', "{1: 2}", "{1:2}", "a,b", "a, b, c", "a;b;c",
                       "a; b; c", "k1=v1&k2=v2", "k1=v1;k2=v2", "k1=v1; k2=v2; k3=v3", "k1=v1, k2=v2",
                       "title=A=B;url=https://example.com?id=1234", '{"a": true, "b": null}', "[1, 2", "[abc]", "[a b]",
                       '{"a": "x\ty"}', '{"a": "\\/\t"}', "[[1,2]]", '[["a", 1], ["b", 2]]', "(1)", "(1,)", " [1,2] ",
                       '{"a":1,"a":2}', "[1.5, null]", "a=1&a=2", '"abc"', "[1e999]", "{'a': 1}", "a=b"],
        "str_uuid": [str(UID), str(UID).upper(), UID.hex, "urn:uuid:" + str(UID), "{" + str(UID) + "}", "not-a-uuid"],
        "str_misc": ["value", "abc", "Some Value", " ", "A", "B", "C", "a", "x", "z", "测试", "L", "h", "o", "0.5", "GMT",
                     "Z", "T"],
        "bytes": [b"", b"std", b"123", b"-0.3", b"10.1", b"true", b"null", b"2020-02-20", b"2020-02-20 10:11:12",
                  b"11:12:13", b"P1DT00H00M00S", b"(1,2)", b"a, b", b'{"a": 1}', b"{1: 2}", str(UID).encode(),
                  UID.bytes, b"\xff1", "测试1".encode("gbk"), b"\xe6\xb5\x8b", b"\xe6\xb5", b"1\xc0\xaf2", b"\xed\xa0\x80",
                  b"-10.1", SubBytes(b"12"), b"B", b"a", b"1+3j", b"0", b"2020-02-20 00:00:05"],
        "bytearray": [bytearray(b""), bytearray(b"123"), bytearray(b"true"), bytearray(b"\xff1"), bytearray(b"a,b"),
                      bytearray(UID.bytes), bytearray(b"2020-02-20"), SubByteArray(b"7")],
        "memoryview": [memoryview(b"123"), memoryview(b""), memoryview(b"\xff"), memoryview(b"true")],
        "list": [[], ["a"], ["a", "b"], [10], [10, 11], [b"-0.3"], [("a", 1), ("b", 2)], [["a", 1], ["b", 2]],
                 [{"a": 1}], [{"a": 1}, {"b": 2}], [{"a": 1, "b": 2}], ["ab", "cd"], [[1, 2]], [None], [True], ["2020-02-20"],
                 [3.5], [3.0], [0], [1], ["true"], [b"\xff1"], [DT], [1, 2, 3], [("a", [1])], [([1], 2)], [[["a", "b"]]],
                 [{"a": 1, "b": 2}, {"c": 3, "d": 4}], ["B"], [0j], SubList([1, 2]), SubList([]), [[]], [""], ["11:12:13"]],
        "tuple": [(), (1, 2), (3, 4.5), ("a",), (("a", 1),), ("ab", "cd"), (1,), (None,), ("1", "2"), SubTuple((1, 2)),
                  ((1, 2), (3, 4)), (0,), (b"x", b"y")],
        "set": [set(), {1}, {"a"}, {("a", 1)}, {1, 2}, {"ab"}, SubSet({3})],
        "frozenset": [frozenset(), frozenset({1}), frozenset({("ab", "cd")}), frozenset({1, 2}), frozenset({"ab"}),
                      SubFrozenSet({3})],
        "deque": [deque(), deque([1]), deque([1, 2]), deque([["ab", "cd"]]), deque(["ab"]), SubDeque([1])],
        "dict": [{}, {"a": 1}, {"a": 1, "b": 2}, {1: 2}, SubDict({"a": 1}), SubDict(), {"a": {"b": 1}}, {None: 1}],
        "date": [date(2020, 2, 20), date(1970, 1, 1), SubDate(2020, 2, 20)],
        "datetime": [DT, aware, datetime(2022, 1, 2), datetime(2022, 1, 2, tzinfo=timezone.utc),
                     DT.replace(tzinfo=timezone(timedelta(hours=8))), SubDatetime(2022, 1, 2, 3, 4, 5),
                     datetime(2022, 1, 2, 0, 0, 0, 1)],
        "time": [time(11, 12, 13), time(0, 0), time(11, 12, 13, tzinfo=timezone.utc), SubTime(1, 2, 3), time(0, 0, 0, 5)],
        "timedelta": [timedelta(0), timedelta(hours=1), timedelta(hours=1, milliseconds=200), timedelta(seconds=-10.1),
                      timedelta(days=3), SubTimedelta(seconds=5)],
        "uuid": [UID, SubUUID(int=5), UUID(int=0)],
        # boundary values around every unit a converter tests.  Emitted for EVERY matching target in the quick tier too
        # (BOUNDARY_TARGETS), not sampled: midnight +- one microsecond / half a second / one second as text, bytes,
        # aware text, float / int / Decimal timestamps in seconds and in milliseconds, the ms watershed 2e10 +- 1
        "b_midnight": ["2020-02-20 00:00:00", "2020-02-20 00:00:00.5", "2020-02-20 00:00:00.000001", "2020-02-20 00:00:00.999999",
                       "2020-02-20 00:00:01", "2020-02-19 23:59:59.999999", "2020-02-20T00:00:00.75+08:00", "2020-02-20T00:00:00+08:00",
                       "2020-02-20 00:00:00 +0800", "2020-02-20T00:00:00Z", "2020-02-20T00:00:00.25Z", "2020-02-20 00:00:00.5 GMT",
                       b"2020-02-20 00:00:00.25", b"2020-02-20 00:00:00", ["2020-02-20 00:00:00.5"], "2020-02-20 12:00:00 AM",
                       "2020-02-20 00:00", "2020-02-20 00:01", "00:00:00.5", "00:00:00", "00:00:00.000001"],
        "b_timestamp": [1582156800, 1582156800.0, 1582156800.5, 1582156800.000001, 1582156799.999999, 1582156801, 1582156799,
                        1582156800000, 1582156800001, 1582156800000.5, 1582156800500, 1582156800000000, 1582156800000001,
                        Decimal("1582156800"), Decimal("1582156800.5"), Decimal("1582156800.000001"), "1582156800", "1582156800.5",
                        "1582156800000", "1582156800001", b"1582156800.25", 20000000000, 20000000001, 19999999999, 20000000000.5,
                        -20000000001, 86400, 86400.25, 86399.999999, 0, 0.5, -0.5, 0.000001, -86400, [1582156800.5], 1582156800 + 8 * 3600],
        "b_datetime": [datetime(2020, 2, 20), datetime(2020, 2, 20, 0, 0, 0, 1), datetime(2020, 2, 20, 0, 0, 0, 500000),
                       datetime(2020, 2, 20, 0, 0, 1), datetime(2020, 2, 20, tzinfo=timezone(timedelta(hours=8))),
                       datetime(2020, 2, 20, 0, 0, 0, 250000, tzinfo=timezone.utc), datetime(2020, 2, 19, 23, 59, 59, 999999)],
        # x.0 vs x.5 and one ulp around it for the integral / boolean tests; 2^53 +- 1; the UUID range ends
        "b_number": [3.0, 3.5, 2.9999999999999996, 3.0000000000000004, 1.0000000000000002, 0.9999999999999999, 1.0, 0.0, 5e-324,
                     float(2 ** 53), float(2 ** 53) + 2, 2 ** 53 + 1, Decimal("3.0"), Decimal("3.00"), Decimal("3.5"), Decimal("3E+0"),
                     Decimal("30E-1"), Decimal("1.0"), Decimal("1.00000000000000000001"), Decimal("0E-10"), "3.0", "3.5", "3",
                     b"3.0", [3.0], [3.5], 2 ** 128 - 1, 2 ** 128, -1, 1 + 0j, 1 + 1e-300j, 0.5 + 0j],
        "enum_plain": [("e", 0, 0), ("e", 0, 1), ("e", 1, 0), ("e", 1, 1), ("e", 5, 0), ("e", 5, 1)],
        "enum_mixin": [("e", 2, 0), ("e", 2, 1), ("e", 3, 0), ("e", 3, 1), ("e", 4, 0), ("e", 4, 1)],
        "object": [("o", 0), ("o", 1), ("o", 2)],
    }
    return p


def pool_json() -> dict:
    out = {}
    for kind, vals in source_pools().items():
        js = []
        for v in vals:
            if isinstance(v, tuple) and len(v) >= 2 and v[0] == "e" and isinstance(v[1], int) and len(v) == 3:
                js.append({"e": [v[1], v[2]]})
            elif isinstance(v, tuple) and len(v) == 2 and v[0] == "o" and isinstance(v[1], int):
                js.append({"o": v[1]})
            else:
                js.append(_e(v))
        out[kind] = js
    return out


def all_targets() -> list:
    ts = []
    for b in BASES:
        ts.append({"cls": b, "sub": 0})
        for i in range(len(SUBS.get(b, []))):
            ts.append({"cls": b, "sub": i + 1})
    for k in range(len(ENV)):
        ts.append({"enum": k})
    for a in ("sequence", "iterable", "iterator", "mapping"):
        ts.append({"abc": a})
    ts.append({"obj": 0})
    return ts


def tname(t) -> str:
    if "seq" in t:
        return f"{t['k']}[{tname(t['seq'])}]"
    if "map" in t:
        return f"dict[{tname(t['map'][0])},{tname(t['map'][1])}]"
    if "tup" in t:
        return "tuple[" + ",".join(tname(x) for x in t["tup"]) + "]"
    if "cons" in t:
        return f"{tname(t['cons'])}({t['c'][0]}={t['c'][1]})"
    if "cls" in t:
        return t["cls"] + ("" if not t.get("sub") else f"#{t['sub']}")
    if "enum" in t:
        return f"enum{t['enum']}"
    if "abc" in t:
        return "abc." + t["abc"]
    return f"obj{t['obj']}"


def mk_case(target, value):
    return {"op": "c12", "target": target, "value": value, "env": ENV}


WORDS = ["true", "false", "yes", "no", "on", "off", "t", "f", "y", "n", "1", "0", "null", "none", "nil", "maybe"]
FMTS = ["%Y-%m-%d", "%d %b %Y", "%d %B %Y", "%Y/%m/%d", "%d/%m/%Y", "%m/%d/%Y", "%d-%m-%Y", "%A, %d %B %Y", "%a, %d %b %Y",
        "%Y%m%d", "%Y-%m-%d %H:%M:%S", "%Y-%m-%d %H:%M:%S.%f", "%Y-%m-%d %I:%M:%S %p", "%Y-%m-%dT%H:%M:%S",
        "%Y-%m-%dT%H:%M:%S.%f", "%a, %d %b %Y %H:%M:%S", "%a %b %d %H:%M:%S %Y", "%b %d %H:%M:%S %Y", "%Y-%m-%d %H:%M",
        "%Y-%m-%dT%H:%M:%SZ", "%a, %d %b %Y %H:%M:%S GMT", "%Y-%m-%dT%H:%M:%S+08:00", "%Y-%m-%d %H:%M:%S +0800", "%H:%M:%S",
        "%H:%M"]


def random_value(rng: random.Random, depth=0):
    """a random source value (Python object) built from the repo's own vocabulary"""
    r = rng.random()
    if r < 0.10:
        return rng.choice([0, 1, -1, rng.randrange(-50, 50), rng.randrange(10 ** 9, 2 * 10 ** 9), rng.randrange(10 ** 12, 2 * 10 ** 12),
                           rng.randrange(2 ** 127, 2 ** 129), 2 * 10 ** 10 + rng.randrange(-1, 2)])
    if r < 0.20:
        return rng.choice([float(rng.randrange(-5, 5)), rng.randrange(-1000, 1000) / 8, rng.random() * 10 ** rng.randrange(0, 13),
                           float(rng.randrange(10 ** 9, 2 * 10 ** 9)), rng.randrange(1, 99) / 10])
    if r < 0.28:
        return Decimal(rng.choice(["%d" % rng.randrange(-20, 20), "%d.%d" % (rng.randrange(0, 20), rng.randrange(0, 100)),
                                   "%d.0" % rng.randrange(0, 5), "%dE+%d" % (rng.randrange(1, 9), rng.randrange(0, 4)),
                                   "%dE-%d" % (rng.randrange(1, 99), rng.randrange(0, 3))]))
    if r < 0.60:
        k = rng.random()
        if k < 0.2:
            w = rng.choice(WORDS)
            return "".join(ch.upper() if rng.random() < 0.4 else ch for ch in w)
        if k < 0.45:
            # time of day: often midnight, often only one small component set (the boundary of "timed")
            tod = rng.choice([(0, 0, 0, 0), (0, 0, 0, 0), (0, 0, rng.randrange(1, 60), 0), (0, rng.randrange(1, 60), 0, 0),
                              (0, 0, 0, rng.randrange(1, 10 ** 6)), (rng.randrange(0, 24), rng.randrange(0, 60), rng.randrange(0, 60), 0),
                              (rng.randrange(0, 24), rng.randrange(0, 60), rng.randrange(0, 60), rng.randrange(0, 10 ** 6))])
            d = datetime(rng.randrange(1971, 2037), rng.randrange(1, 13), rng.randrange(1, 29), *tod)
            return d.strftime(rng.choice(FMTS))
        if k < 0.65:
            s = rng.choice(["%d", "%d.%d", "-%d.%d", "%de%d", " %d", "%d.%d00", "0%d", "%d_%d"])
            n = s.count("%d")
            if "e" in s:        # keep exponents small: 10**9999999 is a day's work for str()
                return s % (rng.randrange(0, 10 ** rng.randrange(1, 8)), rng.randrange(0, 40))
            return s % tuple(rng.randrange(0, 10 ** rng.randrange(1, 8)) for _ in range(n))
        if k < 0.8:
            return rng.choice(["%d:%02d:%02d" % (rng.randrange(0, 30), rng.randrange(0, 60), rng.randrange(0, 60)),
                               "P%dDT%dH%dM%dS" % (rng.randrange(0, 9), rng.randrange(0, 30), rng.randrange(0, 70), rng.randrange(0, 70)),
                               "%d %d:%02d:%02d.%d" % (rng.randrange(0, 9), rng.randrange(0, 24), rng.randrange(0, 60), rng.randrange(0, 60), rng.randrange(0, 10 ** rng.randrange(1, 9))),
                               "%d.%d" % (rng.randrange(0, 10 ** rng.randrange(1, 12)), rng.randrange(0, 10 ** rng.randrange(1, 9))),
                               "-%d.%d" % (rng.randrange(0, 100), rng.randrange(0, 10 ** 7))])
        if k < 0.92:
            items = [rng.choice(["a", "b", "1", "2", "x y", ""]) for _ in range(rng.randrange(1, 4))]
            form = rng.choice(["[%s]", "(%s)", "{%s}", "%s", " %s ", "[%s"])
            sep = rng.choice([",", ", ", ";", "; "])
            return form % sep.join(items)
        return "".join(rng.choice("abAB01 ,;=&:[]{}Zz") for _ in range(rng.randrange(0, 6)))
    if r < 0.70:
        v = random_value(rng, depth + 1)
        if isinstance(v, str):
            try:
                raw = v.encode(rng.choice(["utf-8", "utf-8", "utf-8", "latin-1"]))
            except Exception:
                raw = v.encode()
            if rng.random() < 0.2:
                pos = rng.randrange(0, len(raw) + 1)
                raw = raw[:pos] + rng.choice([b"\xff", b"\xc3", b"\xe6\xb5", b"\xed\xa0\x80", b"\xf0\x9f"]) + raw[pos:]
            return rng.choice([bytes, bytes, bytearray])(raw)
        return v
    if r < 0.85 and depth < 2:
        n = rng.choice([0, 1, 1, 1, 2, 3])
        items = [random_value(rng, depth + 1) for _ in range(n)]
        kind = rng.choice([list, list, tuple, set, frozenset, deque])
        if kind in (set, frozenset):
            hs = []
            for x in items:
                try:
                    hash(x)
                    hs.append(x)
                except TypeError:
                    pass
            items = hs[:1]          # multi-element sets iterate in hash order: outside the compared fragment
        return kind(items)
    if r < 0.90 and depth < 2:
        d = {}
        for _ in range(rng.choice([0, 1, 2])):
            k = rng.choice(["a", "b", 1, None, "k1"])
            d[k] = random_value(rng, depth + 1)
        return d
    return rng.choice([None, True, False, DT, date(2020, 2, 20), time(1, 2, 3), timedelta(seconds=rng.randrange(-100, 100000)),
                       UID, 1 + 0j, 0j, 2 + 1j])


# boundary pools are not sampled: every value goes to every target whose converter tests that unit
BOUNDARY_TARGETS = {"b_midnight": ("date", "datetime", "time"), "b_timestamp": ("date", "datetime", "timedelta", "int"),
                    "b_datetime": ("date", "time", "datetime"), "b_number": ("int", "bool", "UUID", "float", "Decimal")}


def gen_cases(tier: str, rng: random.Random, n: int) -> list:
    pools = pool_json()
    targets = all_targets()
    heavy = {"float_inf", "decimal_inf", "str_inf"}          # sources on which date/time targets hang (1 s each)
    cases = []
    if tier == "thorough":
        for kind, vals in pools.items():
            for v in vals:
                for t in targets:
                    cases.append(mk_case(t, v))
    else:
        # every (source kind x target) cell at least once, then random cells
        for kind, vals in pools.items():
            for t in targets:
                if kind in heavy and rng.random() < 0.8:
                    continue
                cases.append(mk_case(t, rng.choice(vals)))
    if tier != "thorough":
        for kind, tnames in BOUNDARY_TARGETS.items():
            for v in pools[kind]:
                for t in targets:
                    if t.get("cls") in tnames:
                        cases.append(mk_case(t, v))
    kinds = [k for k in pools if k not in heavy]
    while len(cases) < n or (tier == "search" and len(cases) < n):
        if rng.random() < 0.5:
            v = rng.choice(pools[rng.choice(kinds)])
        else:
            try:
                v = _e(random_value(rng))
            except Exception:
                continue
            if _has_unencodable(v):
                continue
        cases.append(mk_case(rng.choice(targets), v))
    return cases


# ------------------------------------------------------------------------------------------------
# the property in its own words (evaluated on the implementation's outcomes)
# ------------------------------------------------------------------------------------------------

TRUE_WORDS = ("1", "true", "yes", "on", "t", "y")
FALSE_WORDS = ("0", "false", "no", "off", "f")
NULL_WORDS = ("null", "none", "nil")
SCALAR_TARGETS = {"NoneType", "bool", "int", "float", "complex", "Decimal", "str", "bytes", "bytearray", "memoryview", "date",
                  "datetime", "time", "timedelta", "UUID"}
NUMBER = {"int", "float", "Decimal", "complex"}
STRING = {"str", "bytes", "bytearray", "memoryview"}
ARRAY = {"list", "tuple", "set", "frozenset", "deque"}
TEMPORAL = {"date", "datetime", "time", "timedelta"}
TIME_RE = re.compile(r"(\d{1,2}):(\d{2})(?::(\d{2})(?:[.,](\d+))?)?")


def jkind(j) -> str:
    """builtin class name of an encoded value"""
    if j is None:
        return "NoneType"
    if isinstance(j, bool):
        return "bool"
    for k, n in (("i", "int"), ("f", "float"), ("z", "complex"), ("d", "Decimal"), ("s", "str"), ("m", "dict"),
                 ("date", "date"), ("dt", "datetime"), ("tm", "time"), ("td", "timedelta"), ("u", "UUID"), ("e", "enum"),
                 ("o", "object")):
        if k in j:
            return n
    if "b" in j or "q" in j:
        return j["k"]
    return "other"


def jtype(j):
    """exact class of an encoded value as a comparable key"""
    k = jkind(j)
    if k == "enum":
        return ("enum", j["e"][0])
    if k == "object":
        return ("obj", j["o"])
    return (k, j.get("c", 0) if isinstance(j, dict) else 0)


def ttype(t):
    if "cls" in t:
        return (t["cls"], t.get("sub", 0))
    if "enum" in t:
        return ("enum", t["enum"])
    if "abc" in t:
        return ("abc", t["abc"])
    return ("objcls", t["obj"])


def num_value(j):
    """exact numeric value of an encoded number (Fraction), or None"""
    from fractions import Fraction
    k = jkind(j)
    try:
        if k == "bool":
            return Fraction(int(j))
        if k == "int":
            return Fraction(int(j["i"]))
        if k == "float":
            f = j["f"]
            return None if isinstance(f, str) else Fraction(int(f[0])) * Fraction(2) ** int(f[1])
        if k == "Decimal":
            d = j["d"]
            return None if isinstance(d, str) else (-1 if d[0] == "1" else 1) * Fraction(int(d[1])) * Fraction(10) ** int(d[2])
        if k == "complex":
            re_, im = j["z"]
            if isinstance(re_, str) or isinstance(im, str) or int(im[0]) != 0:
                return None
            return Fraction(int(re_[0])) * Fraction(2) ** int(re_[1])
    except Exception:
        return None
    return None


def unwrap(j, env):
    """what `_attempt_from` looks through: a one-element list/tuple/set/frozenset, an enum member's value"""
    k = jkind(j)
    if k in ("list", "tuple", "set", "frozenset") and len(j["q"]) == 1:
        return j["q"][0]
    if k == "enum":
        return env[j["e"][0]]["members"][j["e"][1]][1]
    return j


def text_of(j, errors="strict"):
    """the text of a str / bytes-like value under a strict decode; None if there is none"""
    k = jkind(j)
    if k == "str":
        return j["s"]
    if k in BYTE_KINDS:
        try:
            return bytes.fromhex(j["b"]).decode(errors=errors)
        except UnicodeDecodeError:
            return None
    return None


def groups_of_value(j, env) -> set:
    """the primitive groups of docs/en/references/options.md a VALUE belongs to: null / boolean (True, False, 0, 1) /
    number (int, float, Decimal, complex) / string (str, bytes, bytearray, memoryview) / array / object"""
    k = jkind(j)
    if k == "NoneType":
        return {"null"}
    if k == "bool":
        return {"boolean"}
    if k == "int":
        return {"number", "boolean"} if int(j["i"]) in (0, 1) else {"number"}
    if k in NUMBER:
        return {"number"}
    if k in STRING:
        return {"string"}
    if k in ARRAY:
        return {"array"}
    if k == "dict":
        return {"object"}
    if k == "enum":
        d = env[j["e"][0]]
        return groups_of_value(d["members"][j["e"][1]][1], env) if d.get("mt") else set()
    return set()          # date/time values, UUID, objects: in no primitive group


def group_of_target(t):
    """the primitive group of a TARGET (date/time types, UUID, Enum, unregistered classes: none)"""
    if "cls" in t:
        b = t["cls"]
        if b == "NoneType":
            return "null"
        if b == "bool":
            return "boolean"
        if b in NUMBER:
            return "number"
        if b in STRING:
            return "string"
        if b in ARRAY:
            return "array"
        if b == "dict":
            return "object"
        return None
    if "abc" in t:
        return "object" if t["abc"] == "mapping" else "array"
    return None


def nec_deviation(t, v, env):
    """what the unchanged code admits under no_explicit_cast beyond the property's table -> known-finding id"""
    tb = t.get("cls")
    k = jkind(v)
    if k == "enum" and env[v["e"][0]].get("mt"):
        v = env[v["e"][0]]["members"][v["e"][1]][1]
        k = jkind(v)
    if k == "bool" and tb in ("int", "float", "Decimal", "complex", "date", "datetime", "timedelta"):
        return "nec-bool-as-number"
    if tb == "bool" and k in ("float", "Decimal", "complex") and num_value(v) in (0, 1):
        return "nec-zero-one-like-to-bool"
    if tb in ("date", "datetime", "time") and k in ("date", "datetime"):
        return "nec-temporal-cross"
    if tb == "UUID" and k in STRING:
        return "nec-uuid-from-string"
    if tb == "complex" and k in STRING:
        return "complex-from-str-under-nec"
    return None


def is_timed_string(s: str) -> bool:
    """a string with a time-of-day part that is not midnight"""
    core = re.sub(r"\s*[+-]\d{2}:?\d{2}\s*$", "", s)
    for m in TIME_RE.finditer(core):
        h, mi, ss, frac = m.groups()
        tail = core[m.end():].lstrip().upper()
        if tail.startswith("PM"):
            return True                     # 12:00:00 PM is noon
        if tail.startswith("AM") and int(h) == 12:
            h = "0"                         # 12:00:00 AM is midnight
        if any(g and g.strip("0") for g in (h, mi, ss, frac)):
            return True
    return False


def timed_timestamp(x, r=None) -> bool:
    """a timestamp (number, or text that is a plain decimal number) that does not fall on a UTC midnight once it is
    scaled below the millisecond watershed and rounded to microseconds — written from the documentation of
    `datetime`: seconds since the epoch, microsecond resolution"""
    from fractions import Fraction
    if isinstance(x, str):
        if not re.fullmatch(r"\s*[+-]?\d+(\.\d+)?\s*", x):
            return False
        q = Fraction(x.strip())
    else:
        q = num_value(x) if jkind(x) in ("int", "float", "Decimal") else None
        if q is None:
            return False
    while abs(q) > 2 * 10 ** 10:
        q /= 1000
    micro = round(q * 10 ** 6)
    if micro % (86400 * 10 ** 6) == 0:
        return False
    if r is not None and isinstance(r, dict) and "date" in r:
        # only when the result is the day of that timestamp (a text like '20200220' is a date in its own right)
        try:
            day = date(1970, 1, 1) + timedelta(days=micro // (86400 * 10 ** 6))
        except OverflowError:
            return False
        return [day.year, day.month, day.day] == list(r["date"])
    return True


class C12(Check):
    prop = "C12"
    props_modules = ["Utv.Props.C12", "Utv.Util.ConvJson"]
    driver = "C12"
    impl = "harness.c12:impl"
    uses_extract = True
    case_timeout = 12.0
    budget = {"quick": 2600, "thorough": 120000}
    search_budget = {"quick": 2500, "thorough": 12000}
    rule = ("(source value, target class) pairs, each run under the four no_explicit_cast/no_data_loss combinations on the real "
            "type_transform and on the Lean model: 40 source kinds (pools of boundary values per kind: numbers, numeric/word/date/"
            "time/duration/structured/uuid strings, bytes incl. invalid UTF-8, bytearray, memoryview, list/tuple/set/frozenset/deque, "
            "dict, date/datetime/time/timedelta/UUID, plain and mixed-in enum members, objects, user subclasses) x 49 targets "
            "(21 builtin/stdlib classes, 18 user subclasses, 6 enum classes, 4 abstract collection classes, 1 unregistered class); "
            "quick: every (kind x target) cell once + random structured values; thorough: every pool value x every target + random. "
            "plus Union targets (every ordered pair of 19 members, triples/quadruples, 75 multi-convertible values, type_transform and Schema-field "
            "routes) and data-class targets given lists/tuples of dicts / instances / subclass instances / foreign instances / texts in every "
            "position (type_transform, field, parameter routes), tuple prefixes, unknown keys, Options.  "
            "distinct = (target or member list, value, route); non-trivial = the value's exact type is not the target (a converter actually ran)")
    assumptions = [
        "CPython builtins (float/Decimal/strptime/json/ast.literal_eval/…) are parameters of the model (Prims); their answers are "
        "taken from the running interpreter per case; laws used by the theorems (PrimLaws: strict decode ⊆ ignore decode, "
        "json strict ⊆ non-strict) are audited on every run",
        "members of mixed-in enums as *inputs* of other targets, multi-element sets (hash iteration order) and dict views are "
        "outside the modelled fragment (model answers `unmodelled`); they stay in the spec sweep",
    ]

    # ---- cases ---------------------------------------------------------------------------------
    def cases(self, tier, rng, n):
        if tier == "search":
            return gen_cases(tier, rng, n) + union_cases("quick", rng)
        return gen_cases(tier, rng, n) + parse_cases(tier, rng) + union_cases(tier, rng)

    def evaluate(self, cases):
        from .common import run_impl
        impl_outs = run_impl(self.impl, cases, self.case_timeout, extra_env=self.impl_env)
        lines, index = [], []
        for i, c in enumerate(cases):
            ls = parse_model_lines(c) if c.get("op") == "parse" else [self.model_line(c)]
            index.append((len(lines), len(ls), c.get("op") == "parse" and c.get("kind") in ("dataclass", "inherit", "schema")))
            lines += ls
        flat = run_model(lines)
        model_outs = [flat[a:a + n] if multi_line else flat[a] for a, n, multi_line in index]
        return impl_outs, model_outs

    # ---- model vs implementation ---------------------------------------------------------------
    def compare(self, case, io, mo):
        if case.get("op") == "parse":
            return compare_parse(case, io, mo)
        if case.get("op") == "union":
            return compare_union(case, io, mo)
        if not isinstance(mo, dict) or "ff" not in mo:
            return f"driver: {str(mo)[:200]}"
        if io.get("hang") or io.get("crash"):
            return f"implementation did not answer: {io}"
        for key, _, _ in FLAG_KEYS:
            m, i = mo[key], io[key]
            if "unmodelled" in m:
                continue
            if "ok" in i and _has_unencodable(i["ok"]):
                continue
            if canon(m) != canon(i):
                # escape classes: compare only the fact of escaping, perr kinds exactly
                if "escape" in m and "escape" in i:
                    continue
                if m.get("perr") == "JSONDecodeError" and i.get("perr") == "ValueError":
                    continue
                return f"flags {key}: model {json.dumps(m)[:160]} != implementation {json.dumps(i)[:160]}"
        return None

    # ---- the property ---------------------------------------------------------------------------
    def spec(self, case, io, mo):
        if case.get("op") == "parse":
            return spec_parse(case, io)
        if case.get("op") == "union":
            return spec_union(case, io)
        if io.get("hang") or io.get("crash"):
            return None          # totality is C04's property
        env, t, v = case["env"], case["target"], case["value"]
        ident = jtype(v) == ttype(t)
        for key, nec, ndl in FLAG_KEYS[1:]:
            o = io[key]
            if "ok" not in o:
                continue
            # (1) only restrict
            if "ok" not in io["ff"]:
                return f"mono: converts under {flag_name(nec, ndl)} but not without flags ({outcome_name(io['ff'])})"
            if not io.get("same_" + key, False):
                return (f"mono: result under {flag_name(nec, ndl)} {json.dumps(o['ok'])[:120]} differs from the lenient result "
                        f"{json.dumps(io['ff']['ok'])[:120]}")
            if ident:
                continue
            r = o["ok"]
            if ndl:
                why = self.ndl_promises(t, v, r, env)
                if why:
                    return f"no_data_loss ({flag_name(nec, ndl)}): {why}"
            if nec:
                why = self.nec_group(t, v, r, env)
                if why:
                    return f"no_explicit_cast ({flag_name(nec, ndl)}): {why}"
        return None

    def ndl_promises(self, t, v, r, env):
        tb = t.get("cls")
        src = unwrap(v, env)
        # a number becomes an int only if it has no fractional part and the value is preserved
        if (tb == "int" or ("enum" in t and env[t["enum"]].get("mt") == "int")) and jkind(src) in ("float", "Decimal", "complex"):
            sv = num_value(src)
            rv = num_value(r) if "enum" not in t else num_value(env[t["enum"]]["members"][r["e"][1]][1])
            if sv is None or rv is None or sv != rv:
                return f"number {json.dumps(src)} became int {json.dumps(r)}"
        # only unambiguous booleans become bool
        if tb == "bool":
            ok = False
            if jkind(v) == "bool":
                ok = True
            nv = num_value(v)
            if nv is not None and nv in (0, 1):
                ok = True
            txt = text_of(v) if jkind(v) in ("str", "bytes") else None
            if txt is not None and txt.lower() in TRUE_WORDS + FALSE_WORDS:
                ok = (txt.lower() in TRUE_WORDS) == (r is True)
            if jkind(v) == "enum":
                ev = env[v["e"][0]]["members"][v["e"][1]][1]
                if env[v["e"][0]].get("mt") and num_value(ev) in (0, 1):
                    ok = True
            if not ok:
                return f"ambiguous value {json.dumps(v)[:80]} became bool"
        # a multi-element collection never collapses to a scalar
        if tb in SCALAR_TARGETS and jkind(v) in ("list", "tuple", "set", "frozenset") and len(v["q"]) > 1:
            if not (tb == "complex" and jkind(v) == "tuple" and len(v["q"]) == 2):
                return f"collection of {len(v['q'])} elements collapsed to a {tb}"
        # bytes decode strictly
        bsrc = src if tb in SCALAR_TARGETS else v
        if jkind(bsrc) in BYTE_KINDS and text_of(bsrc) is None:
            decoding = tb in ("str", "int", "float", "Decimal", "complex", "bool", "date", "datetime", "time", "timedelta", "dict",
                              "list", "tuple", "set", "frozenset", "deque") or t.get("abc") == "mapping"
            if decoding and jkind(r) not in BYTE_KINDS and not _contains_bytes(r):
                return "undecodable bytes were converted"
        # a datetime or timed string never becomes a date
        if tb == "date" and t.get("sub", 0) == 0:
            if jkind(src) == "datetime":
                return "a datetime became a date"
            txt = text_of(src)
            if txt is not None and is_timed_string(txt):
                return f"timed string {txt!r} became a date"
            if timed_timestamp(src if txt is None else txt, r):
                return f"timestamp {json.dumps(src)[:60]} with a time of day became a date (no information may be dropped)"
        return None

    def nec_group(self, t, v, r, env):
        if "enum" in t:
            # by value only: the member's value equals the input
            mv = env[t["enum"]]["members"][r["e"][1]][1]
            try:
                envc = enum_classes(env)
                if dec(mv, envc) == dec(v, envc):
                    return None
            except Exception:
                pass
            return f"{json.dumps(v)[:60]} became enum member with value {json.dumps(mv)[:60]}"
        # the property's table: passed through unchanged / in the target's primitive group / documented exception
        if canon(r) == canon(v):
            return None
        gv, gt = groups_of_value(v, env), group_of_target(t)
        if gt is not None and gt in gv:
            return None
        tb = t.get("cls")
        if tb == "Decimal" and "string" in gv:
            return None                      # documented: Decimal from str
        if tb in TEMPORAL and "string" in gv:
            return None                      # documented: date/time types from their string form
        if tb in ("date", "datetime", "timedelta") and "number" in gv:
            return None                      # documented: ... and from their timestamp form
        dev = nec_deviation(t, v, env)
        return (f"{jkind(v)} (groups {sorted(gv)}) became {tname(t)} (group {gt})" + (f" [deviation={dev}]" if dev else ""))

    def classify(self, case, io, why):
        m = re.search(r"\[deviation=([\w-]+)\]", why)
        if m and why.startswith("no_explicit_cast"):
            return m.group(1)
        if case.get("op") == "union":
            # only: no_explicit_cast alone, and no member accepts the value under both preferences
            if why.startswith("mono") and "no_explicit_cast" in why and "no_data_loss" not in why and io.get("strict_member_ok") is False:
                return "union-member-choice-under-nec"
            return None
        if case.get("op") == "parse":
            if case.get("kind") == "dataclass" and "no_explicit_cast" in why and jkind_dc(case["value"]) in ("list", "tuple"):
                return "dataclass-list-under-nec"
            return None
        t, v = case["target"], case["value"]
        tb = t.get("cls")
        if why.startswith("mono") and tb == "timedelta" and "no_explicit_cast" in why:
            txt = text_of(v, "ignore")
            if txt is not None:
                try:
                    float(txt)
                    return "timedelta-numeric-string"
                except ValueError:
                    pass
        if why.startswith("mono") and (tb == "dict" or t.get("abc") == "mapping") and "no_data_loss" in why:
            txt = text_of(unwrap(v, case["env"]))
            if txt is not None:
                try:
                    json.loads(txt, strict=True)
                except ValueError:
                    try:
                        json.loads(txt, strict=False)
                        return "dict-json-control-char"
                    except ValueError:
                        pass
        return None

    # ---- evidence -------------------------------------------------------------------------------
    def key(self, case, io):
        if case.get("op") == "parse":
            return "parse:" + json.dumps(case, sort_keys=True)
        if case.get("op") == "union":
            return "union:" + case.get("route", "") + ":" + ",".join(tname(t) for t in case["members"]) + "|" + vkey(case["value"])
        if jtype(case["value"]) == ttype(case["target"]):
            return None
        return tname(case["target"]) + "|" + vkey(case["value"])

    def distribution(self, case, io):
        if case.get("op") == "parse":
            return "parse/" + case["kind"] + ("/" + case["route"] if "route" in case else "")
        if case.get("op") == "union":
            return f"union/{len(case['members'])}/{case.get('route')}"
        if not isinstance(io, dict) or "ff" not in io:
            return "no-answer"
        pat = "".join("o" if "ok" in io[k] else ("p" if "perr" in io[k] else ("d" if "diverge" in io[k] else "e")) for k, _, _ in FLAG_KEYS)
        return f"{jkind(case['value'])}->{tname(case['target']).split('#')[0]}:{pat}"

    def neighbours(self, case, rng):
        if case.get("op") == "parse":
            return []
        if case.get("op") == "union":
            ms = case["members"]
            out = [dict(case, members=ms[::-1])]
            for v in union_values():
                out.append(dict(case, value=v))
            return out
        out = []
        v = case["value"]
        for t in all_targets():
            out.append(mk_case(t, v))
        for w in ({"q": [v], "k": "list"}, {"q": [v], "k": "tuple"}, {"q": [v, v], "k": "list"}):
            out.append(mk_case(case["target"], w))
        txt = text_of(v)
        if txt is not None:
            out.append(mk_case(case["target"], {"b": txt.encode().hex(), "k": "bytes"}))
            out.append(mk_case(case["target"], {"s": " " + txt + " "}))
            out.append(mk_case(case["target"], {"s": txt.upper()}))
        return out

    def reproduce(self, case):
        return (f"cd {Path(__file__).resolve().parent.parent} && UTYPE_REPO={REPO} /venv/bin/python -c 'import json,sys; sys.path.insert(0, \".\"); "
                f"sys.path.insert(0, \"{REPO}\"); from harness.c12 import impl; print(json.dumps(impl(json.loads(sys.argv[1])), indent=1))' "
                f"'{json.dumps(case, sort_keys=True)}'")

    def extra_static(self, tier):
        """tables copied into the model (not produced by tools/extract.py) are re-read from the source text"""
        broken = []
        tabs = source_tables()
        lean = (LEAN / "Utv" / "Model" / "Conv.lean").read_text()
        for name in ("DATE_FORMATS", "DATETIME_FORMATS"):
            m = re.search(r"def " + name + r" : List String :=\s*\[(.*?)\]", lean, flags=re.S)
            got = re.findall(r'"((?:[^"\\]|\\.)*)"', m.group(1)) if m else None
            if got != tabs.get(name):
                broken.append(f"table {name} in transform.py {tabs.get(name)} differs from the model's copy {got}")
        for name, want in (("NULL_VALUES", NULL_WORDS), ("TRUE_VALUES", TRUE_WORDS), ("FALSE_VALUES", FALSE_WORDS)):
            if tuple(tabs.get(name) or ()) != want:
                broken.append(f"table {name} in transform.py {tabs.get(name)} differs from the documented words {list(want)}")
        regs = {r[0]: (r[1], r[2]) for r in tabs.get("registrations", [])}
        want_regs = {"to_null": (["type(None)"], "False"), "to_date": (["date"], "False"), "to_datetime": (["datetime"], "True"),
                     "to_integer": (["int"], "True"), "to_bool": (["bool"], "True"), "to_enum": (["Enum"], "True"),
                     "to_str": (["str"], "True"), "to_bytes": (["bytes", "bytearray", "memoryview"], "True"),
                     "to_array_types": (["list", "tuple", "set", "frozenset", "deque"], "True"), "to_dict": (["dict"], "True"),
                     "to_float": (["float"], "True"), "to_decimal": (["Decimal"], "True"), "to_complex": (["complex"], "True"),
                     "to_timedelta": (["timedelta"], "True"), "to_time": (["time"], "True"), "to_uuid": (["UUID"], "True")}
        for fn, w in want_regs.items():
            if regs.get(fn) != w:
                broken.append(f"registration of {fn} is {regs.get(fn)}, the model's `resolve` assumes {w}")
        broken += audit_prim_laws()
        order = [r[0] for r in tabs.get("registrations", [])]
        if "to_integer" in order and "to_bool" in order and not (order.index("to_integer") < order.index("to_bool") < order.index("to_enum")):
            broken.append("registration order int < bool < enum changed (the model's `resolve` depends on it)")
        return broken

    def finish_evidence(self, ev, tier):
        ev["coverage"]["exhaustive"] = False
        if tier == "thorough":
            ev["coverage"]["exhaustive_part"] = "every pool value x every target x 4 flag combinations"


def audit_prim_laws() -> list:
    """PrimLaws (hypotheses of the theorems) checked against the running interpreter on this run's texts"""
    bad = []
    rng = random.Random(12)
    pools = source_pools()
    raws = [bytes(b) for k in ("bytes", "bytearray", "memoryview") for b in pools[k]]
    for _ in range(400):
        raws.append(bytes(rng.choice([rng.randrange(256), rng.randrange(128), 0xC3, 0xE6, 0xF0, 0x80, 0xBF]) for _ in range(rng.randrange(0, 7))))
    for raw in raws:
        try:
            s = raw.decode(errors="strict")
        except UnicodeDecodeError:
            continue
        if raw.decode(errors="ignore") != s:
            bad.append(f"PrimLaws.decode_strict fails for {raw!r}")
    texts = [t for k, vals in pools.items() if k.startswith("str_") for t in vals]
    for _ in range(300):
        body = "".join(rng.choice('ab"\\/\t\n :,{}[]01') for _ in range(rng.randrange(0, 10)))
        texts += ['{"a": "%s"}' % body, "[%s]" % body, body]
    for t in texts:
        def load(strict):
            try:
                return ("ok", json.loads(t, strict=strict))
            except json.JSONDecodeError:
                return ("perr",)
            except RecursionError:
                return ("rec",)
        a, b = load(True), load(False)
        if a != b and not (a == ("perr",) and b[0] == "ok"):
            bad.append(f"PrimLaws.json_strict fails for {t!r}")
    words = set(TRUE_WORDS + FALSE_WORDS)
    for kind in ("list", "tuple", "set", "frozenset", "deque"):
        for v in pools[kind]:
            if str(v).lower() in words:
                bad.append(f"StrOfSeqLaw fails: str({v!r}) is a boolean word")
    if raws and b"".decode() != "":
        bad.append("decode of the empty byte string is not the empty text")
    return bad[:5]


def _contains_bytes(j) -> bool:
    if isinstance(j, dict):
        if "b" in j:
            return True
        return any(_contains_bytes(x) for x in j.values())
    if isinstance(j, list):
        return any(_contains_bytes(x) for x in j)
    return False


def flag_name(nec, ndl) -> str:
    return "+".join(n for n, b in (("no_explicit_cast", nec), ("no_data_loss", ndl)) if b) or "no flags"


def outcome_name(o) -> str:
    return next(iter(o)) + (":" + str(o.get("perr") or o.get("escape")) if ("perr" in o or "escape" in o) else "")


# ------------------------------------------------------------------------------------------------
# parse-level promises of no_data_loss: tuple excess, unknown keys, list input of a data class
# (rule.py:1896-1899, options.py:151-155, cls.py:598-606) — filled in below
# ------------------------------------------------------------------------------------------------

# ------------------------------------------------------------------------------------------------
# Union targets: the stages `LogicalType.logical_parse` builds from the flags (rule.py:381-431)
# ------------------------------------------------------------------------------------------------

UNION_MEMBERS = [{"cls": b, "sub": 0} for b in ("NoneType", "bool", "int", "float", "Decimal", "str", "bytes", "list", "tuple", "set", "dict",
                                                "date", "datetime", "timedelta", "time", "UUID")] + [{"cls": "int", "sub": 1}, {"enum": 2}, {"enum": 0}]


def _plain(b):
    return {"cls": b, "sub": 0}


GENERIC_MEMBERS = [
    {"seq": _plain("int"), "k": "list"}, {"seq": _plain("float"), "k": "list"}, {"seq": _plain("str"), "k": "list"},
    {"seq": _plain("date"), "k": "list"}, {"seq": _plain("datetime"), "k": "list"}, {"seq": _plain("bytes"), "k": "list"},
    {"seq": _plain("bool"), "k": "list"}, {"seq": _plain("int"), "k": "set"}, {"seq": _plain("int"), "k": "tuple"},
    {"map": [_plain("str"), _plain("int")]}, {"map": [_plain("str"), _plain("float")]}, {"map": [_plain("int"), _plain("str")]},
    {"tup": [_plain("int"), _plain("int")]}, {"tup": [_plain("float"), _plain("int")]}, {"tup": [_plain("int"), _plain("str")]},
    {"cons": _plain("int"), "c": ["intGt", 0]}, {"cons": _plain("int"), "c": ["intLe", 10]}, {"cons": _plain("str"), "c": ["strMaxLen", 3]},
    {"seq": {"seq": _plain("int"), "k": "list"}, "k": "list"},
    _plain("int"), _plain("float"), _plain("str"), _plain("NoneType"),
]


def generic_values():
    vals = [[1.5], [2, 0.25, 3.0], [1, 2], ["1", "2"], [1.0], [], {"a": 1.5}, {"a": 1, "b": 2.5}, {"a": "1"}, {1: "x"}, {"1": "x"}, (1.5, 2), [0.5, 7],
            (1, 2, 3), (1, 2), ["a", 1], [1, "a"], [DT], [date(2020, 1, 1)], ["2020-01-01"], ["2020-01-01 10:00:00"], [datetime(2020, 1, 1)],
            [b"\xff1"], [b"12"], 5, -3, 11, 5.0, 0.5, "5", "abcd", "ab", "[1,2]", "1,2", (1,), {1}, None, 3.7, [True], [[1]], [[1.5]], "{}",
            '{"a": 1}', [1, 2, 3.5], {"a": [1]}, ["true"], [0, 1], b"5", ["a", "b"], (2.0, 3.0)]
    return [_e(v) for v in vals]


def member_type(m, envc):
    """the Python type a member descriptor stands for"""
    import typing
    from utype import Rule
    if "seq" in m:
        e = member_type(m["seq"], envc)
        return {"list": typing.List[e], "set": typing.Set[e], "frozenset": typing.FrozenSet[e], "tuple": typing.Tuple[e, ...],
                "deque": typing.Deque[e]}[m["k"]]
    if "map" in m:
        return typing.Dict[member_type(m["map"][0], envc), member_type(m["map"][1], envc)]
    if "tup" in m:
        return typing.Tuple[tuple(member_type(x, envc) for x in m["tup"])]
    if "cons" in m:
        base = target_class(m["cons"], envc)
        name, n = m["c"]
        attr = {"intGt": "gt", "intLe": "le", "strMaxLen": "max_length"}[name]
        return type("R_" + name, (base, Rule), {attr: n})
    return target_class(m, envc)


def is_generic(m):
    return any(k in m for k in ("seq", "map", "tup", "cons"))


def union_values():
    vals = [3.7, 3.0, 2.5, 0.0, 1.0, Decimal("1.5"), Decimal("7"), Decimal("1"), Decimal("0.0"), "12", "2.50", "3.0", b"10", b"true", "true",
            "null", "None", "yes", "", 1, 0, 2, True, False, None, "2020-02-20", "2020-02-20 10:11:12", "2020-02-20 00:00:00", 1641158543,
            1641158543.5, [1], [1, 2], ("a",), (1, 2), "[1,2]", "a,b", "(1,2)", {}, {"a": 1}, '{"a": 1}', "k1=v1&k2=v2", date(2020, 2, 20), DT,
            time(11, 12, 13), timedelta(hours=1), "11:12:13", "P1DT00H00M00S", "5.1234567", "-10.1", str(UID), UID, UID.bytes, 12.3456, b"",
            b"-0.3", b"2020-02-20", SubInt(3), 2 ** 128, 10 ** 20, "B", "a", "z", [b"7"], ["true"], [3.5], {1}, frozenset({2}), bytearray(b"12"),
            0j, 1 + 0j, b"\xff1", [{"a": 1}], [("a", 1)]]
    return [_e(v) for v in vals]


def union_cases(tier, rng):
    """Union[members…] x value: every ordered pair of members (thorough: x every value; quick: a seeded sample with
    every ordered pair at least once) plus triples; values chosen to be convertible by several members"""
    vals = union_values()
    pairs = [(a, b) for a in UNION_MEMBERS for b in UNION_MEMBERS if a != b]
    out = []
    demo = [(b"10", ("int", "str")), ("12", ("int", "Decimal")), (b"true", ("bool", "str")), (Decimal("1.5"), ("int", "float")),
            (Decimal("7"), ("bool", "float")), ("2.50", ("float", "Decimal")), (3.7, ("int", "str")), (3.7, ("bool", "int")), (None, ("int", "NoneType"))]
    for v, ms in demo:
        for order in (ms, ms[::-1]):
            out.append({"op": "union", "members": [{"cls": m, "sub": 0} for m in order], "value": _e(v), "env": ENV, "route": "transform"})
            out.append({"op": "union", "members": [{"cls": m, "sub": 0} for m in order], "value": _e(v), "env": ENV, "route": "field"})
    if tier == "thorough":
        for a, b in pairs:
            for v in vals:
                out.append({"op": "union", "members": [a, b], "value": v, "env": ENV, "route": "transform"})
    else:
        for a, b in pairs:
            for v in rng.sample(vals, 4):
                out.append({"op": "union", "members": [a, b], "value": v, "env": ENV, "route": "transform"})
    for _ in range(300 if tier != "thorough" else 4000):
        ms = rng.sample(UNION_MEMBERS, rng.choice([2, 3, 3, 4]))
        out.append({"op": "union", "members": ms, "value": rng.choice(vals), "env": ENV, "route": rng.choice(["transform", "transform", "field"])})
    # members that are Rules: parametrised generics and constrained types, every ordered pair
    gvals = generic_values()
    gpairs = [(a, b) for a in GENERIC_MEMBERS for b in GENERIC_MEMBERS if a != b and (is_generic(a) or is_generic(b))]
    gdemo = [([1.5], 0, 1), ([2, 0.25, 3.0], 0, 1), ({"a": 1.5}, 9, 10), ((1.5, 2), 12, 13), ([0.5, 7], 12, 13), ([DT], 3, 4), ([b"\xff1"], 0, 5)]
    for v, i, j in gdemo:
        for route in ("transform", "field"):
            out.append({"op": "union", "members": [GENERIC_MEMBERS[i], GENERIC_MEMBERS[j]], "value": _e(v), "env": ENV, "route": route})
    for a, b in gpairs:
        for v in (gvals if tier == "thorough" else rng.sample(gvals, 3)):
            out.append({"op": "union", "members": [a, b], "value": v, "env": ENV, "route": "transform"})
    for _ in range(200 if tier != "thorough" else 3000):
        ms = rng.sample(GENERIC_MEMBERS, rng.choice([2, 3, 3]))
        out.append({"op": "union", "members": ms, "value": rng.choice(gvals), "env": ENV, "route": rng.choice(["transform", "field"])})
    return out


def impl_union(case):
    import typing
    from utype import Options, Rule, Schema, type_transform
    envc = enum_classes(case["env"])
    members = [member_type(t, envc) for t in case["members"]]
    ann = typing.Union[tuple(members)]
    out, results = {}, {}
    signal.signal(signal.SIGVTALRM, _alarm)
    for key, nec, ndl in FLAG_KEYS:
        value = dec(case["value"], envc)
        o = Options(no_explicit_cast=nec, no_data_loss=ndl)
        signal.setitimer(signal.ITIMER_VIRTUAL, HANG_S)
        try:
            try:
                if case.get("route") == "field":
                    M = type("M", (Schema,), {"__options__": o, "__annotations__": {"x": ann}})
                    r = M(x=value).x
                else:
                    r = type_transform(value, Rule.parse_annotation(ann), options=o)
            finally:
                signal.setitimer(signal.ITIMER_VIRTUAL, 0)
        except _Hang:
            out[key], results[key] = {"diverge": True}, None
        except RecursionError:
            out[key], results[key] = {"escape": "RecursionError"}, None
        except (TypeError, ValueError) as e:
            out[key], results[key] = {"perr": type(e).__name__}, None
        except Exception as e:
            out[key], results[key] = {"escape": type(e).__name__}, None
        else:
            out[key], results[key] = {"ok": enc(r, envc)}, r
    for key in ("ft", "tf", "tt"):
        if "ok" in out[key] and "ok" in out["ff"]:
            out["same_" + key] = _same(results["ff"], results[key])
    # does any member accept the value strictly (both preferences)?  (classification of union-member-choice-under-nec)
    strict = False
    for m, desc in zip(members, case["members"]):
        o, _ = impl_call(Rule.parse_annotation(m) if is_generic(desc) else m, dec(case["value"], envc), True, True, envc)
        if "ok" in o:
            strict = True
            break
    out["strict_member_ok"] = strict
    return out


def compare_union(case, io, mo):
    if not isinstance(mo, dict) or "ff" not in mo:
        return f"driver: {str(mo)[:200]}"
    if io.get("hang") or io.get("crash"):
        return f"implementation did not answer: {io}"
    for key, _, _ in FLAG_KEYS:
        m, i = mo[key], io[key]
        if "unmodelled" in m or ("ok" in i and _has_unencodable(i["ok"])):
            continue
        if "ok" in m or "ok" in i:
            if canon(m) != canon(i):
                return f"union flags {key}: model {json.dumps(m)[:160]} != implementation {json.dumps(i)[:160]}"
        elif ("diverge" in m) != ("diverge" in i):
            return f"union flags {key}: model {json.dumps(m)[:160]} != implementation {json.dumps(i)[:160]}"
    return None


def spec_union(case, io):
    if io.get("hang") or io.get("crash"):
        return None
    for key, nec, ndl in FLAG_KEYS[1:]:
        o = io[key]
        if "ok" not in o:
            continue
        names = ", ".join(tname(t) for t in case["members"])
        if "ok" not in io["ff"]:
            return f"mono: Union[{names}] converts under {flag_name(nec, ndl)} but not without flags ({outcome_name(io['ff'])})"
        if not io.get("same_" + key, False):
            return (f"mono: Union[{names}] under {flag_name(nec, ndl)} gives {json.dumps(o['ok'])[:100]} but without flags "
                    f"{json.dumps(io['ff']['ok'])[:100]}")
    return None


ADDITIONS = ("unset", "none", "no", "yes")
ADD_PY = {"none": None, "no": False, "yes": True}


def _opts(case, **extra):
    from utype import Options
    kw = dict(extra)
    if case.get("addition", "unset") != "unset":
        kw["addition"] = ADD_PY[case["addition"]]
    return Options(no_data_loss=case.get("ndl", False), no_explicit_cast=case.get("nec", False), **kw)


def _dataclass_values():
    d1, d2 = {"a": 1}, {"a": 2}
    vals = [[d1], [d1, d2], (d1,), (d1, d2), [], (), d1, [("a", 1)], (("a", 1),), [("a", 1), ("b", 2)], [[d1]], "{\"a\": 3}",
            ['{"a": 3}'], ['{"a": 3}', '{"a": 4}'], [d1, d1, d1], deque([d1]), 5, [5], [5, 6], None]
    return [_e(v) for v in vals]


DC_ITEMS = [{"m": [[{"s": "a"}, {"i": "1"}]]}, {"m": [[{"s": "a"}, {"i": "2"}]]}, {"dc": "S", "a": 1}, {"dc": "S", "a": 2},
            {"dc": "S2", "a": 3}, {"dc": "O", "a": 4}, {"s": "{\"a\": 3}"}, {"q": [{"s": "a"}, {"i": "1"}], "k": "tuple"}]
DC_OBJ = {"S": 10, "O": 11, "S2": 12}


def dataclass_instance_cases(tier, rng):
    """lists / tuples over dicts, instances of the class, of a subclass, of another data class, texts, pairs —
    every item in every position (lengths 0-2 exhaustively, length 3 sampled), plus the bare items"""
    vals = list(DC_ITEMS)
    for k in ("list", "tuple"):
        vals.append({"q": [], "k": k})
        for a in DC_ITEMS:
            vals.append({"q": [a], "k": k})
            for b in DC_ITEMS:
                vals.append({"q": [a, b], "k": k})
        r3 = random.Random(7)
        for _ in range(24 if tier != "thorough" else 200):
            vals.append({"q": [r3.choice(DC_ITEMS) for _ in range(3)], "k": k})
    out = []
    for v in vals:
        out.append({"op": "parse", "kind": "dataclass", "route": "transform", "value": v})
        if jkind_dc(v) in ("list", "tuple") and len(v["q"]) >= 1 and (len(v["q"]) != 2 or tier == "thorough" or (hash(json.dumps(v, sort_keys=True)) % 3 == 0)):
            out.append({"op": "parse", "kind": "dataclass", "route": "field", "value": v})
            out.append({"op": "parse", "kind": "dataclass", "route": "param", "value": v})
    return out


def jkind_dc(j):
    return "instance" if isinstance(j, dict) and "dc" in j else jkind(j)


def dc_to_model(j):
    """the driver sees instances as opaque objects: obj 10 = the class, 11 = another data class, 12 = a subclass"""
    if isinstance(j, dict) and "dc" in j:
        return {"o": DC_OBJ[j["dc"]]}
    if isinstance(j, dict) and "q" in j:
        return dict(j, q=[dc_to_model(x) for x in j["q"]])
    return j


_DC_CLASSES = None


def dc_classes():
    global _DC_CLASSES
    if _DC_CLASSES is None:
        from utype import Schema
        S = type("S", (Schema,), {"__annotations__": {"a": int}, "a": 0})
        S2 = type("S2", (S,), {})
        O = type("O", (Schema,), {"__annotations__": {"a": int}, "a": 0})
        _DC_CLASSES = {"S": S, "S2": S2, "O": O}
    return _DC_CLASSES


def dc_dec(j):
    if isinstance(j, dict) and "dc" in j:
        return dc_classes()[j["dc"]](a=j["a"])
    if isinstance(j, dict) and "q" in j:
        return _cls(j["k"], j.get("c", 0))([dc_dec(x) for x in j["q"]])
    return dec(j, None)


# --- preferences that arrive by inheritance / decoration / from an overriding outer class ------------------------

DELIVERIES = ("own", "base1", "base2", "decorator", "decorator_derived", "optcls", "optcls_base", "dataclass", "outer_override",
              "from_options")
INHERIT_FIELDS = {"count": {"cls": "int", "sub": 0}, "day": {"cls": "date", "sub": 0}, "flag": {"cls": "bool", "sub": 0},
                  "name": {"cls": "str", "sub": 0}}


def inherit_values():
    return {
        "count": [1.5, "2.75", "3", 3, 3.0, Decimal("1.0"), Decimal("1.5"), True, [1, 2], [3], b"\xff1", b"7", "", timedelta(hours=1)],
        "day": [datetime(2022, 3, 4, 10, 11, 12), "2022-03-04 10:11:12", "2022-03-04", date(2022, 3, 4), "2022-03-04 00:00:00", 1641158543,
                "2022-03-04 00:00:00.5", 1646352000.5, 1646352000, datetime(2022, 3, 4, 0, 0, 0, 1),
                b"2022-03-04", ["2022-03-04", "2022-03-05"]],
        "flag": ["maybe", "true", "no", 1, 2, 0.0, "", [True, False], b"yes", "2"],
        "name": [["a", "b"], ["a"], "测试1".encode("gbk"), 107, "x", b"ok", 1.5, {"a": 1}, True],
        "pair": [(1, 2, 3), (1, 2), [1, 2, 3], [1, 2], (1.5, 2), ("1", 2)],
        "unknown": ["x"],
    }


def inherit_cases(tier, rng):
    out = []
    vals = inherit_values()
    for d in DELIVERIES:
        for field, vs in vals.items():
            for v in vs:
                out.append({"op": "parse", "kind": "inherit", "delivery": d, "field": field, "value": _e(v)})
    return out


def build_delivery(delivery, o, flags):
    """a data class with the fields count/day/flag/name/pair that receives the preferences `flags` the given way;
    returns a function kwargs -> instance"""
    import typing
    import utype
    from utype import Options, Schema
    ann = {"count": int, "day": date, "flag": bool, "name": str, "pair": typing.Tuple[int, int]}
    body = {"__annotations__": ann, "count": 0, "day": None, "flag": None, "name": None, "pair": None}
    if delivery == "own":
        C = type("C", (Schema,), dict(body, __options__=o))
    elif delivery == "base1":
        B = type("B", (Schema,), {"__options__": o, "__annotations__": {"z": int}, "z": 0})
        C = type("C", (B,), dict(body))
    elif delivery == "base2":
        B = type("B", (Schema,), {"__options__": o})
        M = type("M", (B,), {"__annotations__": {"z": int}, "z": 0})
        C = type("C", (M,), dict(body))
    elif delivery == "decorator":
        C = o(type("C", (Schema,), dict(body)))
    elif delivery == "decorator_derived":
        D = o(type("P", (Schema,), {}))
        C = type("C", (D,), dict(body))
    elif delivery == "optcls":
        C = type("C", (Schema,), dict(body, __options__=type("__options__", (Options,), dict(flags))))
    elif delivery == "optcls_base":
        B = type("B", (Schema,), {"__options__": type("__options__", (Options,), dict(flags))})
        C = type("C", (B,), dict(body))
    elif delivery == "dataclass":
        C = utype.dataclass(type("C", (), dict(body)), options=o)
        return lambda kw: {k: v for k, v in vars(C(**kw)).items() if not k.startswith("_")}
    elif delivery == "outer_override":
        Inner = type("Inner", (Schema,), dict(body))
        Outer = type("Outer", (Schema,), {"__options__": Options(override=True, **flags), "__annotations__": {"inner": Inner}})
        return lambda kw: dict(Outer(inner=kw).inner)
    elif delivery == "from_options":
        Plain = type("Plain", (Schema,), dict(body))
        return lambda kw: dict(Plain.__from__(kw, options=o))
    else:
        raise ValueError(delivery)
    return lambda kw: dict(C(**kw))


def impl_inherit(case):
    from utype import Options
    out = {}
    field = case["field"]
    for key, nec, ndl in FLAG_KEYS:
        flags = {}
        if nec:
            flags["no_explicit_cast"] = True
        if ndl:
            flags["no_data_loss"] = True
        for which in (case["delivery"], "own"):
            v = dec(case["value"], None)
            kw = {"unknown_key": v} if field == "unknown" else {field: v}
            try:
                make = build_delivery(which, Options(**flags), flags)
                r = make(kw)
            except Exception as e:
                res = _err(e)
                if "perr" not in res:
                    res = {"perr": "escape:" + res.get("escape", "")}
            else:
                if field == "unknown":
                    res = {"ok": "kept" if "unknown_key" in r else "dropped"}
                else:
                    res = {"ok": enc(r.get(field), None)}
            out[key + ("" if which == case["delivery"] else "_own")] = res
            if which == "own" and case["delivery"] == "own":
                break
        if case["delivery"] == "own":
            out[key + "_own"] = out[key]
    return out


def parse_cases(tier, rng):
    out = dataclass_instance_cases(tier, rng) + inherit_cases(tier, rng)
    for ndl in (False, True):
        for a in ADDITIONS:
            out.append({"op": "parse", "kind": "options", "ndl": ndl, "addition": a})
            for style in ("schema", "function", "dataclass"):
                out.append({"op": "parse", "kind": "schema", "style": style, "ndl": ndl, "addition": a})
            # a key that names an excluded attribute (private name, ClassVar, excluded function parameter)
            for style, ex in (("schema", "private"), ("schema", "classvar"), ("dataclass", "private"), ("function", "private")):
                out.append({"op": "parse", "kind": "schema", "style": style, "excluded": ex, "ndl": ndl, "addition": a})
            for nargs in (0, 1, 2, 3):
                for nvals in range(0, 6):
                    for src in ("tuple", "list"):
                        out.append({"op": "parse", "kind": "tuple", "ndl": ndl, "addition": a, "nargs": nargs, "nvals": nvals, "src": src})
    for v in _dataclass_values():
        out.append({"op": "parse", "kind": "dataclass", "route": "transform", "value": v})
    return out


def _err(e):
    from utype.utils import exceptions as exc
    if isinstance(e, exc.TupleExceedError):
        return {"perr": "TupleExceedError", "item": getattr(e, "item", None)}
    if isinstance(e, exc.ExceedError):
        return {"perr": "ExceedError", "item": getattr(e, "item", None)}
    if isinstance(e, exc.AbsenceError):
        return {"perr": "AbsenceError"}
    if isinstance(e, exc.ParseError):
        return {"perr": "ParseError"}
    if isinstance(e, (TypeError, ValueError)):
        return {"perr": type(e).__name__}
    return {"escape": type(e).__name__}


def impl_parse(case):
    import utype
    from utype import Options, Rule, Schema, type_transform
    kind = case["kind"]
    if kind == "inherit":
        return impl_inherit(case)
    if kind == "options":
        v = _opts(case).addition
        return {"addition": "none" if v is None else ("no" if v is False else "yes")}
    if kind == "schema":
        import typing
        o = _opts(case)
        ex = case.get("excluded")
        key = {"private": "_priv", "classvar": "cv"}.get(ex, "b")
        try:
            if case["style"] == "schema":
                body = {"__options__": o, "__annotations__": {"a": int}, "a": 0}
                if ex == "private":
                    body["_priv"] = 3
                if ex == "classvar":
                    body["__annotations__"]["cv"] = typing.ClassVar[int]
                    body["cv"] = 3
                S = type("S", (Schema,), body)
                r = dict(S(**{"a": 1, key: 2}))
            elif case["style"] == "dataclass":
                body = {"__annotations__": {"a": int}, "a": 0}
                if ex == "private":
                    body["_priv"] = 3
                S = utype.dataclass(type("D", (), body), options=o)
                inst = S(**{"a": 1, key: 2})
                r = {k: v for k, v in vars(inst).items() if not (k.startswith("_") and k != "_priv")}
                if ex == "private" and r.get("_priv") == 3:
                    r.pop("_priv")          # the class attribute, not the key that was passed
            else:
                if case["addition"] == "yes":
                    return {"skip": "a function without **kwargs cannot declare addition=True"}
                if ex == "private":
                    def f(a=0, _priv=3):
                        return {"a": a} if _priv == 3 else {"a": a, "_priv": _priv}
                    f.__annotations__ = {"a": int}
                else:
                    def f(a=0):
                        return {"a": a}
                    f.__annotations__ = {"a": int}
                r = dict(utype.parse(options=o)(f)(**{"a": 1, key: 2}))
        except Exception as e:
            out = _err(e)
            out["fate"] = "rejected" if out.get("perr") == "ExceedError" else "error"
            return out
        return {"ok": {k: v for k, v in r.items()}, "fate": "kept" if r.get(key) == 2 else "dropped"}
    if kind == "tuple":
        T = Rule.annotate(tuple, *([int] * case["nargs"])) if case["nargs"] else None
        if T is None:
            return {"skip": "empty prefix"}
        value = tuple(range(case["nvals"]))
        if case["src"] == "list":
            value = list(value)
        try:
            r = type_transform(value, T, options=_opts(case))
        except Exception as e:
            return _err(e)
        return {"ok": len(r)}
    if kind == "dataclass":
        from utype.parser.cls import init_dataclass
        S = dc_classes()["S"]
        route = case.get("route", "transform")
        out = {}
        for key, nec, ndl in FLAG_KEYS:
            o = Options(no_explicit_cast=nec, no_data_loss=ndl)

            def run(fn, v=None):
                try:
                    r = fn()
                except Exception as e:
                    return _err(e)
                res = {"ok": dict(r), "cls": type(r).__name__}
                if v is not None:
                    ident = None
                    if r is v:
                        ident = "top"
                    elif isinstance(v, (list, tuple)):
                        for i, x in enumerate(v):
                            if x is r:
                                ident = i
                                break
                    res["ident"] = ident
                return res
            v = dc_dec(case["value"])
            if route == "transform":
                out[key] = run(lambda: type_transform(v, S, options=o), v)
            elif route == "field":
                T = type("Ticket", (Schema,), {"__options__": o, "__annotations__": {"owner": S}})
                out[key] = run(lambda: T(owner=v).owner, v)
            else:
                def owner_of(owner):
                    return owner
                owner_of.__annotations__ = {"owner": S}          # (this module postpones annotations)
                parsed = utype.parse(options=o)(owner_of)
                out[key] = run(lambda: parsed(v), v)
            v2 = dc_dec(case["value"])
            out[key + "_init_v"] = run(lambda: init_dataclass(S, v2, context=o.make_context()))
            if isinstance(v2, (list, tuple)) and v2:
                out[key + "_init_head"] = run(lambda: init_dataclass(S, v2[0], context=o.make_context()))
        return out
    raise ValueError(kind)


def parse_model_lines(case):
    """driver lines for one parse case (the dataclass kind needs one per flag combination)"""
    if case["kind"] == "dataclass":
        return [dict(case, value=dc_to_model(case["value"]), nec=nec, ndl=ndl) for _, nec, ndl in FLAG_KEYS]
    if case["kind"] == "schema":
        return [dict(case, excluded=bool(case.get("excluded")))]
    if case["kind"] == "inherit":
        f = case["field"]
        if f in INHERIT_FIELDS:       # the field's converter under the class's (inherited) flags
            return [mk_case(INHERIT_FIELDS[f], case["value"])]
        if f == "pair":
            return [{"op": "parse", "kind": "tuple", "ndl": ndl, "addition": "unset", "nargs": 2, "nvals": len(case["value"]["q"])}
                    for ndl in (False, True)]
        return [{"op": "parse", "kind": "schema", "ndl": ndl, "addition": "unset"} for ndl in (False, True)]
    return [case]


def compare_inherit(case, io, mo):
    # (1) the delivery is equivalent to declaring the options on the class itself (`declaredFlags`, `contextFlags`)
    for key, _, _ in FLAG_KEYS:
        a, b = io[key], io[key + "_own"]
        if ("ok" in a) != ("ok" in b) or ("ok" in a and canon(a["ok"]) != canon(b["ok"])):
            return f"inherit {case['delivery']} {key}: {a} but with its own declaration {b}"
    # (2) the field goes through the model's converter under those flags
    f = case["field"]
    for key, nec, ndl in FLAG_KEYS:
        got = io[key]
        if f in INHERIT_FIELDS:
            m = mo[0].get(key) if isinstance(mo[0], dict) else None
            if not isinstance(m, dict) or "unmodelled" in m:
                continue
            if jtype(case["value"]) == ttype(INHERIT_FIELDS[f]) and "ok" in got:
                continue
            if ("ok" in m) != ("ok" in got) or ("ok" in m and canon(m["ok"]) != canon(got["ok"])):
                return f"inherit {case['delivery']} {key} field {f}: model {json.dumps(m)[:120]} impl {json.dumps(got)[:120]}"
        elif f == "pair":
            ex = mo[1 if ndl else 0].get("excess")
            if ex and "ok" in got:
                return f"inherit {case['delivery']} {key}: model reports excess items {ex}, impl {got}"
        else:
            fate = mo[1 if ndl else 0].get("fate")
            want = "rejected" if fate == "rejected" else fate
            have = got.get("ok") if "ok" in got else "rejected"
            if want != have:
                return f"inherit {case['delivery']} {key}: unknown key model {want}, impl {have}"
    return None


def spec_inherit(case, io):
    f, v = case["field"], case["value"]
    where = f"class receiving its options by '{case['delivery']}'"
    for key, nec, ndl in FLAG_KEYS[1:]:
        got = io[key]
        if "ok" not in got:
            continue
        if f in INHERIT_FIELDS:
            t = INHERIT_FIELDS[f]
            if jtype(v) != ttype(t):
                if ndl:
                    why = CHECK.ndl_promises(t, v, got["ok"], ENV)
                    if why:
                        return f"no_data_loss ({flag_name(nec, ndl)}) on a {where}: field {f}: {why}"
                if nec:
                    why = CHECK.nec_group(t, v, got["ok"], ENV)
                    if why:
                        return f"no_explicit_cast ({flag_name(nec, ndl)}) on a {where}: field {f}: {why}"
            if "ok" not in io["ff"]:
                return f"mono on a {where}: field {f} converts under {flag_name(nec, ndl)} but not without flags"
            if canon(io["ff"]["ok"]) != canon(got["ok"]):
                return f"mono on a {where}: field {f} under {flag_name(nec, ndl)} {got['ok']} differs from the lenient {io['ff']['ok']}"
        elif f == "pair":
            if ndl and len(v["q"]) > 2:
                return f"no_data_loss ({flag_name(nec, ndl)}) on a {where}: extra tuple item accepted: {got}"
        else:
            if ndl:
                return f"no_data_loss ({flag_name(nec, ndl)}) on a {where}: unknown key was {got['ok']}"
    return None


def compare_parse(case, io, mo):
    kind = case["kind"]
    if isinstance(io, dict) and "skip" in io:
        return None
    if kind == "inherit":
        return compare_inherit(case, io, mo)
    if kind == "options":
        return None if io.get("addition") == mo.get("addition") else f"Options.addition: impl {io} model {mo}"
    if kind == "schema":
        mo = mo[0] if isinstance(mo, list) else mo
        return None if io.get("fate") == mo.get("fate") else f"unknown key: impl {io} model {mo}"
    if kind == "tuple":
        ex = mo.get("excess")
        if ex:
            if io.get("perr") != "TupleExceedError" or io.get("item") != ex[0]:
                return f"tuple excess: model reports items {ex}, impl {io}"
        elif io.get("perr") == "TupleExceedError":
            return f"tuple excess: model reports nothing, impl {io}"
        return None
    if kind == "dataclass":
        v = dc_to_model(case["value"])
        wrapped = case.get("route", "transform") != "transform"       # a field / parameter wraps every failure in ParseError
        for (key, nec, ndl), m in zip(FLAG_KEYS, mo):
            got = io[key]
            if "perr" in m:
                # cls.py:642-652 (ea05768): the TypeError of the unwrapping step surfaces as ParseError (a TypeError subclass)
                if "ok" in got or (not wrapped and got.get("perr") not in ("TypeError", "ParseError")):
                    return f"dataclass input {key}: model raises TypeError, impl {got}"
                continue
            if "instance" in m:
                top = canon(m["instance"]) == canon(v) and jkind(v) not in ("list", "tuple")
                want = "top" if top else 0
                if "ok" not in got or got.get("ident") != want:
                    return f"dataclass input {key}: model returns the {'input' if top else 'first item'} itself (an instance), impl {got}"
                continue
            if "init" not in m:
                continue
            same = canon(m["init"]) == canon(v)
            want = io.get(key + "_init_v") if same else io.get(key + "_init_head")
            strip = lambda d: None if d is None else ({"ok": d["ok"], "cls": d.get("cls")} if "ok" in d else ({"fail": True} if wrapped else d))
            if want is None or json.dumps(strip(want), sort_keys=True, default=str) != json.dumps(strip(got), sort_keys=True, default=str) \
                    or ("ok" in got and got.get("ident") is not None):
                return f"dataclass input {key}: model hands on {'the input' if same else 'the first item'} (init gives {want}), impl {got}"
        return None
    return None


def spec_parse(case, io):
    kind = case["kind"]
    if isinstance(io, dict) and "skip" in io:
        return None
    if kind == "inherit":
        return spec_inherit(case, io)
    ndl, a = case.get("ndl"), case.get("addition")
    if kind == "options":
        if ndl and a in ("unset", "none") and io.get("addition") != "no":
            return f"no_data_loss: Options(no_data_loss=True{'' if a == 'unset' else ', addition=None'}).addition is {io.get('addition')}: unknown keys are not rejected"
    if kind == "schema":
        if ndl and a in ("unset", "none") and io.get("fate") != "rejected":
            what = "unknown key 'b'" if not case.get("excluded") else f"key naming an excluded ({case['excluded']}) attribute"
            return f"no_data_loss: {what} was {io.get('fate')} by a {case['style']} with Options(no_data_loss=True)"
        if not ndl and a != "no" and io.get("fate") == "rejected":
            return None
    if kind == "tuple":
        if ndl and case["nvals"] > case["nargs"] and io.get("perr") != "TupleExceedError":
            return f"no_data_loss: tuple of {case['nvals']} items for a {case['nargs']}-item prefix was not rejected: {io}"
        if "ok" in io and not ndl:
            pass
        # only restrict: what converts under no_data_loss converts without it
    if kind == "dataclass":
        v = case["value"]
        multi_in = jkind_dc(v) in ("list", "tuple")
        for key, nec, ndl_ in FLAG_KEYS[1:]:
            got = io[key]
            if "ok" not in got:
                continue
            if ndl_ and multi_in and len(v["q"]) > 1:
                return f"no_data_loss ({flag_name(nec, ndl_)}): a {jkind_dc(v)} of {len(v['q'])} items collapsed into a data class"
            if "ok" not in io["ff"]:
                return f"mono: data class input converts under {flag_name(nec, ndl_)} but not without flags ({io['ff']})"
            if io["ff"]["ok"] != got["ok"] or io["ff"].get("cls") != got.get("cls"):
                return f"mono: data class built under {flag_name(nec, ndl_)} {got['ok']} ({got.get('cls')}) differs from the lenient one {io['ff']['ok']} ({io['ff'].get('cls')})"
    return None


CHECK = C12()
