import Utv.Lemmas.C12
/-! Helper lemmas for `C12_group_*`: which inputs each converter accepts under no_explicit_cast. -/
namespace Utv.C12
open Utv.Conv Utv.Conv.Outcome
open Utv.Py (FloatV DecV NumV Q)
attribute [local irreducible] bracketed pyStrip splitFirstSep pyLower removeAll strContains endsWith startsWith rstripChar stripL

/-! ## spec vocabulary: exact integer value of a number (independent of the converters) -/

/-- the integer a float `m·2^e` equals, if it has no fractional part -/
def exactIntF : FloatV → Option Int
  | .fin m e =>
    if e ≥ 0 then some (m * 2 ^ e.toNat)
    else if m % (2 ^ (-e).toNat) = 0 then some (m / 2 ^ (-e).toNat) else none
  | _ => none

/-- the integer a Decimal `±c·10^e` equals, if it has no fractional part -/
def exactIntD : DecV → Option Int
  | .fin s c e =>
    let z : Int := if s then -(c : Int) else c
    if e ≥ 0 then some (z * 10 ^ e.toNat)
    else if z % (10 ^ (-e).toNat) = 0 then some (z / 10 ^ (-e).toNat) else none
  | _ => none

/-- the integer a number equals, if it is integral -/
def exactInt? : V → Option Int
  | .bool b => some (if b then 1 else 0)
  | .int _ i => some i
  | .float _ f => exactIntF f
  | .dec _ d => exactIntD d
  | _ => none

theorem Qeq_two (m e n : Int) (h : Q.eq ⟨m, e, 0⟩ ⟨n, 0, 0⟩ = true) : exactIntF (.fin m e) = some n := by
  simp only [Q.eq, Q.scaled] at h
  by_cases he : e ≥ 0
  · have h1 : min e 0 = 0 := by omega
    simp [h1] at h
    simp [exactIntF, he, h]
  · have h1 : min e 0 = e := by omega
    simp [h1] at h
    have hk : (2 : Int) ^ (-e).toNat ≠ 0 := Int.pow_ne_zero (by decide)
    subst h
    simp [exactIntF, he, Int.mul_emod_left, Int.mul_ediv_cancel _ hk]

theorem Qeq_ten (s : Bool) (c : Nat) (e n : Int)
    (h : Q.eq ⟨if s then -(c : Int) else c, 0, e⟩ ⟨n, 0, 0⟩ = true) : exactIntD (.fin s c e) = some n := by
  simp only [Q.eq, Q.scaled] at h
  by_cases he : e ≥ 0
  · have h1 : min e 0 = 0 := by omega
    simp [h1] at h
    simp [exactIntD, he, h]
  · have h1 : min e 0 = e := by omega
    simp [h1] at h
    have hk : (10 : Int) ^ (-e).toNat ≠ 0 := Int.pow_ne_zero (by decide)
    simp only [exactIntD, he, if_false]
    rw [h]
    simp [Int.mul_emod_left, Int.mul_ediv_cancel _ hk]

/-! ## (3) no_explicit_cast: the PROPERTY's table — six primitive groups and two documented exceptions -/

/-- the primitive groups of docs/en/references/options.md: null / boolean (0, 1, True, False) / number
(int, float, Decimal, …) / string (str, bytes, bytearray, memoryview) / array (list, tuple, set, …) / object -/
inductive Group where
  | null | boolean | number | string | array | object
  deriving DecidableEq, Repr

def valueInGroup (g : Group) (v : V) : Bool :=
  match g, v with
  | .null, .none => true
  | .boolean, .bool _ => true
  | .boolean, .int _ i => i == 0 || i == 1
  | .number, .int _ _ => true
  | .number, .float _ _ => true
  | .number, .dec _ _ => true
  | .number, .complex _ _ => true
  | .string, .str _ _ => true
  | .string, .bytes _ _ _ => true
  | .array, .seq _ _ _ => true
  | .object, .dict _ _ => true
  | _, _ => false

/-- the group a converter's target belongs to; the date/time types, UUID, Enum classes have none -/
def targetGroup : Conv → Option Group
  | .null => some .null
  | .bool => some .boolean
  | .int => some .number
  | .float => some .number
  | .decimal => some .number
  | .complex => some .number
  | .str => some .string
  | .bytes => some .string
  | .array => some .array
  | .iter => some .array
  | .dict => some .object
  | .mapping => some .object
  | _ => none

def inGroup (cv : Conv) (v : V) : Bool :=
  match targetGroup cv with
  | some g => valueInGroup g v
  | none => false

/-- the property's documented exceptions: Decimal from str; date/time types from their string and timestamp forms -/
def docException (cv : Conv) (v : V) : Bool :=
  match cv with
  | .decimal => valueInGroup .string v
  | .date => valueInGroup .string v || valueInGroup .number v
  | .datetime => valueInGroup .string v || valueInGroup .number v
  | .timedelta => valueInGroup .string v || valueInGroup .number v
  | .time => valueInGroup .string v
  | _ => false

/-- a float / Decimal / complex whose value is the integer `n` (via `exactIntF/D`, not via the converter's own test) -/
def numValueIs (v : V) (n : Int) : Bool :=
  match v with
  | .float _ f => exactIntF f == some n
  | .dec _ d => exactIntD d == some n
  | .complex re im => exactIntF im == some 0 && exactIntF re == some n
  | _ => false

/-- a float / Decimal / complex whose value is 0 or 1 -/
def isZeroOneValue (v : V) : Bool := numValueIs v 0 || numValueIs v 1

/-- what the unchanged code admits under no_explicit_cast beyond the property's table (each one a listed finding,
findings.d/C12.json; the test suite expects all of them) -/
inductive Deviation where
  | boolAsNumber      -- True / False converted as the ints 1 / 0 (to int, float, Decimal, complex, and as a timestamp)
  | zeroOneLike       -- 1.0, Decimal('0'), (1+0j) → bool
  | temporalCross     -- datetime → date / time, date → datetime / time
  | uuidFromString    -- str / bytes → UUID
  | complexFromStr    -- str / bytes → complex
  deriving DecidableEq, Repr

def isDateLike : V → Bool
  | .date _ _ => true
  | .datetime _ _ _ => true
  | _ => false

def deviation (cv : Conv) (v : V) : Option Deviation :=
  match cv, v with
  | .int, .bool _ => some .boolAsNumber
  | .float, .bool _ => some .boolAsNumber
  | .decimal, .bool _ => some .boolAsNumber
  | .complex, .bool _ => some .boolAsNumber
  | .date, .bool _ => some .boolAsNumber
  | .datetime, .bool _ => some .boolAsNumber
  | .timedelta, .bool _ => some .boolAsNumber
  | .bool, v => if isZeroOneValue v then some .zeroOneLike else none
  | .date, v => if isDateLike v then some .temporalCross else none
  | .datetime, v => if isDateLike v then some .temporalCross else none
  | .time, v => if isDateLike v then some .temporalCross else none
  | .uuid, v => if valueInGroup .string v then some .uuidFromString else none
  | .complex, v => if valueInGroup .string v then some .complexFromStr else none
  | _, _ => none

/-- known defect `complex-from-str-under-nec` -/
def KnownDefect.complexFromStr (cv : Conv) (v : V) : Bool := deviation cv v == some .complexFromStr

/-- the verdict the property allows for a conversion `v ↦ r` by converter `cv` under no_explicit_cast:
the value passes through unchanged, or it lies in the target's primitive group, or a documented exception applies -/
def GroupLaw (cv : Conv) (v r : V) : Prop :=
  r = v ∨ inGroup cv v = true ∨ docException cv v = true

def isNull : V → Bool | .none => true | _ => false
def isString : V → Bool | .str _ _ => true | .bytes _ _ _ => true | _ => false
def isArray : V → Bool | .seq _ _ _ => true | _ => false
def isObject : V → Bool | .dict _ _ => true | _ => false
def isTemporal : V → Bool | .date _ _ => true | .datetime _ _ _ => true | .time _ _ => true | .delta _ _ => true | _ => false
def isUuid : V → Bool | .uuid _ _ => true | _ => false
/-- int (incl. bool), float, Decimal, complex -/
def isNumber (v : V) : Bool :=
  isInst v .int || isInst v .float || isInst v .decimal || (match v with | .complex _ _ => true | _ => false)

/-- `data == n` holds only for a bool, the int `n`, or a float / Decimal / complex of value `n` -/
theorem eqSmall_spec (v : V) (n : Int) (h : eqSmall v n = .ok true) :
    (∃ b, v = .bool b ∧ (if b then 1 else 0) = n) ∨ (∃ c, v = .int c n) ∨ numValueIs v n = true := by
  cases v <;> simp [eqSmall, num?] at h
  case bool b =>
    left
    simp [NumV.eq, Q.eq, Q.scaled] at h
    exact ⟨b, rfl, h⟩
  case int c i =>
    right; left
    simp [NumV.eq, Q.eq, Q.scaled] at h
    exact ⟨c, by rw [h]⟩
  case float c f =>
    right; right
    cases f <;> simp [NumV.eq] at h
    rename_i m e
    simp [numValueIs, Qeq_two m e n h]
  case dec c d =>
    right; right
    cases d with
    | fin s co e =>
      simp [NumV.eq] at h
      simp [numValueIs, Qeq_ten s co e n h]
    | inf s => simp [NumV.eq] at h
    | nan s => cases s <;> simp [NumV.eq] at h
  case complex re im =>
    right; right
    obtain ⟨hz, hre⟩ := h
    have him : exactIntF im = some 0 := by
      cases im <;> simp [fZero] at hz
      subst hz
      simp only [exactIntF]
      split <;> simp
    cases re <;> simp at hre
    rename_i m e
    simp [NumV.eq] at hre
    simp [numValueIs, Qeq_two m e n hre, him]

theorem isInstT_isInst (v : V) (b : Base) (c : Nat) (h : isInstT v (.cls b c) = true) : isInst v b = true := by
  cases c with
  | zero => exact h
  | succ n =>
    simp [isInstT] at h
    simp [isInst, h, Base.sub]

theorem isInst_cases (v : V) (b : Base) (h : isInst v b = true) :
    ∃ b' c, v.cls? = some (b', c) ∧ b'.sub b = true := by
  unfold isInst at h
  split at h
  · rename_i b' c hc; exact ⟨b', c, hc, h⟩
  · simp at h

theorem isInst_dict (v : V) (h : isInst v .dict = true) : isObject v = true := by
  cases v <;> simp [isInst, V.cls?, Base.sub] at h <;>
    first | rfl | (rename_i k _ _; cases k <;> simp [BytesK.base, SeqK.base] at h)

theorem isInst_seq (v : V) (k : SeqK) (h : isInst v k.base = true) : isArray v = true := by
  cases v with
  | seq _ _ _ => rfl
  | bytes k' _ _ => cases k' <;> cases k <;> simp [isInst, V.cls?, Base.sub, SeqK.base, BytesK.base] at h
  | _ => cases k <;> simp [isInst, V.cls?, Base.sub, SeqK.base] at h

theorem isInst_temporal (v : V) (b : Base) (hb : b = .datetime ∨ b = .timedelta ∨ b = .time ∨ b = .date)
    (h : isInst v b = true) : isTemporal v = true := by
  rcases hb with rfl | rfl | rfl | rfl <;>
  (cases v <;> simp [isInst, V.cls?, Base.sub] at h <;>
    first | rfl | (rename_i k _ _; cases k <;> simp [BytesK.base, SeqK.base] at h))

theorem isInst_uuid (v : V) (h : isInst v .uuid = true) : isUuid v = true := by
  cases v <;> simp [isInst, V.cls?, Base.sub] at h <;>
    first | rfl | (rename_i k _ _; cases k <;> simp [BytesK.base, SeqK.base] at h)

theorem isInst_complex (v : V) (h : isInst v .complex = true) : isNumber v = true := by
  cases v <;> simp [isInst, V.cls?, Base.sub] at h <;>
    first | rfl | (rename_i k _ _; cases k <;> simp [BytesK.base, SeqK.base] at h)

theorem scalar_group (d : V)
    (hi : (isInst d .int || isInst d .float || isInst d .str || isInst d .decimal) = true) :
    (isNumber d || isString d) = true := by
  cases d with
  | seq k _ _ => cases k <;> simp [isInst, V.cls?, Base.sub, SeqK.base] at hi
  | bytes k _ _ => simp [isString]
  | _ => simp [isInst, V.cls?, Base.sub] at hi <;> simp [isNumber, isString, isInst, V.cls?, Base.sub]

theorem fromByteLike_group (P : Prims) (f : Flags) (v d : V) (hd : fromByteLike P f v = .ok d)
    (h : (isNumber d || isString d) = true) : (isNumber v || isString v) = true := by
  cases v with
  | bytes k _ _ => simp [isString]
  | _ => simp [fromByteLike] at hd; subst hd; exact h

theorem fromByteLike_str_string (P : Prims) (f : Flags) (v : V) (c : Nat) (s : String)
    (h : fromByteLike P f v = .ok (.str c s)) : isString v = true := by
  cases v <;> simp [fromByteLike] at h <;> rfl

theorem toDatetime_nec_group (P : Prims) (E : Env) (c : Nat) (df : Bool) (v r : V)
    (h : toDatetime P E ⟨true, false⟩ c df v = .ok r) :
    r = v ∨ isDateLike v = true ∨ isNumber v = true ∨ isString v = true := by
  unfold toDatetime at h
  split at h
  · left; simpa using h.symm
  · split at h
    · right; left; rfl
    · right; left; rfl
    · simp only [attemptFrom, if_true, Outcome.ok_bind] at h
      split at h
      · rename_i hi
        simp at hi
        right; right; left
        rcases hi with (hi | hi) | hi <;> simp [isNumber, hi]
      · obtain ⟨d2, hd2, h3⟩ := Outcome.bind_eq_ok.mp h
        split at h3
        · rename_i c' s; right; right; right; exact fromByteLike_str_string P _ v c' s hd2
        all_goals simp at h3

theorem toDatetime_nec_kind (P : Prims) (E : Env) (c : Nat) (df : Bool) (v r : V)
    (h : toDatetime P E ⟨true, false⟩ c df v = .ok r) :
    isDateLike v = true ∨ isNumber v = true ∨ isString v = true := by
  unfold toDatetime at h
  split at h
  · rename_i hi
    left
    have := isInstT_isInst v _ _ hi
    cases v <;> simp [isInst, V.cls?, Base.sub] at this <;> first | rfl | (rename_i k _ _; cases k <;> simp [BytesK.base, SeqK.base] at this)
  · split at h
    · left; rfl
    · left; rfl
    · simp only [attemptFrom, if_true, Outcome.ok_bind] at h
      split at h
      · rename_i hi
        simp at hi
        right; left
        rcases hi with (hi | hi) | hi <;> simp [isNumber, hi]
      · obtain ⟨d2, hd2, h3⟩ := Outcome.bind_eq_ok.mp h
        split at h3
        · rename_i c' s; right; right; exact fromByteLike_str_string P _ v c' s hd2
        all_goals simp at h3

/-- a number in the code's sense (`isinstance` of int / float / Decimal, or complex) is a bool or in the number group -/
theorem isNumber_cases (v : V) (h : isNumber v = true) : (∃ b, v = .bool b) ∨ valueInGroup .number v = true := by
  cases v <;> simp [isNumber, isInst, V.cls?, Base.sub] at h <;> first | exact Or.inl ⟨_, rfl⟩ | (right; rfl) | skip
  all_goals (rename_i k _ _; cases k <;> simp [BytesK.base, SeqK.base] at h)

theorem isString_group (v : V) (h : isString v = true) : valueInGroup .string v = true := by
  cases v <;> simp [isString] at h <;> rfl

theorem isInstAbc_group (v : V) (a : Abc) (h : isInstAbc v a = true) :
    (isArray v || isString v || isObject v) = true := by
  cases v with
  | str _ _ => simp [isString]
  | bytes _ _ _ => simp [isString]
  | seq _ _ _ => simp [isArray]
  | dict _ _ => simp [isObject]
  | _ => cases a <;> simp [isInstAbc, isInst, V.cls?, Base.sub] at h

theorem nec_reduce {X : Flags → Outcome V} (hA : Sub (X ⟨true, true⟩) (X ⟨true, false⟩)) (d : Bool) (r : V)
    (h : X ⟨true, d⟩ = .ok r) : X ⟨true, false⟩ = .ok r := by
  cases d
  · exact h
  · exact hA r h

end Utv.C12
