"""C14 — JSON encoding round-trips through the parser.

A case is a data class declaration (JSON descriptor), an instance of it (JSON descriptor) and the
encoder entry point.  The adapter builds the real `Schema` classes, the instance, encodes it with
`json.dumps(inst, cls=JSONEncoder)` or `JSONSerializer().dumps(inst)`, checks the text with an
independent RFC 8259 recogniser, parses it back with `Cls.__from__(text)` and compares.  The Lean
model (`Utv.C14.encode` / `parse`, run by drivers/C14.lean with the concrete builtins `P0`) predicts the
encoded tree, the parse outcome and the parsed-back value for the same case.  The laws the theorems
assume of CPython's builtins (`PrimLaws`) are audited against the running interpreter on every run.
"""
from __future__ import annotations

import ast
import json
import math
import os
import random
import re
import struct
from datetime import date, datetime, time, timedelta, timezone
from decimal import Decimal
from uuid import UUID

from .common import Check, REPO

FIXED = [True, True, True, True]
SCALARS = ["none", "bool", "int", "float", "str", "bytes", "dec", "date", "datetime", "time", "delta", "uuid"]
FIELD_NAMES = ["a", "b", "name", "value_1", "createdAt", "x9", "data", "id", "type", "kind", "n", "when", "Price", "q_", "z0"]

# tables of the model (lean/Utv/Model/C14.lean), compared with the source in `extra_static`
DATETIME_FORMATS = ["%Y-%m-%d %H:%M:%S", "%Y-%m-%d %H:%M:%S.%f", "%Y-%m-%d %H:%M:%S %f", "%Y-%m-%d %I:%M:%S %p",
                    "%Y-%m-%dT%H:%M:%S", "%Y-%m-%dT%H:%M:%S.%f", "%a, %d %b %Y %H:%M:%S", "%a %b %d %H:%M:%S %Y",
                    "%b %d %H:%M:%S %Y", "%Y-%m-%d %H:%M"]
DATE_FORMATS = ["%Y-%m-%d", "%d %b %Y", "%d %B %Y", "%Y/%m/%d", "%d/%m/%Y", "%m/%d/%Y", "%d-%m-%Y", "%A, %d %B %Y",
                "%a, %d %b %Y", "%Y%m%d"]
DURATION_REGS = [
    r"^(?:(?P<days>-?\d+) (days?, )?)?((?:(?P<hours>-?\d+):)(?=\d+:\d+))?(?:(?P<minutes>-?\d+):)?(?P<seconds>-?\d+)(?:\.(?P<microseconds>\d{1,6})\d{0,6})?$",
    r"^(?P<sign>[-+]?)P(?:(?P<days>\d+(.\d+)?)D)?(?:T(?:(?P<hours>\d+(.\d+)?)H)?(?:(?P<minutes>\d+(.\d+)?)M)?(?:(?P<seconds>\d+(.\d+)?)S)?)?$",
]
NULL_VALUES = ("null", "none", "nil")
FALSE_VALUES = ("0", "false", "no", "off", "f")
TRUE_VALUES = ("1", "true", "yes", "on", "t", "y")
MAX_SAFE_NUMBER = 9007199254740991
ENCODER_CLASSES = ["Mapping", "set", "tuple", "unprovided.__class__", "bytes,memoryview,bytearray", "PurePath", "io.BytesIO",
                   "date", "IPv4Network,IPv4Address,IPv6Network,IPv6Address", "timedelta", "time", "uuid.UUID",
                   "decimal.Decimal", "Enum"]
MIN_NORMAL = Decimal(2) ** -1022


# ----------------------------------------------------------------------------------------------
# descriptors <-> Python
# ----------------------------------------------------------------------------------------------

def cps(s: str):
    return [ord(c) for c in s]


def uncps(l) -> str:
    return "".join(chr(c) for c in l)


def enc_f(f: float):
    if math.isnan(f):
        return ["nan"]
    if math.isinf(f):
        return ["inf", f < 0]
    neg = math.copysign(1.0, f) < 0
    m, den = abs(f).as_integer_ratio()
    e = -(den.bit_length() - 1)
    while m != 0 and m % 2 == 0:
        m //= 2
        e += 1
    if m == 0:
        e = 0
    return ["fin", neg, str(m), str(e)]


def dec_f(j) -> float:
    if j[0] == "nan":
        return float("nan")
    if j[0] == "inf":
        return float("-inf") if j[1] else float("inf")
    m, e = int(j[2]), int(j[3])
    v = math.ldexp(m, e)
    return -v if j[1] else v


def enc_d(d: Decimal):
    sign, digits, exp = d.as_tuple()
    if exp == "F":
        return ["inf", bool(sign)]
    if exp in ("n", "N"):
        return ["nan"]
    return ["fin", bool(sign), str(int("".join(map(str, digits)) or "0")), str(exp)]


def dec_d(j) -> Decimal:
    if j[0] == "nan":
        return Decimal("NaN")
    if j[0] == "inf":
        return Decimal("-Infinity" if j[1] else "Infinity")
    c = int(j[2])
    return Decimal((1 if j[1] else 0, tuple(int(ch) for ch in str(c)), int(j[3])))


def tz_of(us):
    return None if us is None else timezone(timedelta(microseconds=int(us)))


def us_of(td: timedelta) -> int:
    return (td.days * 86400 + td.seconds) * 1000000 + td.microseconds


def off_of(x):
    o = x.utcoffset()
    return None if o is None else str(us_of(o))



# ----------------------------------------------------------------------------------------------
# data class declarations: the short form {"data": [[name, T], ...]} (plain required fields) and the rich form
# {"data": {"id", "opts": {ci, gen, max_depth, dfs, mode}, "fields": [{att, alias, alias_from, ci, role, default,
# expr, mode, ty}, ...]}}.  A self-referencing class is written unrolled: nested occurrences carry the same "id",
# {"cut": id} stands for the class itself where the unrolling stops (no instance is that deep).
# ----------------------------------------------------------------------------------------------

def camel(att: str) -> str:
    """AliasGenerator.camel on a snake_case attribute name (utils/style.py:108-171)"""
    if "_" in att:
        val = "".join(w.capitalize() for w in att.split("_"))
    elif att.islower():
        val = att.capitalize()
    else:
        val = att
    return val[0].lower() + val[1:] if val else val


def pascal(att: str) -> str:
    if "_" in att:
        return "".join(w.capitalize() for w in att.split("_"))
    return att.capitalize() if att.islower() else att


GENERATORS = {"camel": camel, "pascal": pascal}


def is_rich(t) -> bool:
    return isinstance(t["data"], dict)


def views(t):
    """per field of a data type: what the parser derives from the declaration (field.py:1338-1356, 464-476, 555-559)"""
    d = t["data"]
    if not isinstance(d, dict):
        return [{"att": uncps(n), "name": uncps(n), "keys": [uncps(n)], "ci": False, "kind": ["input", True, None],
                 "role": "plain", "ty": ft, "emit": True} for n, ft in d]
    o = d.get("opts", {})
    out = []
    for f in d["fields"]:
        att = f["att"]
        name = f.get("alias") or (GENERATORS[o["gen"]](att) if o.get("gen") else att)
        keys = [name]
        for a in [att] + list(f.get("alias_from") or []):
            if a not in keys:
                keys.append(a)
        ci = bool(f["ci"]) if f.get("ci") is not None else bool(o.get("ci"))
        role = f.get("role", "plain")
        # a field whose mode does not contain the class's mode takes no input and gives no output
        disabled = bool(o.get("mode")) and bool(f.get("mode")) and o["mode"] not in f["mode"]
        dflt = f.get("default")
        lit = dflt if (dflt is not None and next(iter(dflt)) in ("none", "bool", "int", "str")) else None
        if disabled or role == "nooutput":
            kind, emit = ["nooutput"], False
        elif role == "noinput":
            kind, emit = ["noinput", dflt], True
        elif role == "prop":
            kind, emit = ["prop", f["expr"]], True
        elif role == "optional":
            kind, emit = ["input", False, None], True
        elif role == "default":
            kind, emit = (["input", False, lit] if lit is not None else ["input", True, None]), True
        else:
            kind, emit = ["input", True, None], True
        out.append({"att": att, "name": name, "keys": keys, "ci": ci, "kind": kind, "role": "nooutput" if disabled else role,
                    "ty": f["ty"], "emit": emit, "raw": f})
    # property expressions name their dependencies by attribute; the model wants output names
    names = {v["att"]: v["name"] for v in out}
    for v in out:
        if v["kind"][0] == "prop":
            v["kind"] = ["prop", [v["kind"][1][0], [cps(names[a]) for a in v["kind"][1][1]]]]
    return out


def field_types(t):
    return {json.dumps(cps(v["name"])): v["ty"] for v in views(t)}


def class_opts(t):
    d = t["data"]
    if not isinstance(d, dict):
        return {"maxDepth": None, "dataFirst": False}
    o = d.get("opts", {})
    vs = views(t)
    # Options.data_first_search defaults to False (options.py:89), so the field-first search runs unless asked otherwise
    dfs = o.get("dfs")
    return {"maxDepth": o.get("max_depth"), "dataFirst": bool(dfs)}


def model_type(t):
    """the declaration as the Lean driver reads it"""
    if isinstance(t, str):
        return t
    (tag, e), = t.items()
    if tag == "enum":
        return t
    if tag in ("list", "set", "tuplevar", "optional"):
        return {tag: model_type(e)}
    if tag == "tuple":
        return {"tuple": [model_type(x) for x in e]}
    if tag == "dict":
        return {"dict": [e[0], model_type(e[1])]}
    if tag == "cut":
        return {"cut": None}
    if tag == "data":
        if not is_rich(t):
            return {"data": [[n, model_type(ft)] for n, ft in e]}
        return {"data": dict(class_opts(t), fields=[
            {"name": cps(v["name"]), "keys": [cps(k) for k in v["keys"]], "ci": v["ci"], "kind": v["kind"],
             "ty": model_type(v["ty"])} for v in views(t)])}
    raise ValueError(tag)


def eval_expr(expr, items_by_att):
    """the value of an output property: ["sum", [atts]] over ints, ["concat", [atts]] over strs"""
    kind, deps = expr
    vals = [items_by_att.get(a) for a in deps]
    if any(v is None for v in vals):
        return None
    if kind == "sum":
        return {"int": str(sum(int(v["int"]) for v in vals))}
    return {"str": [c for v in vals for c in v["str"]]}


class World:
    """the real classes behind the descriptors of one case (built inside the worker)"""

    serial = 0

    def __init__(self):
        self.n = 0
        self.cache = {}
        self.names = {}

    def enum(self, e):
        from enum import Enum
        k = json.dumps(e, sort_keys=True)
        if k not in self.cache:
            self.n += 1
            members = [(uncps(n), int(v["int"]) if "int" in v else tuple(int(x) for x in v["tuple"]) if "tuple" in v else uncps(v["str"]))
                       for n, v in e["members"]]
            kw = {}
            if e["mixin"] == "int":
                kw["type"] = int
            elif e["mixin"] == "str":
                kw["type"] = str
            self.cache[k] = Enum(f"E{self.n}", members, **kw)
        return self.cache[k]

    def data(self, fields):
        from utype import Schema
        if isinstance(fields, dict):
            return self.rich(fields)
        k = "data:" + json.dumps(fields, sort_keys=True)
        if k not in self.cache:
            self.n += 1
            ann = {uncps(n): self.ty(t) for n, t in fields}
            self.cache[k] = type(f"S{self.n}", (Schema,), {"__annotations__": ann, "__module__": __name__})
        return self.cache[k]

    def rich(self, d):
        """a Schema subclass with aliases, case-insensitivity, options, modes, defaults, output properties;
        every unrolled occurrence of a self-referencing class (same id) is the one real class"""
        import sys as _sys
        from utype import Schema, Field, Options
        from utype.utils.style import AliasGenerator
        k = "rich:" + d["id"]
        if k in self.cache:
            return self.cache[k]
        World.serial += 1
        cname = f"K{World.serial}"
        self.names[d["id"]] = cname
        o = d.get("opts", {})
        okw = {}
        if o.get("ci"):
            okw["case_insensitive"] = True
        if o.get("gen"):
            okw["alias_generator"] = getattr(AliasGenerator, o["gen"])
        if o.get("max_depth"):
            okw["max_depth"] = o["max_depth"]
        if o.get("dfs") is not None:
            okw["data_first_search"] = o["dfs"]
        if o.get("mode"):
            okw["mode"] = o["mode"]
        ns = {"__module__": __name__, "__annotations__": {}}
        if okw:
            ns["__options__"] = Options(**okw)
        for f in d["fields"]:
            att = f["att"]
            role = f.get("role", "plain")
            if role == "prop":
                kind, deps = f["expr"]
                if kind == "sum":
                    def fget(self, _deps=tuple(deps)):
                        return sum(getattr(self, a) for a in _deps)
                    fget.__annotations__ = {"return": int}
                else:
                    def fget(self, _deps=tuple(deps)):
                        return "".join(getattr(self, a) for a in _deps)
                    fget.__annotations__ = {"return": str}
                fget.__name__ = att
                fkw = {"dependencies": list(deps)}
                if f.get("alias"):
                    fkw["alias"] = f["alias"]
                ns[att] = property(Field(**fkw)(fget))
                continue
            ns["__annotations__"][att] = self.ty(f["ty"], self_id=d["id"])
            fkw = {}
            if f.get("alias"):
                fkw["alias"] = f["alias"]
            if f.get("alias_from"):
                fkw["alias_from"] = list(f["alias_from"])
            if f.get("ci") is not None:
                fkw["case_insensitive"] = f["ci"]
            if f.get("mode"):
                fkw["mode"] = f["mode"]
            if role == "nooutput":
                fkw["no_output"] = True
            if role == "noinput":
                fkw["no_input"] = True
            if role == "optional":
                fkw["required"] = False
            if f.get("default") is not None:
                dv = f["default"]
                if dv == {"list": []}:
                    fkw["default_factory"] = list
                else:
                    fkw["default"] = self.val(f["ty"], dv)
            if fkw:
                ns[att] = Field(**fkw)
        cls = type(cname, (Schema,), ns)
        setattr(_sys.modules[__name__], cname, cls)      # forward references resolve through the module globals
        self.cache[k] = cls
        return cls

    def ty(self, t, self_id=None):
        from typing import Dict, List, Optional, Set, Tuple
        from enum import Enum  # noqa
        if isinstance(t, str):
            return {"none": type(None), "bool": bool, "int": int, "float": float, "str": str, "bytes": bytes,
                    "dec": Decimal, "date": date, "datetime": datetime, "time": time, "delta": timedelta, "uuid": UUID}[t]
        (tag, e), = t.items()
        if tag == "enum":
            return self.enum(e)
        if tag == "list":
            return List[self.ty(e, self_id)]
        if tag == "set":
            return Set[self.ty(e, self_id)]
        if tag == "tuple":
            return Tuple[tuple(self.ty(x, self_id) for x in e)] if e else Tuple[()]
        if tag == "tuplevar":
            return Tuple[self.ty(e, self_id), ...]
        if tag == "dict":
            return Dict[{"str": str, "int": int}[e[0]], self.ty(e[1], self_id)]
        if tag == "cut":
            return self.names[e] if e == self_id else self.cache["rich:" + e]
        if tag == "data":
            if isinstance(e, dict) and e["id"] == self_id:
                return self.names[e["id"]]           # the class itself: a forward reference by name
            return self.data(e)
        if tag == "optional":
            return Optional[self.ty(e, self_id)]
        raise ValueError(tag)

    def val(self, t, v):
        """descriptor -> Python value of declared type t"""
        (tag, e), = [(k, x) for k, x in v.items() if k != "hidden"]
        if tag == "none":
            return None
        if isinstance(t, dict) and "optional" in t:
            return self.val(t["optional"], v)
        if tag == "bool":
            return bool(e)
        if tag == "int":
            return int(e)
        if tag == "float":
            return dec_f(e)
        if tag == "str":
            return uncps(e)
        if tag == "bytes":
            return bytes(e)
        if tag == "dec":
            return dec_d(e)
        if tag == "date":
            return date(*e)
        if tag == "datetime":
            return datetime(*e[:7], tzinfo=tz_of(e[7]))
        if tag == "time":
            return time(*e[:4], tzinfo=tz_of(e[4]))
        if tag == "delta":
            return timedelta(microseconds=int(e))
        if tag == "uuid":
            return UUID(int=int(e))
        if tag == "enum":
            return list(self.enum(t["enum"]))[e]
        if tag == "list":
            return [self.val(t["list"], x) for x in e]
        if tag == "set":
            return {self.val(t["set"], x) for x in e}
        if tag == "tuple":
            if "tuple" in t:
                return tuple(self.val(tt, x) for tt, x in zip(t["tuple"], e))
            return tuple(self.val(t["tuplevar"], x) for x in e)
        if tag == "dict":
            return {(int(k["int"]) if "int" in k else uncps(k["str"])): self.val(t["dict"][1], x) for k, x in e}
        if tag == "data":
            cls = self.data(t["data"])
            vs = {json.dumps(cps(fv["name"])): fv for fv in views(t)}
            kw = {}
            for n, x in e:
                fv = vs[json.dumps(n)]
                if fv["role"] in ("prop", "noinput"):
                    continue                       # computed / defaulted by the class
                kw[fv["att"]] = self.val(fv["ty"], x)
            for a, x in (v.get("hidden") or []):   # values of no_output fields (attributes only)
                fv = next(f for f in vs.values() if f["att"] == a)
                kw[a] = self.val(fv["ty"], x)
            return cls(**kw)
        raise ValueError(tag)

    def desc(self, t, x):
        """Python value -> canonical descriptor, checking the exact type against t"""
        if isinstance(t, dict) and "optional" in t:
            return {"none": None} if x is None else self.desc(t["optional"], x)
        if isinstance(t, str):
            want = self.ty(t)
            if type(x) is not want:
                raise TypeError(f"{type(x).__name__} for {t}")
            if t == "none":
                return {"none": None}
            if t == "bool":
                return {"bool": x}
            if t == "int":
                return {"int": str(x)}
            if t == "float":
                return {"float": enc_f(x)}
            if t == "str":
                return {"str": cps(x)}
            if t == "bytes":
                return {"bytes": list(x)}
            if t == "dec":
                return {"dec": enc_d(x)}
            if t == "date":
                return {"date": [x.year, x.month, x.day]}
            if t == "datetime":
                return {"datetime": [x.year, x.month, x.day, x.hour, x.minute, x.second, x.microsecond, off_of(x)]}
            if t == "time":
                return {"time": [x.hour, x.minute, x.second, x.microsecond, off_of(x)]}
            if t == "delta":
                return {"delta": str(us_of(x))}
            if t == "uuid":
                return {"uuid": str(x.int)}
        (tag, e), = t.items()
        if tag == "enum":
            cls = self.enum(e)
            if type(x) is not cls:
                raise TypeError(f"{type(x).__name__} for enum")
            return {"enum": list(cls).index(x)}
        if tag == "list":
            if type(x) is not list:
                raise TypeError(f"{type(x).__name__} for list")
            return {"list": [self.desc(e, y) for y in x]}
        if tag == "set":
            if type(x) is not set:
                raise TypeError(f"{type(x).__name__} for set")
            return {"set": sorted((self.desc(e, y) for y in x), key=lambda d: json.dumps(d, sort_keys=True))}
        if tag in ("tuple", "tuplevar"):
            if type(x) is not tuple:
                raise TypeError(f"{type(x).__name__} for tuple")
            if tag == "tuple":
                if len(x) != len(e):
                    raise TypeError("tuple length")
                return {"tuple": [self.desc(tt, y) for tt, y in zip(e, x)]}
            return {"tuple": [self.desc(e, y) for y in x]}
        if tag == "dict":
            if type(x) is not dict:
                raise TypeError(f"{type(x).__name__} for dict")
            items = []
            for k, y in x.items():
                if e[0] == "int":
                    if type(k) is not int:
                        raise TypeError("dict key")
                    kd = {"int": str(k)}
                else:
                    if type(k) is not str:
                        raise TypeError("dict key")
                    kd = {"str": cps(k)}
                items.append([kd, self.desc(e[1], y)])
            return {"dict": sorted(items, key=lambda kv: json.dumps(kv[0], sort_keys=True))}
        if tag == "data":
            cls = self.data(e)
            if type(x) is not cls:
                raise TypeError(f"{type(x).__name__} for data class")
            vs = views(t)
            if not set(x.keys()) <= {fv["name"] for fv in vs}:
                raise TypeError("data class keys")
            if not is_rich(t) and set(x.keys()) != {fv["name"] for fv in vs}:
                raise TypeError("data class keys")
            return {"data": [[cps(fv["name"]), self.desc(fv["ty"], x[fv["name"]])] for fv in vs if fv["name"] in x]}
        if tag == "cut":
            raise TypeError("deeper than the unrolled declaration")
        raise ValueError(tag)


def canon_val(v):
    """sort sets and dicts of a value descriptor (cases are generated canonical; this is for model output)"""
    (tag, e), = [(k, x) for k, x in v.items() if k != "hidden"]
    if tag in ("list", "tuple"):
        return {tag: [canon_val(x) for x in e]}
    if tag == "set":
        return {"set": sorted((canon_val(x) for x in e), key=lambda d: json.dumps(d, sort_keys=True))}
    if tag == "dict":
        return {"dict": sorted(([k, canon_val(x)] for k, x in e), key=lambda kv: json.dumps(kv[0], sort_keys=True))}
    if tag == "data":
        return {"data": [[n, canon_val(x)] for n, x in e]}
    return v


# ----------------------------------------------------------------------------------------------
# RFC 8259 recogniser (independent of the json module) and tree canonicalisation
# ----------------------------------------------------------------------------------------------

_WS = " \t\n\r"
_NUM = re.compile(r"-?(?:0|[1-9][0-9]*)(?:\.[0-9]+)?(?:[eE][+-]?[0-9]+)?")


def is_standard_json(s: str) -> bool:
    n = len(s)

    def ws(i):
        while i < n and s[i] in _WS:
            i += 1
        return i

    def string(i):
        if i >= n or s[i] != '"':
            return -1
        i += 1
        while i < n:
            c = s[i]
            if c == '"':
                return i + 1
            if ord(c) < 0x20:
                return -1
            if c == "\\":
                if i + 1 >= n:
                    return -1
                d = s[i + 1]
                if d in '"\\/bfnrt':
                    i += 2
                elif d == "u":
                    h = s[i + 2:i + 6]
                    if len(h) != 4 or any(ch not in "0123456789abcdefABCDEF" for ch in h):
                        return -1
                    i += 6
                else:
                    return -1
            else:
                i += 1
        return -1

    def value(i, depth):
        if depth > 200:
            return -1
        i = ws(i)
        if i >= n:
            return -1
        c = s[i]
        if c == "{":
            i = ws(i + 1)
            if i < n and s[i] == "}":
                return i + 1
            while True:
                i = string(ws(i))
                if i < 0:
                    return -1
                i = ws(i)
                if i >= n or s[i] != ":":
                    return -1
                i = value(i + 1, depth + 1)
                if i < 0:
                    return -1
                i = ws(i)
                if i < n and s[i] == ",":
                    i += 1
                    continue
                if i < n and s[i] == "}":
                    return i + 1
                return -1
        if c == "[":
            i = ws(i + 1)
            if i < n and s[i] == "]":
                return i + 1
            while True:
                i = value(i, depth + 1)
                if i < 0:
                    return -1
                i = ws(i)
                if i < n and s[i] == ",":
                    i += 1
                    continue
                if i < n and s[i] == "]":
                    return i + 1
                return -1
        if c == '"':
            return string(i)
        for lit in ("true", "false", "null"):
            if s.startswith(lit, i):
                return i + len(lit)
        m = _NUM.match(s, i)
        if m and m.end() > i:
            return m.end()
        return -1

    try:
        end = value(0, 0)
    except RecursionError:
        return False
    return end >= 0 and ws(end) == n


class _F:
    def __init__(self, s):
        self.v = float(s)


def tree_of_text(text: str):
    def conv(x):
        if x is None or isinstance(x, bool):
            return x
        if isinstance(x, int):
            return {"i": str(x)}
        if isinstance(x, float):
            return {"f": enc_f(x)}
        if isinstance(x, str):
            return {"s": cps(x)}
        if isinstance(x, list):
            return [conv(y) for y in x]
        if isinstance(x, dict):
            return {"o": [[cps(k), conv(y)] for k, y in x.items()]}
        raise TypeError(type(x))

    return conv(json.loads(text))


def canon_tree(t, tr):
    """sort the arrays that come from sets and the members of objects"""
    if isinstance(tr, list):
        if isinstance(t, dict):
            (tag, e), = t.items()
            if tag == "optional":
                return canon_tree(e, tr)
            if tag == "set":
                return sorted((canon_tree(e, x) for x in tr), key=lambda d: json.dumps(d, sort_keys=True))
            if tag in ("list", "tuplevar"):
                return [canon_tree(e, x) for x in tr]
            if tag == "tuple":
                return [canon_tree(tt, x) for tt, x in zip(e, tr)] + tr[len(e):]
        return tr
    if isinstance(tr, dict) and "o" in tr:
        sub = {}
        if isinstance(t, dict):
            (tag, e), = t.items()
            if tag == "optional":
                return canon_tree(e, tr)
            if tag == "data":
                sub = field_types(t)
            elif tag == "dict":
                sub = None
                vt = e[1]
        items = []
        for k, x in tr["o"]:
            tt = vt if sub is None else sub.get(json.dumps(k))
            items.append([k, canon_tree(tt, x) if tt is not None else x])
        return {"o": sorted(items, key=lambda kv: kv[0])}
    return tr


# ----------------------------------------------------------------------------------------------
# the adapter (runs in worker processes, real utype from $UTYPE_REPO)
# ----------------------------------------------------------------------------------------------

_INF = re.compile(r'(?<![\w"])-?Infinity(?![\w"])')


def _one(w, ft, fv, mode):
    """round trip of one field alone: None when the property holds for it, else the clause that fails"""
    from utype.utils.encode import JSONEncoder, JSONSerializer
    t = {"data": [[cps("f"), ft]]}
    try:
        inst = w.val(t, {"data": [[cps("f"), fv]]})
        raw = JSONSerializer().dumps(inst) if mode == "serializer" else json.dumps(inst, cls=JSONEncoder)
    except Exception:
        return "enc"
    text = raw.decode("utf-8") if isinstance(raw, bytes) else raw
    if not is_standard_json(text):
        return "std" if is_standard_json(_INF.sub("0", text)) else "std-other"
    try:
        back = w.data(t["data"]).__from__(raw)
    except Exception:
        return "parse"
    return None if back == inst else "equal"


def apply_ops(w, t, inst, ops):
    """mutations through the public API: attribute / item assignment, update(), |="""
    by_att = {fv["att"]: fv for fv in views(t)}

    def conv(pairs):
        return {k: w.val(by_att[a]["ty"], x) for a, k, x in pairs}

    for op in ops:
        kind, pairs = op[0], op[1]           # pairs: [attname, key to use (attribute name or output name), value]
        if kind == "setattr":
            a, _, x = pairs[0]
            setattr(inst, a, w.val(by_att[a]["ty"], x))
        elif kind == "setitem":
            a, k, x = pairs[0]
            inst[k] = w.val(by_att[a]["ty"], x)
        elif kind == "update":
            inst.update(conv(pairs))
        elif kind == "update_kw":
            inst.update(**{a: w.val(by_att[a]["ty"], x) for a, _, x in pairs})
        elif kind == "ior":
            inst |= conv(pairs)
        else:
            raise ValueError(kind)
    return inst


# ---- the text is parsed more than once: every parse must give the encoded instance ---------------------------------
# (state an earlier parse leaves behind - a memo of decoded documents, a recycled container - must not reach a later one)
SCRIBBLE = "†scribbled"


def _mutables(x, out):
    """every mutable container reachable from x, by identity (a Schema instance is a dict)"""
    if isinstance(x, (list, set, tuple, frozenset)):
        if isinstance(x, (list, set)):
            if id(x) in out:
                return
            out[id(x)] = x
        for y in list(x):
            _mutables(y, out)
    elif isinstance(x, dict):
        if id(x) in out:
            return
        out[id(x)] = x
        for y in list(dict.values(x)):
            _mutables(y, out)


def _scribble(x):
    """in-place changes an owner of a freshly parsed object may make: append / add / item assignment on every list,
    set and plain dict inside it (the instance's own items are left to the public API: C07)"""
    from utype import Schema
    objs = {}
    _mutables(x, objs)
    n = 0
    for o in objs.values():
        if isinstance(o, list):
            if o and not isinstance(o[0], (list, dict, set)):
                o[0] = SCRIBBLE
            o.append(SCRIBBLE)
            n += 1
        elif isinstance(o, set):
            o.add(SCRIBBLE)
            n += 1
        elif isinstance(o, dict) and not isinstance(o, Schema):
            for k in list(o)[:1]:
                if not isinstance(o[k], (list, dict, set)):
                    o[k] = SCRIBBLE
            o[SCRIBBLE] = SCRIBBLE
            n += 1
    return n


def _eq(a, b):
    try:
        return bool(a == b) and bool(b == a)
    except Exception:
        return False


def reparse(cls, raw, inst, first, snap, out):
    """parse the same text again (equal, nothing mutable shared with the first result or the encoded instance),
    change the first result in place, parse the text a third time (still equal; the encoded instance untouched)"""
    try:
        before = snap(inst)
    except Exception as e:
        out["again"] = "snap:" + type(e).__name__
        return
    try:
        second = cls.__from__(raw)
    except Exception as e:
        out["again"] = "error:" + type(e).__name__
        return
    out["again"] = "ok"
    out["again_equal"] = _eq(second, inst)
    a, b, c = {}, {}, {}
    _mutables(first, a)
    _mutables(second, b)
    _mutables(inst, c)
    out["shared"] = sorted({type(a[i]).__name__ for i in a if i in b or i in c} | {type(b[i]).__name__ for i in b if i in c})
    out["scribbled"] = _scribble(first)
    try:
        third = cls.__from__(raw)
    except Exception as e:
        out["third"] = "error:" + type(e).__name__
        return
    out["third"] = "ok"
    out["third_equal"] = _eq(third, inst)
    try:
        out["inst_intact"] = snap(inst) == before
        out["third_same"] = snap(third) == before if out.get("strict_snap") else None
    except Exception as e:
        out["inst_intact"] = "snap:" + type(e).__name__


def reparse_spec(io):
    if io.get("again") is None:
        return None
    if io["again"] != "ok":
        return f"parsing the same encoded text a second time failed: {io['again']}"
    if not io.get("again_equal"):
        return "the second parse of the same encoded text is not equal to the encoded instance"
    if io.get("shared"):
        return f"two parses of the same text (or a parse and the encoded instance) share a mutable object: {io['shared']}"
    if io.get("third") != "ok":
        return f"parsing the same text again after the first result was changed in place failed: {io.get('third')}"
    if not io.get("third_equal") or io.get("third_same") is False:
        return ("after the first parsed instance was changed in place (append / add / item assignment on its containers), "
                "parsing the same encoded text again gives an instance that is not equal to the encoded one")
    if io.get("inst_intact") is not True:
        return "changing the parsed instance in place changed the encoded instance"
    return None


# ---- containers taken over as they are: bare list / dict, Any, List[list], Dict[str, list] ... ------------------------
# JSON-faithful by definition when they hold JSON values (None bool int finite-float str list dict-with-str-keys).
# Not in the Lean model (the model's types are all typed): these cases are judged by the specification only.
RAW_KINDS = ["list", "dict", "any", "list_list", "dict_list", "list_dict", "opt_list", "opt_dict", "list_any", "dict_any",
             "tuple_list", "str", "int", "list_int", "date"]
RAW_NAMES = ["tags", "meta", "rows", "extra", "payload", "f0", "f1", "f2"]
RAW_STRS = ["", "a", "b", "null", "[1, 2]", "{}", "2020-01-02", "1", "true", "é中\U0001F600", "line\nbreak\t\"q\"\\", " ", "Infinity"]


def raw_pytype(kind):
    import typing
    from datetime import date as _date
    return {"list": list, "dict": dict, "any": typing.Any, "list_list": typing.List[list], "dict_list": typing.Dict[str, list],
            "list_dict": typing.List[dict], "opt_list": typing.Optional[list], "opt_dict": typing.Optional[dict],
            "list_any": typing.List[typing.Any], "dict_any": typing.Dict[str, typing.Any], "tuple_list": typing.Tuple[list, dict],
            "str": str, "int": int, "list_int": typing.List[int], "date": _date}[kind]


def gen_json(rng, depth):
    r = rng.random()
    if depth <= 0 or r < 0.45:
        k = rng.randrange(7)
        if k == 0:
            return None
        if k == 1:
            return rng.random() < 0.5
        if k == 2:
            return rng.choice([0, 1, -1, 2, 99, 2 ** 53 + 1, -10 ** 30, rng.randint(-1000, 1000)])
        if k == 3:
            return rng.choice([0.0, -0.0, 0.5, 1.0, -2.75, 1e300, 5e-324, 0.1, 123456.789])
        return rng.choice(RAW_STRS)
    if r < 0.75:
        return [gen_json(rng, depth - 1) for _ in range(rng.choice([0, 1, 2, 2, 3]))]
    return gen_json_dict(rng, depth)


def gen_json_dict(rng, depth):
    keys = rng.sample(["a", "b", "pages", "", "1", "Key", "ké", "x y", "null"], rng.choice([0, 1, 2, 2, 3]))
    return {k: gen_json(rng, depth - 1) for k in keys}


def gen_json_list(rng, depth, n=None):
    return [gen_json(rng, depth - 1) for _ in range(rng.choice([0, 1, 2, 2, 3]) if n is None else n)]


def gen_raw_value(rng, kind, depth=3):
    if kind == "list":
        return gen_json_list(rng, depth)
    if kind == "dict":
        return gen_json_dict(rng, depth)
    if kind == "any":
        return gen_json(rng, depth)
    if kind == "list_list":
        return [gen_json_list(rng, depth - 1) for _ in range(rng.choice([0, 1, 2, 3]))]
    if kind == "dict_list":
        return {k: gen_json_list(rng, depth - 1) for k in rng.sample(["a", "b", "pages", "Key"], rng.choice([0, 1, 2]))}
    if kind == "list_dict":
        return [gen_json_dict(rng, depth - 1) for _ in range(rng.choice([0, 1, 2]))]
    if kind == "opt_list":
        return None if rng.random() < 0.2 else gen_json_list(rng, depth)
    if kind == "opt_dict":
        return None if rng.random() < 0.2 else gen_json_dict(rng, depth)
    if kind == "list_any":
        return gen_json_list(rng, depth)
    if kind == "dict_any":
        return gen_json_dict(rng, depth)
    if kind == "tuple_list":
        return [gen_json_list(rng, depth - 1), gen_json_dict(rng, depth - 1)]          # carried as a list, built as a tuple
    if kind == "str":
        return rng.choice(RAW_STRS)
    if kind == "int":
        return rng.choice([0, -1, 7, 2 ** 53 + 1])
    if kind == "list_int":
        return [rng.randint(-5, 5) for _ in range(rng.choice([0, 1, 3]))]
    if kind == "date":
        return rng.choice(["2024-02-29", "1970-01-01", "9999-12-31"])                  # carried as ISO text
    raise ValueError(kind)


def gen_raw_case(rng):
    n = rng.choice([1, 1, 2, 3, 4])
    names = rng.sample(RAW_NAMES, n)
    kinds = [rng.choice(RAW_KINDS[:11]) if i == 0 or rng.random() < 0.7 else rng.choice(RAW_KINDS) for i in range(n)]
    return {"raw": True, "fields": [[nm, k, gen_raw_value(rng, k)] for nm, k in zip(names, kinds)],
            "mode": rng.choice(["encoder", "encoder", "serializer"]), "cfg": FIXED}


def raw_build(kind, v):
    import copy
    from datetime import date as _date
    if kind == "tuple_list":
        return (copy.deepcopy(v[0]), copy.deepcopy(v[1]))
    if kind == "date":
        return _date.fromisoformat(v)
    return copy.deepcopy(v)


def strict_repr(x):
    """a value with the types of its parts (True is not 1 is not 1.0; -0.0 is not 0.0), dict items in sorted order"""
    if isinstance(x, dict):
        return ["dict", sorted([[strict_repr(k), strict_repr(v)] for k, v in dict.items(x)], key=repr)]
    if isinstance(x, (list, tuple)):
        return [type(x).__name__, [strict_repr(y) for y in x]]
    return [type(x).__name__, repr(x)]


def json_classes(v, depth=0):
    if isinstance(v, list):
        return {f"list{depth}" if v else "list-empty"} | {c for x in v for c in json_classes(x, depth + 1)}
    if isinstance(v, dict):
        return {f"dict{depth}" if v else "dict-empty"} | {c for x in v.values() for c in json_classes(x, depth + 1)}
    return {type(v).__name__}


def impl_raw(case):
    from utype import Schema
    from utype.utils import exceptions as exc
    from utype.utils.encode import JSONEncoder, JSONSerializer
    out = {"raw": True}
    try:
        World.serial += 1
        ann = {n: raw_pytype(k) for n, k, _ in case["fields"]}
        cls = type(f"R{World.serial}", (Schema,), {"__annotations__": ann, "__module__": __name__})
        given = {n: raw_build(k, v) for n, k, v in case["fields"]}
        inst = cls(**{n: raw_build(k, v) for n, k, v in case["fields"]})
    except Exception as e:
        return {"raw": True, "init": "error:" + type(e).__name__ + ":" + str(e)[:80]}
    out["init"] = "ok"
    if strict_repr(dict(inst)) != strict_repr(given):
        out["state"] = "the instance does not hold the values it was built from"
    try:
        if case.get("mode") == "serializer":
            raw = JSONSerializer().dumps(inst)
            text = raw.decode("utf-8")
        else:
            raw = text = json.dumps(inst, cls=JSONEncoder)
    except Exception as e:
        out["enc"] = "error:" + type(e).__name__
        return out
    out["enc"] = "ok"
    out["std"] = is_standard_json(text)
    try:
        back = cls.__from__(raw)
    except exc.ParseError as e:
        out["parse"] = "perr"
        out["msg"] = str(e)[:120]
        return out
    except Exception as e:
        out["parse"] = "escape:" + type(e).__name__
        return out
    out["parse"] = "ok"
    out["equal"] = _eq(back, inst)
    out["strict"] = strict_repr(dict(back)) == strict_repr(dict(inst))
    out["strict_snap"] = True
    reparse(cls, raw, inst, back, lambda x: strict_repr(dict(x)), out)
    return out


def impl(case):
    import utype  # noqa
    from utype.utils import exceptions as exc
    from utype.utils.encode import JSONEncoder, JSONSerializer
    if case.get("probe"):
        return impl_probe(case)
    if case.get("raw"):
        return impl_raw(case)
    w = World()
    t = case["ty"]
    out = {}
    want = canon_val(case["val"])
    try:
        inst = w.val(t, case.get("init") or case["val"])
        if case.get("ops"):
            inst = apply_ops(w, t, inst, case["ops"])
        state = w.desc(t, inst)
    except Exception as e:  # the declaration or the instance is not constructible: not a case of this property
        return {"init": "error:" + type(e).__name__ + ":" + str(e)[:80]}
    out["init"] = "ok"
    if state != want:
        # the public API left the instance in another state than the operations describe
        out["state"] = state
    cls = w.data(t["data"])
    if is_rich(t):
        pr = cls.__parser__
        out["decl"] = {"keys": {f.name: list(f.all_aliases) for f in pr.fields.values()},
                       "dfs": bool(pr.data_first_search)}
    try:
        if case.get("mode") == "serializer":
            raw = JSONSerializer().dumps(inst)
            text = raw.decode("utf-8")
        else:
            raw = text = json.dumps(inst, cls=JSONEncoder)
    except Exception as e:
        out["enc"] = "error:" + type(e).__name__
        return out
    out["enc"] = "ok"
    out["std"] = is_standard_json(text)
    try:
        out["tree"] = canon_tree(t, tree_of_text(text))
    except Exception as e:
        out["tree"] = "unreadable:" + type(e).__name__

    def blame():
        # which items fail on their own in a plain one-field class, and in which clause (classification of a violation)
        ft = field_types(t)
        out["bad_fields"] = [[n, why] for n, fv in state["data"]
                             for why in [_one(w, ft[json.dumps(n)], fv, case.get("mode"))] if why]

    if not out["std"]:
        blame()
    try:
        back = cls.__from__(raw)
    except exc.ParseError:
        out["parse"] = "perr"
        blame()
        return out
    except Exception as e:
        out["parse"] = "escape:" + type(e).__name__
        blame()
        return out
    out["parse"] = "ok"
    try:
        out["equal"] = bool(back == inst) and bool(inst == back)
    except Exception as e:
        out["equal"] = False
        out["eq_error"] = type(e).__name__
    if not out["equal"]:
        blame()
    try:
        out["back"] = w.desc(t, back)
    except Exception as e:
        out["back"] = "badtype:" + str(e)[:60]
    if out["equal"]:
        reparse(cls, raw, inst, back, lambda x: w.desc(t, x), out)
    return out


# ----------------------------------------------------------------------------------------------
# the stated domain, written from the property text (independent of the Lean `inDomain`)
# ----------------------------------------------------------------------------------------------

def valid_utf8(b: bytes) -> bool:
    try:
        b.decode("utf-8")
        return True
    except UnicodeDecodeError:
        return False


def in_domain(t, v, depth=0) -> bool:
    """the stated domain: values in the JSON-faithful domain; nested instances within their class's max_depth
    (an instance beyond the limit is not an instance the class accepts)"""
    (tag, e), = [(k, x) for k, x in v.items() if k != "hidden"]
    if isinstance(t, dict) and "optional" in t:
        return tag == "none" or in_domain(t["optional"], v, depth)
    if t == "float":
        return e[0] != "nan"
    if t == "str":
        return not any(0xD800 <= c <= 0xDFFF for c in e)      # text = Unicode scalar values
    if t == "int":
        return abs(int(e)) < 10 ** 4300                        # CPython's int<->str digit limit: 4300 digits
    if t == "bytes":
        return valid_utf8(bytes(e))
    if t == "dec":
        if e[0] == "nan":
            return False
        if e[0] == "inf":
            return True
        return int(e[2]) < 10 ** 15 and abs(int(e[3])) < 10 ** 17
    if t == "time":
        # CPython's time.fromisoformat reads an offset below one second ("+00:00:00.999999") as UTC: interpreter defect
        return e[3] % 1000 == 0 and (e[4] is None or int(e[4]) == 0 or abs(int(e[4])) >= 1000000)
    if isinstance(t, str):
        return True
    (ttag, te), = t.items()
    if ttag == "enum":
        return True
    if ttag in ("list", "set", "tuplevar"):
        return all(in_domain(te, x, depth) for x in e)
    if ttag == "tuple":
        return all(in_domain(tt, x, depth) for tt, x in zip(te, e))
    if ttag == "dict":
        if te[0] == "str" and any(0xD800 <= c <= 0xDFFF for k, _ in e for c in k["str"]):
            return False
        return all(in_domain(te[1], x, depth) for _, x in e)
    if ttag == "data":
        md = class_opts(t)["maxDepth"]
        if md and depth + 1 > md:
            return False
        ft = field_types(t)
        return all(in_domain(ft[json.dumps(n)], x, depth + 1) for n, x in e)
    return False


def has_inf(v) -> bool:
    (tag, e), = [(k, x) for k, x in v.items() if k != "hidden"]
    if tag == "float":
        return e[0] == "inf"
    if tag in ("list", "set", "tuple"):
        return any(has_inf(x) for x in e)
    if tag in ("dict", "data"):
        return any(has_inf(x) for _, x in e)
    return False


def set_of_containers(t) -> bool:
    if isinstance(t, str):
        return False
    (tag, e), = t.items()
    if tag == "set":
        inner = e
        while isinstance(inner, dict) and "optional" in inner:
            inner = inner["optional"]
        return (isinstance(inner, dict) and next(iter(inner)) in ("list", "set", "tuple", "tuplevar", "dict", "data")) or set_of_containers(e)
    if tag in ("list", "tuplevar", "optional"):
        return set_of_containers(e)
    if tag == "tuple":
        return any(set_of_containers(x) for x in e)
    if tag == "dict":
        return set_of_containers(e[1])
    if tag == "data":
        return any(set_of_containers(fv["ty"]) for fv in views(t))
    return False


def nonjson_enum(t) -> bool:
    """an Enum with a member value JSON cannot carry in its own type somewhere in the declaration"""
    if isinstance(t, str):
        return False
    (tag, e), = t.items()
    if tag == "enum":
        return any("tuple" in v for _, v in e["members"])
    if tag in ("list", "set", "tuplevar", "optional"):
        return nonjson_enum(e)
    if tag == "tuple":
        return any(nonjson_enum(x) for x in e)
    if tag == "dict":
        return nonjson_enum(e[1])
    if tag == "data":
        return any(nonjson_enum(fv["ty"]) for fv in views(t))
    return False


def has_optional(t) -> bool:
    if isinstance(t, str):
        return False
    (tag, e), = t.items()
    if tag == "optional":
        return True
    if tag in ("list", "set", "tuplevar"):
        return has_optional(e)
    if tag == "tuple":
        return any(has_optional(x) for x in e)
    if tag == "dict":
        return has_optional(e[1])
    if tag == "data":
        return any(has_optional(fv["ty"]) for fv in views(t))
    return False


# ----------------------------------------------------------------------------------------------
# CPython's answers for the number / UUID / UTF-8 builtins of the model (`Prims` table of a case)
# ----------------------------------------------------------------------------------------------

def prim_table(t, v, tbl=None):
    tbl = tbl if tbl is not None else {k: [] for k in ("floatOfDec", "decOfFloat", "decStr", "decOfStr", "uuidStr", "uuidOfStr", "utf8Decode")}
    (tag, e), = v.items()
    if tag == "dec":
        d = dec_d(e)
        s = str(d)
        tbl["decStr"].append([e, cps(s)])
        try:
            tbl["decOfStr"].append([cps(s), enc_d(Decimal(s))])
        except Exception:
            tbl["decOfStr"].append([cps(s), None])
        if e[0] == "fin":
            try:
                f = float(d)
                tbl["floatOfDec"].append([e, enc_f(f)])
                tbl["decOfFloat"].append([enc_f(f), enc_d(Decimal(str(f)))])
            except OverflowError:
                pass
    elif tag == "uuid":
        s = str(UUID(int=int(e)))
        tbl["uuidStr"].append([e, cps(s)])
        tbl["uuidOfStr"].append([cps(s), str(UUID(s).int)])
    elif tag == "bytes":
        tbl["utf8Decode"].append([e, cps(bytes(e).decode("utf-8", errors="replace"))])
    elif tag in ("list", "set", "tuple"):
        for x in e:
            prim_table(t, x, tbl)
    elif tag == "dict":
        for k, x in e:
            if "int" in k:
                s = str(int(k["int"]))
                tbl["decOfStr"].append([cps(s), enc_d(Decimal(s))])
            prim_table(t, x, tbl)
    elif tag == "data":
        for _, x in e:
            prim_table(t, x, tbl)
    return tbl


# ----------------------------------------------------------------------------------------------
# generator
# ----------------------------------------------------------------------------------------------

def _key(d):
    return json.dumps(d, sort_keys=True)


def gen_enum(rng):
    if rng.random() < 0.06:
        # member values JSON cannot carry in their own type (known finding enum-non-json-value)
        return {"enum": {"mixin": "none", "members": [[cps("ORIGIN"), {"tuple": ["0", "0"]}], [cps("UNIT"), {"tuple": ["1", "2"]}]][:rng.randint(1, 2)]}}
    mixin = rng.choice(["none", "none", "int", "str"])
    n = rng.randint(1, 4)
    names = rng.sample(["A", "B", "C", "red", "x", "INFO", "warn", "v1", "Alpha", "b"], n)
    kind = {"none": rng.choice(["int", "str", "mixed"]), "int": "int", "str": "str"}[mixin]
    members, seen = [], set()
    for i, nm in enumerate(names):
        k = kind if kind != "mixed" else rng.choice(["int", "str"])
        if k == "int":
            val = {"int": str(rng.choice([0, 1, 2, -1, 7, 10 ** 20, i + 100]))}
        else:
            pool = ["a", "B", "INFO", "x y", "", "é", "1", "red"]
            if i > 0 and rng.random() < 0.35:
                pool = [names[j] for j in range(len(names)) if j != i]      # the value of this member is the name of another
            val = {"str": cps(rng.choice(pool))}
        if _key(val) in seen:
            val = {"int": str(1000 + i)} if k == "int" else {"str": cps(f"u{i}")}
        seen.add(_key(val))
        members.append([cps(nm), val])
    return {"enum": {"mixin": mixin, "members": members}}


def gen_type(rng, depth, allow_optional=True):
    r = rng.random()
    if depth <= 0 or r < 0.55:
        if rng.random() < 0.12:
            return gen_enum(rng)
        return rng.choice(SCALARS + ["dec", "datetime", "datetime", "time", "delta", "date"])
    k = rng.choice(["list", "list", "set", "tuple", "tuplevar", "dict", "dict", "data", "optional"])
    if k == "optional":
        if not allow_optional:
            return gen_type(rng, depth - 1, False)
        inner = gen_type(rng, depth - 1, False)
        return inner if inner == "none" else {"optional": inner}
    if k == "set":
        # hashable element types; a set of tuples once in a while (known finding)
        if rng.random() < 0.1:
            return {"set": {"tuple": [rng.choice(["int", "str", "date"]), rng.choice(["int", "dec"])]}}
        el = rng.choice(["int", "str", "float", "bytes", "dec", "date", "datetime", "time", "delta", "uuid", "bool"])
        if rng.random() < 0.1:
            el = gen_enum(rng)
        return {"set": el}
    if k == "list":
        return {"list": gen_type(rng, depth - 1)}
    if k == "tuplevar":
        return {"tuplevar": gen_type(rng, depth - 1)}
    if k == "tuple":
        return {"tuple": [gen_type(rng, depth - 1) for _ in range(rng.randint(0, 3))]}
    if k == "dict":
        return {"dict": [rng.choice(["str", "str", "int"]), gen_type(rng, depth - 1)]}
    if rng.random() < 0.4:
        return unroll(gen_proto(rng, 0), 1)
    return gen_data(rng, depth - 1, rng.randint(1, 3))


def gen_data(rng, depth, nfields):
    names = rng.sample(FIELD_NAMES, nfields)
    return {"data": [[cps(n), gen_type(rng, depth)] for n in names]}


STRS = ["", "a", "hello world", 'q"uote\\back/slash', "\n\t\r\x00\x1f\x7f", "é€", "\U0001F600x", "null", "None", "2020-01-02",
        "[1, 2]", '{"a": 1}', "P1DT00H00M00S", "GMT", " pad ", "a,b", "+1", "-0", "1e5", "Infinity", "  ", "�", "Z"]


def gen_str(rng):
    r = rng.random()
    if r < 0.6:
        return rng.choice(STRS)
    n = rng.randint(1, 8)
    return "".join(chr(rng.choice([rng.randint(32, 126), rng.randint(0, 31), rng.randint(0xA0, 0x2FF), rng.randint(0x4E00, 0x4E40),
                                   rng.randint(0x1F600, 0x1F640), rng.randint(0xE000, 0xE010)])) for _ in range(n))


def gen_float(rng):
    r = rng.random()
    if rng.random() < 0.08:
        return rng.choice([0.0, -0.0])
    if r < 0.45:
        return rng.choice([0.0, -0.0, 1.0, -1.0, 0.1, 0.5, 1e22, 1e21, 1e16, 1e-7, 1e-5, 5e-324, 2.2250738585072014e-308,
                           1.7976931348623157e308, float(2 ** 53), float(2 ** 53 + 2), 123456789.125, -3.141592653589793, 1 / 3])
    if r < 0.52:
        return rng.choice([float("inf"), float("-inf")])
    if r < 0.55:
        return float("nan")
    if r < 0.8:
        return struct.unpack("<d", struct.pack("<Q", rng.getrandbits(64)))[0]
    return rng.uniform(-1e6, 1e6)


def gen_int(rng):
    r = rng.random()
    if r < 0.01:
        return rng.choice([10 ** 4299, -(10 ** 4300 - 1)])     # 4300 digits: the longest int CPython converts
    if r < 0.5:
        return rng.choice([0, 1, -1, 2, 255, 2 ** 31, -2 ** 31, 2 ** 53, 2 ** 53 + 1, -2 ** 63, 2 ** 64, 10 ** 30, -10 ** 100, 9007199254740991])
    if r < 0.8:
        return rng.randint(-1000, 1000)
    return rng.randint(-10 ** 40, 10 ** 40)


ZERO_AND_QUANTISED = ["0", "-0", "0.0", "0.00", "-0.0", "-0.00", "0E+3", "0E-7", "0.000", "1.50", "100.00", "-2.500", "10.0", "1E+1",
                      "0.10", "12.340", "1000", "1.000E+3", "-0E+2", "0E-20", "99.99", "0.01"]


def gen_dec(rng):
    r = rng.random()
    if rng.random() < 0.15:
        # zero in every spelling, and values as a decimal_places / round constraint leaves them
        return Decimal(rng.choice(ZERO_AND_QUANTISED))
    if r < 0.05:
        return Decimal(rng.choice(["Infinity", "-Infinity"]))
    if r < 0.08:
        return Decimal("NaN")
    nd = rng.choice([1, 1, 2, 3, 5, 10, 14, 15, 15]) if r < 0.95 else rng.choice([16, 17, 20, 30])
    c = rng.choice([0, 1, 9, 10 ** (nd - 1), 10 ** nd - 1, rng.randrange(10 ** nd)])
    if r > 0.9 and r < 0.95:
        c = rng.choice([9007199254740991, 9007199254740992, 9007199254740993, 2 ** 53 * 10])
    e = rng.choice([0, 0, -1, -2, -3, -6, -7, -10, -15, -16, -20, -100, -300, -307, -308, -309, -315, -320, -323, -324, -330, -400,
                    1, 2, 3, 5, 10, 15, 16, 20, 100, 292, 300, 308, 309, 400, rng.randint(-340, 320)])
    return Decimal((rng.randrange(2), tuple(int(ch) for ch in str(c)), e))


def gen_date(rng):
    r = rng.random()
    if r < 0.3:
        return rng.choice([date(1, 1, 1), date(9999, 12, 31), date(2020, 2, 29), date(1970, 1, 1), date(999, 12, 31), date(1000, 1, 1), date(2000, 10, 10)])
    return date.fromordinal(rng.randint(1, date.max.toordinal()))


def gen_tz(rng):
    r = rng.random()
    if r < 0.35:
        return None
    if r < 0.45:
        return 0
    sign = rng.choice([1, -1])
    k = rng.random()
    if k < 0.5:
        us = (rng.randint(0, 14) * 3600 + rng.choice([0, 30, 45, 15]) * 60) * 1000000
    elif k < 0.7:
        us = rng.randint(0, 86399) * 1000000
    elif k < 0.85:
        us = rng.randint(1, 86400 * 1000000 - 1)
    else:
        us = rng.choice([1, 999999, 1000000, 59999999, 60000000, 3599999999, 3600000000, 86399999999, 86399000000])
    return sign * us


def gen_clock(rng, ms_only=False):
    us = rng.choice([0, 0, 1, 999999, 123000, 1000, 999000, 500000, rng.randrange(1000000)])
    if ms_only and rng.random() < 0.93:
        us = us // 1000 * 1000
    if rng.random() < 0.2:
        return rng.choice([(0, 0, 0), (23, 59, 59), (12, 0, 0)]) + (us,)
    return (rng.randrange(24), rng.randrange(60), rng.randrange(60), us)


def gen_delta(rng):
    r = rng.random()
    mx = 86400 * 1000000 * 999999999 + 86399999999
    if r < 0.4:
        return rng.choice([0, 1, -1, 999999, -999999, 1000000, -1000000, 59999999, 60000000, 3600000000, 86399999999, 86400000000,
                           -86400000000, -86400000001, mx, -86400 * 1000000 * 999999999, 90061000005, -90061000005, 123456])
    if r < 0.7:
        return rng.randint(-10 ** 11, 10 ** 11)
    if r < 0.85:
        return rng.randint(-10 ** 7, 10 ** 7)
    return rng.randint(-86400 * 1000000 * 999999999, mx)


def gen_value(rng, t):
    if isinstance(t, str):
        if t == "none":
            return {"none": None}
        if t == "bool":
            return {"bool": rng.random() < 0.5}
        if t == "int":
            return {"int": str(gen_int(rng))}
        if t == "float":
            return {"float": enc_f(gen_float(rng))}
        if t == "str":
            return {"str": cps(gen_str(rng))}
        if t == "bytes":
            if rng.random() < 0.05:
                return {"bytes": list(rng.choice([b"\xff", b"a\xc3", b"\xed\xa0\x80", b"\xc0\xaf", b"ok\xfe\xff"]))}
            return {"bytes": list(gen_str(rng).encode("utf-8"))}
        if t == "dec":
            return {"dec": enc_d(gen_dec(rng))}
        if t == "date":
            d = gen_date(rng)
            return {"date": [d.year, d.month, d.day]}
        if t == "datetime":
            d = gen_date(rng)
            tz = gen_tz(rng)
            return {"datetime": [d.year, d.month, d.day, *gen_clock(rng), None if tz is None else str(tz)]}
        if t == "time":
            tz = gen_tz(rng) if rng.random() < 0.4 else None
            return {"time": [*gen_clock(rng, ms_only=True), None if tz is None else str(tz)]}
        if t == "delta":
            return {"delta": str(gen_delta(rng))}
        if t == "uuid":
            return {"uuid": str(rng.choice([0, 1, 2 ** 128 - 1, rng.getrandbits(128), rng.getrandbits(64)]))}
    (tag, e), = t.items()
    if tag == "optional":
        return {"none": None} if rng.random() < 0.35 else gen_value(rng, e)
    if tag == "enum":
        return {"enum": rng.randrange(len(e["members"]))}
    size = rng.choice([0, 1, 1, 2, 3])
    if tag == "list":
        return {"list": [gen_value(rng, e) for _ in range(size)]}
    if tag == "tuplevar":
        return {"tuple": [gen_value(rng, e) for _ in range(size)]}
    if tag == "tuple":
        return {"tuple": [gen_value(rng, x) for x in e]}
    if tag == "set":
        items = {}
        for _ in range(size):
            x = gen_value(rng, e)
            items[py_eq_key(e, x)] = x
        return {"set": sorted(items.values(), key=_key)}
    if tag == "dict":
        items = {}
        for _ in range(size):
            if e[0] == "int":
                k = {"int": str(rng.choice([0, 1, -1, 7, 10 ** 20, -5, rng.randint(-100, 100)]))}
            else:
                k = {"str": cps(rng.choice(["", "a", "key", "1", "0", "true", "é", "a b", "k\"q", gen_str(rng)]))}
            items[_key(k)] = [k, gen_value(rng, e[1])]
        return {"dict": sorted(items.values(), key=lambda kv: _key(kv[0]))}
    if tag == "data":
        if is_rich(t):
            return gen_rich_value(rng, t, 1)
        return {"data": [[n, gen_value(rng, ft)] for n, ft in e]}
    raise ValueError(tag)


def py_eq_key(t, x):
    """key under Python's == / hash for set elements (so that a generated set has distinct elements)"""
    (tag, e), = x.items()
    if tag == "float":
        f = dec_f(e)
        return ("f", "nan" + _key(e)) if f != f else ("num", Decimal(f) if math.isfinite(f) else str(f))
    if tag == "dec":
        d = dec_d(e)
        return ("num", d if d.is_finite() else str(d))
    if tag == "int":
        return ("num", Decimal(int(e)))
    if tag == "bool":
        return ("num", Decimal(int(e)))
    if tag == "datetime" and e[7] is not None:
        # aware datetimes compare by instant
        inst = ((date(e[0], e[1], e[2]).toordinal() * 24 + e[3]) * 60 + e[4]) * 60 + e[5]
        return ("dt", inst * 1000000 + e[6] - int(e[7]))
    if tag == "time" and e[4] is not None:
        return ("t", _key(e))
    if tag == "tuple":
        return ("tuple", tuple(py_eq_key(None, y) for y in e))
    return (tag, _key(e))



# ---- the class side: aliases, case-insensitivity, options, kinds of fields, self-reference, mutation ------------

SNAKE_ATTS = ["created_at", "user_name", "request_id", "total_amount", "token", "seen_at", "retry_after", "price",
              "quantity", "sku", "x1", "is_active", "html_url", "a", "b_c_d", "value", "note", "count_2"]
_CID = [0]


def gen_alias(rng, att):
    # (a name that differs from the attribute only in letter case is refused by utype: "aliases conflict with fields")
    c = [att.replace("_", "-") + "-", "X-" + pascal(att), camel(att) + "Value", att + "ID", pascal(att) + "Amount"]
    if "_" in att:
        c += [camel(att), pascal(att)]
    return rng.choice(c)


def gen_proto(rng, depth):
    """a rich class declaration; recursive fields have the type {"self": None} inside Optional / List"""
    _CID[0] += 1
    cid = f"C{_CID[0]}"
    recursive = depth >= 1 and rng.random() < 0.3
    opts = {"ci": rng.random() < 0.15, "gen": rng.choice([None, None, None, "camel", "camel", "pascal"]),
            "max_depth": None, "dfs": rng.choice([None, None, None, True, False]), "mode": rng.choice([None] * 8 + ["r", "w", "a"])}
    if recursive:
        opts["max_depth"] = rng.choice([None, 2, 3, 3, 4, 4])
    n = rng.randint(1, 4)
    atts = rng.sample(SNAKE_ATTS, n)
    if opts["gen"] == "pascal" and (recursive or any("_" not in a for a in atts)):
        opts["gen"] = "camel"          # Pascal case of a one-word attribute differs from it only in letter case: refused
    fields = []
    # every third class is built around an output property: 2-3 required int (or str) fields it is computed from
    material = rng.choice(["int", "str"]) if rng.random() < 0.35 else None
    nmat = rng.randint(2, 3) if material else 0
    if material and len(atts) < nmat:
        atts = rng.sample(SNAKE_ATTS, nmat)
    for idx, att in enumerate(atts):
        f = {"att": att, "alias": None, "alias_from": [], "ci": rng.choice([None] * 7 + [True, True, False]), "role": "plain",
             "default": None, "mode": None}
        if idx < nmat:
            if rng.random() < 0.3:
                f["alias"] = gen_alias(rng, att)
            f["ty"] = material
            fields.append(f)
            continue
        if rng.random() < 0.3:
            f["alias"] = gen_alias(rng, att)
        if rng.random() < 0.2:
            f["alias_from"] = rng.sample(["x-" + att.replace("_", "-"), att.upper() + "_", pascal(att) + "In", att + "2"], rng.randint(1, 2))
        r = rng.random()
        ty = gen_type(rng, depth - 1)
        if r < 0.5:
            pass
        elif r < 0.62:
            # a default of the field's type
            k = rng.choice(["int", "str", "bool", "opt", "list"])
            ty, dv = {"int": ("int", {"int": str(rng.choice([0, 1, -3]))}), "str": ("str", {"str": cps(rng.choice(["", "n/a"]))}),
                      "bool": ("bool", {"bool": False}), "opt": ({"optional": ty if ty != "none" and not (isinstance(ty, dict) and "optional" in ty) else "int"}, {"none": None}),
                      "list": ({"list": ty}, {"list": []})}[k]
            f.update(role="default", default=dv)
        elif r < 0.72:
            f["role"] = "optional"
        elif r < 0.8:
            ty = rng.choice(["int", "str"])
            f.update(role="nooutput", default={"int": "5"} if ty == "int" else {"str": cps("secret")})
        elif r < 0.86:
            ty = rng.choice(["int", "str"])
            f.update(role="noinput", default={"int": "3"} if ty == "int" else {"str": cps("fixed")})
        elif r < 0.93:
            ty = rng.choice(["int", "str", {"optional": "date"}])
            f.update(role="default", mode=rng.choice(["r", "w", "a", "ra", "rw", "wa"]),
                     default={"int": "0"} if ty == "int" else {"str": cps("m")} if ty == "str" else {"none": None})
        else:
            ty = rng.choice(["int", "str"])      # material for an output property
        f["ty"] = ty
        fields.append(f)
    # an output property over the required int / str fields declared before it
    for kind, tyname in (("sum", "int"), ("concat", "str")):
        deps = [f["att"] for f in fields if f["role"] == "plain" and f["ty"] == tyname and not f["mode"]]
        if deps and (rng.random() < 0.5 or material == tyname):
            pick = rng.sample(deps, min(len(deps), rng.randint(2, 3) if material == tyname else rng.randint(1, 2)))
            fields.append({"att": "total" if kind == "sum" else "label", "alias": rng.choice([None, None, "grandTotal" if kind == "sum" else "LabelText"]),
                           "alias_from": [], "ci": None, "role": "prop", "default": None, "mode": None, "expr": [kind, pick], "ty": tyname})
    if recursive:
        k = rng.choice(["opt", "list", "both"])
        if k in ("opt", "both"):
            fields.append({"att": "in_reply_to", "alias": None, "alias_from": [], "ci": None, "role": "default", "default": {"none": None},
                           "mode": None, "rec": "opt", "ty": {"optional": {"self": None}}})
        if k in ("list", "both"):
            fields.append({"att": "replies", "alias": None, "alias_from": [], "ci": None, "role": "default", "default": {"list": []},
                           "mode": None, "rec": "list", "ty": {"list": {"self": None}}})
    if rng.random() < 0.03 and not recursive:
        # a declaration utype refuses (key conflicts): `declChecked` must refuse it too
        f = rng.choice([g for g in fields if g.get("role") != "prop"])
        others = [g["att"] for g in fields if g is not f and g.get("role") != "prop"]
        k = rng.choice(["other", "case", "alias"])
        if k == "other" and others:
            f["alias_from"] = list(f.get("alias_from") or []) + [rng.choice(others)]
        elif k == "case" and f.get("role") != "prop":
            f["alias"], f["ci"] = f["att"].capitalize(), True
        elif others and f.get("role") != "prop":
            f["alias"] = rng.choice(others)
    return {"id": cid, "opts": opts, "fields": fields}


def unroll(proto, k):
    """the declaration unrolled k levels; below that the class itself is {"cut": id}"""
    def sub(t):
        if isinstance(t, str):
            return t
        (tag, e), = t.items()
        if tag == "self":
            return {"data": unroll(proto, k - 1)["data"]} if k > 1 else {"cut": proto["id"]}
        if tag in ("optional", "list"):
            return {tag: sub(e)}
        return t
    return {"data": {"id": proto["id"], "opts": proto["opts"], "fields": [dict(f, ty=sub(f["ty"])) for f in proto["fields"]]}}


def is_recursive(proto):
    return any(f.get("rec") for f in proto["fields"])


def gen_instance(rng, t, levels):
    """items of an instance of the (unrolled) rich class t, by attribute: {att: value or None when absent}; hidden values"""
    vals, hidden = {}, []
    dep_atts = {a for fv in views(t) if fv["role"] == "prop" for a in fv["raw"]["expr"][1]}
    for fv in views(t):
        f, att, role = fv["raw"], fv["att"], fv["role"]
        ty = fv["ty"]
        rec = f.get("rec")
        if role == "prop":
            continue
        if role == "noinput":
            vals[att] = f["default"]
            continue
        if role == "nooutput":
            if rng.random() < 0.5 and not (t["data"]["opts"].get("mode") and f.get("mode")):
                hidden.append([att, gen_value(rng, ty)])
            continue
        if rec:
            inner = ty.get("optional") or ty.get("list")
            deeper = levels > 1 and "data" in inner
            if rec == "opt":
                vals[att] = gen_rich_value(rng, inner, levels - 1) if deeper and rng.random() < 0.7 else {"none": None}
            else:
                vals[att] = {"list": [gen_rich_value(rng, inner, levels - 1) for _ in range(rng.choice([0, 1, 1, 2]))] if deeper else []}
            continue
        if role == "optional" and rng.random() < 0.5:
            vals[att] = None
            continue
        if role == "default" and rng.random() < 0.3:
            vals[att] = f["default"]
            continue
        vals[att] = gen_value(rng, ty)
        if ty == "int" and att in dep_atts and abs(int(vals[att]["int"])) > 10 ** 200:
            vals[att] = {"int": str(rng.randint(-10 ** 40, 10 ** 40))}      # the sum stays far from the 4300-digit limit
    return vals, hidden


def state_items(t, vals):
    """the items of the instance (output names, declaration order) for the field values `vals` by attribute"""
    items = []
    for fv in views(t):
        att = fv["att"]
        if fv["role"] == "prop":
            x = eval_expr(fv["raw"]["expr"], vals)
            if x is not None:
                items.append([cps(fv["name"]), x])
        elif fv["emit"] and vals.get(att) is not None:
            items.append([cps(fv["name"]), vals[att]])
    return items


def gen_rich_value(rng, t, levels):
    vals, hidden = gen_instance(rng, t, levels)
    v = {"data": state_items(t, vals)}
    if hidden:
        v["hidden"] = hidden
    return v


def gen_ops(rng, t, vals):
    """1-3 mutations of input fields through the public API, and the field values they lead to"""
    mutable = [fv for fv in views(t) if fv["role"] in ("plain", "default", "optional") and fv["emit"] and not fv["raw"].get("rec")]
    if not mutable:
        return [], vals
    vals = dict(vals)
    ops = []
    props = [fv for fv in views(t) if fv["role"] == "prop"]
    for _ in range(rng.randint(1, 3)):
        kind = rng.choice(["setattr", "setitem", "update", "update_kw", "ior"])
        k = 1 if kind in ("setattr", "setitem") else rng.randint(1, min(3, len(mutable)))
        chosen = rng.sample(mutable, k)
        if props and k > 1 and rng.random() < 0.7:
            # all the dependencies of a property in one call
            deps = [fv for fv in mutable if fv["att"] in props[0]["raw"]["expr"][1]]
            if len(deps) > 1:
                chosen = deps + [fv for fv in chosen if fv not in deps][:1]
        pairs = []
        dep_atts = {a for p in props for a in p["raw"]["expr"][1]}
        for fv in chosen:
            x = gen_value(rng, fv["ty"])
            if fv["ty"] == "int" and fv["att"] in dep_atts and abs(int(x["int"])) > 10 ** 200:
                x = {"int": str(rng.randint(-10 ** 40, 10 ** 40))}
            pairs.append([fv["att"], rng.choice([fv["att"], fv["name"]]), x])
            vals[fv["att"]] = x
        ops.append([kind, pairs])
    return ops, vals


def gen_rich_case(rng, depth=2):
    proto = gen_proto(rng, depth)
    md = proto["opts"]["max_depth"]
    levels = 1
    if is_recursive(proto):
        levels = rng.choice([1, 2, 3, 3, 4] if not md else [1, 2, md - 1, md, md, md + (1 if rng.random() < 0.1 else 0)])
        levels = max(1, levels)
    t = unroll(proto, levels + 1)
    vals, hidden = gen_instance(rng, t, levels)
    case = {"ty": t, "mode": rng.choice(["encoder", "encoder", "serializer"]), "cfg": FIXED}
    init = {"data": state_items(t, vals)}
    if hidden:
        init["hidden"] = hidden
    if rng.random() < 0.35:
        ops, vals2 = gen_ops(rng, t, vals)
        if ops:
            case["init"] = init
            case["ops"] = ops
            case["val"] = {"data": state_items(t, vals2)}
            return case
    case["val"] = init
    return case


def strip_hidden(v):
    (tag, e), = [(k, x) for k, x in v.items() if k != "hidden"]
    if tag in ("list", "set", "tuple"):
        return {tag: [strip_hidden(x) for x in e]}
    if tag == "dict":
        return {"dict": [[k, strip_hidden(x)] for k, x in e]}
    if tag == "data":
        return {"data": [[n, strip_hidden(x)] for n, x in e]}
    return {tag: e}



# ---- parse-only probes: look-alike text delivered to typed fields (ties the decoders outside a round trip) ----------
# only strings on which the concrete builtins P0 and CPython agree by construction (ISO forms and non-dates)
PROBE_STRS = ["", "Z", "GMT", "UTC", "TZD", " ", "abc", "null", "None", "NIL", "2020-01-02", "2020-02-30", "2020-01-02T03:04:05",
              "2020-01-02T03:04:05Z", "GMT2020-01-02T03:04:05", "2020-01-02T03:04:05.000007-05:30", " 2020-01-02 ", "03:04:05", "03:04:05.123+02:00",
              "P1DT00H00M00S", "-P0DT00H00M01.000001S", "0", "0.00", "-0.0", "0E+3", "1.50", "Infinity", "NaN", "  12  ", "true", "1", "f",
              "00000000-0000-0000-0000-000000000005", "not-a-uuid"]
PROBE_TYPES = ["date", "datetime", "time", "delta", "dec", "uuid", "none", "bytes", "str", {"optional": "date"}, {"optional": "dec"},
               {"dict": ["int", "int"]}, {"list": "datetime"}]


def gen_probe(rng):
    t = rng.choice(PROBE_TYPES)
    s = rng.choice(PROBE_STRS)
    leaf = {"s": cps(s)}
    if isinstance(t, dict) and "dict" in t:
        tree = {"o": [[cps(s), {"i": "1"}]]}
    elif isinstance(t, dict) and "list" in t:
        tree = [leaf]
    else:
        tree = leaf if rng.random() < 0.9 else rng.choice([None, True, {"i": "0"}, {"f": enc_f(0.0)}])
    return {"probe": True, "ty": {"data": [[cps("f"), t]]}, "tree": {"o": [[cps("f"), tree]]}, "cfg": FIXED}


def plain_tree(tr):
    if tr is None or isinstance(tr, bool):
        return tr
    if isinstance(tr, list):
        return [plain_tree(x) for x in tr]
    if "i" in tr:
        return int(tr["i"])
    if "f" in tr:
        return dec_f(tr["f"])
    if "s" in tr:
        return uncps(tr["s"])
    return {uncps(k): plain_tree(x) for k, x in tr["o"]}


def probe_prims(tr, tbl=None):
    tbl = tbl if tbl is not None else {"decOfStr": [], "uuidOfStr": [], "decOfFloat": [], "floatParses": []}
    if isinstance(tr, list):
        for x in tr:
            probe_prims(x, tbl)
    elif isinstance(tr, dict):
        if "s" in tr:
            s = uncps(tr["s"])
            for cand in {s, s.strip()}:
                try:
                    tbl["decOfStr"].append([cps(cand), enc_d(Decimal(cand))])
                except Exception:
                    tbl["decOfStr"].append([cps(cand), None])
            try:
                tbl["uuidOfStr"].append([cps(s), str(UUID(s).int)])
            except Exception:
                tbl["uuidOfStr"].append([cps(s), None])
            # `float(s)` on the text as to_datetime / to_timedelta see it (cleaned / as given)
            for cand in {s, s.replace("GMT", "").replace("UTC", "").replace("TZD", "").rstrip("Z").strip(), "1970-01-01 " + s}:
                try:
                    float(cand)
                    tbl["floatParses"].append([cps(cand), True])
                except ValueError:
                    tbl["floatParses"].append([cps(cand), False])
        elif "f" in tr:
            f = dec_f(tr["f"])
            tbl["decOfFloat"].append([tr["f"], enc_d(Decimal(str(f)))])
        elif "o" in tr:
            for k, x in tr["o"]:
                try:
                    tbl["decOfStr"].append([cps(uncps(k)), enc_d(Decimal(uncps(k)))])
                except Exception:
                    tbl["decOfStr"].append([cps(uncps(k)), None])
                probe_prims(x, tbl)
    return tbl


def impl_probe(case):
    from utype.utils import exceptions as exc
    w = World()
    t = case["ty"]
    cls = w.data(t["data"])
    text = json.dumps(plain_tree(case["tree"]))
    try:
        back = cls.__from__(text)
    except exc.ParseError:
        return {"init": "ok", "probe": True, "parse": "perr"}
    except Exception as e:
        return {"init": "ok", "probe": True, "parse": "escape:" + type(e).__name__}
    try:
        return {"init": "ok", "probe": True, "parse": "ok", "back": w.desc(t, back)}
    except Exception as e:
        return {"init": "ok", "probe": True, "parse": "ok", "back": "badtype:" + str(e)[:60]}


def gen_case(rng, depth=2):
    t = gen_data(rng, depth, rng.choice([1, 1, 2, 3]))
    return {"ty": t, "val": gen_value(rng, t), "mode": rng.choice(["encoder", "encoder", "serializer"]), "cfg": FIXED}


def one_field(t, v, mode="encoder"):
    return {"ty": {"data": [[cps("f"), t]]}, "val": {"data": [[cps("f"), v]]}, "mode": mode, "cfg": FIXED}


def grid_cases(rng):
    """a deterministic sweep of boundary values per scalar type (thorough tier)"""
    out = []
    for sign in (1, -1):
        for us in [0, 1, 999999, 1000000, 59000000, 60000000, 3599999999, 3600000000, 19800000000, 43200000000, 86399999999]:
            for clock in [(0, 0, 0, 0), (23, 59, 59, 999999), (3, 4, 5, 7000)]:
                out.append(one_field("datetime", {"datetime": [2020, 1, 2, *clock, str(sign * us)]}))
                if clock[3] % 1000 == 0:
                    out.append(one_field("time", {"time": [*clock, str(sign * us)]}))
    for days in [0, 1, 999999999]:
        for rest in [0, 1, 999999, 1000000, 3600000000, 86399999999]:
            for sign in (1, -1):
                us = sign * (days * 86400000000 + rest)
                if -86400000000 * 999999999 <= us:
                    out.append(one_field("delta", {"delta": str(us)}))
    for c in [0, 1, 5, 123456789012345, 999999999999999, 100000000000000, 9007199254740991, 9007199254740992]:
        for e in list(range(-330, -300)) + list(range(-20, 21)) + [292, 293, 300, 307, 308, 309, 310]:
            for neg in (False, True):
                out.append(one_field("dec", {"dec": ["fin", neg, str(c), str(e)]}))
    return out


# ----------------------------------------------------------------------------------------------
# audit of `PrimLaws` against CPython
# ----------------------------------------------------------------------------------------------

def duration_iso(us: int) -> str:
    """Python rendering of Utv.C14.durationIso"""
    a = abs(us)
    days, rem = divmod(a, 86400000000)
    secs, micro = divmod(rem, 1000000)
    minutes, seconds = divmod(secs, 60)
    hours, minutes = divmod(minutes, 60)
    ms = ".{:06d}".format(micro) if micro else ""
    return "{}P{}DT{:02d}H{:02d}M{:02d}{}S".format("-" if us < 0 else "", days, hours, minutes, seconds, ms)


def law_audit(seed: int, n: int) -> list[str]:
    rng = random.Random(seed * 7919 + 14)
    bad = []
    allf = DATETIME_FORMATS + DATE_FORMATS
    regs = [re.compile(r) for r in DURATION_REGS]

    def fails(s, f):
        try:
            datetime.strptime(s, f)
            return False
        except ValueError:
            return True

    for i in range(n):
        d = gen_date(rng)
        s = d.isoformat()
        if datetime.strptime(s, "%Y-%m-%d") != datetime(d.year, d.month, d.day):
            bad.append(f"date_fmt {s}")
        clock = gen_clock(rng)
        tz = gen_tz(rng)
        dt = datetime(d.year, d.month, d.day, *clock, tzinfo=tz_of(tz))
        s = dt.isoformat()
        own = "%Y-%m-%dT%H:%M:%S.%f" if clock[3] else "%Y-%m-%dT%H:%M:%S"
        if tz is None:
            if fails(s, own) or datetime.strptime(s, own) != dt:
                bad.append(f"naive_fmt {s}")
            bad += [f"naive_other {s} {f}" for f in allf if f != own and not fails(s, f)]
        else:
            bad += [f"aware_plain {s} {f}" for f in allf if not fails(s, f)]
            try:
                back = datetime.strptime(s, own + "%z")
                if back != dt or back.utcoffset() != dt.utcoffset() or back.replace(tzinfo=None) != dt.replace(tzinfo=None):
                    bad.append(f"aware_fmt {s}")
            except ValueError:
                bad.append(f"aware_fmt {s}")
            bad += [f"aware_other {s} {f}" for f in allf if f != own and not fails(s, f + "%z")]
        c = gen_clock(rng, ms_only=True)
        c = c[:3] + (c[3] // 1000 * 1000,)
        tzt = gen_tz(rng)
        if tzt is not None and 0 < abs(tzt) < 1000000:
            tzt = 1000000 if tzt > 0 else -1000000
        tm = time(*c, tzinfo=tz_of(tzt))
        s = tm.isoformat(timespec="milliseconds") if c[3] else tm.isoformat()
        try:
            back = time.fromisoformat(s)
            if back != tm or back.utcoffset() != tm.utcoffset() or back.replace(tzinfo=None) != tm.replace(tzinfo=None):
                bad.append(f"time_iso {s}")
        except ValueError:
            bad.append(f"time_iso {s}")
        us = gen_delta(rng)
        s = duration_iso(us)
        try:
            float(s)
            bad.append(f"dur_float {s}")
        except ValueError:
            pass
        if regs[0].match(s):
            bad.append(f"dur_re0 {s}")
        m = regs[1].match(s)
        if not m:
            bad.append(f"dur_iso no match {s}")
        else:
            kw = m.groupdict()
            sign = kw.pop("sign")
            if (sign == "-") != (us < 0):
                bad.append(f"dur_iso sign {s}")
            try:
                td = timedelta(**{k: float(x) for k, x in kw.items() if x is not None})
                if us_of(td) != abs(us):
                    bad.append(f"dur_iso value {s}")
            except Exception:
                bad.append(f"dur_iso raises {s}")
        dd = gen_dec(rng)
        if not dd.is_nan():
            sd = str(dd)
            if Decimal(sd).as_tuple() != dd.as_tuple() or sd.strip() != sd or not sd:
                bad.append(f"dec_str {sd}")
        if dd.is_finite():
            sign, digits, exp = dd.as_tuple()
            cc = int("".join(map(str, digits)))
            if cc < 10 ** 15 and abs(dd) <= MAX_SAFE_NUMBER and not (dd != 0 and abs(dd) < MIN_NORMAL):
                f = float(dd)
                if not math.isfinite(f) or (f == 0) != (cc == 0) or Decimal(str(f)) != dd:
                    bad.append(f"dec_float {dd}")
        k = gen_int(rng)
        if Decimal(str(k)).as_tuple() != (1 if k < 0 else 0, tuple(int(ch) for ch in str(abs(k))), 0):
            bad.append(f"dec_int {k}")
        nn = rng.getrandbits(128)
        if UUID(str(UUID(int=nn))).int != nn:
            bad.append(f"uuid_rt {nn}")
        b = gen_str(rng).encode("utf-8")
        if b.decode("utf-8", errors="replace").encode() != b:
            bad.append(f"utf8_rt {b!r}")
    return bad[:20]


# ----------------------------------------------------------------------------------------------
# value classes (evidence)
# ----------------------------------------------------------------------------------------------

def leaf_classes(t, v, out):
    (tag, e), = [(k, x) for k, x in v.items() if k != "hidden"]
    if tag == "none":
        out.add("none")
    elif tag == "bool":
        out.add("bool")
    elif tag == "int":
        i = int(e)
        out.add("int:" + ("big" if abs(i) > 2 ** 53 else "small") + ("-" if i < 0 else ""))
    elif tag == "float":
        f = dec_f(e) if e[0] == "fin" else None
        out.add("float:" + (e[0] if f is None else ("zero" if f == 0 else "int" if f == int(f) and abs(f) < 1e16 else "exp" if "e" in repr(f) else "frac")))
    elif tag == "str":
        out.add("str:" + ("empty" if not e else "ascii" if all(32 <= c < 127 and c not in (34, 92) for c in e) else "escape" if all(c < 128 for c in e) else "astral" if any(c > 0xFFFF for c in e) else "unicode"))
    elif tag == "bytes":
        out.add("bytes:" + ("empty" if not e else "invalid" if not valid_utf8(bytes(e)) else "ascii" if all(c < 128 for c in e) else "multibyte"))
    elif tag == "dec":
        if e[0] != "fin":
            out.add("dec:" + e[0])
        else:
            d = dec_d(e)
            c, ex = int(e[2]), int(e[3])
            out.add("dec:" + ("unsafe" if abs(d) > MAX_SAFE_NUMBER else "int" if ex == 0 else "tiny" if d != 0 and abs(d) < MIN_NORMAL else
                              "zero" if c == 0 else "float") + (":>15" if c >= 10 ** 15 else "") + (":e+" if ex > 0 else ""))
    elif tag == "date":
        out.add("date:" + ("y<1000" if e[0] < 1000 else "y"))
    elif tag == "datetime":
        tz = e[7]
        out.add("datetime:" + ("naive" if tz is None else "utc" if int(tz) == 0 else ("neg" if int(tz) < 0 else "pos") +
                               (":us" if int(tz) % 1000000 else ":sec" if int(tz) % 60000000 else "")) + (":us" if e[6] else ""))
    elif tag == "time":
        tz = e[4]
        out.add("time:" + ("naive" if tz is None else "aware-" if int(tz) < 0 else "aware") + (":ms" if e[3] and e[3] % 1000 == 0 else ":us" if e[3] else ""))
    elif tag == "delta":
        us = int(e)
        out.add("delta:" + ("zero" if us == 0 else "neg" if us < 0 else "pos") + (":us" if us % 1000000 else "") + (":days" if abs(us) >= 86400000000 else ""))
    elif tag == "uuid":
        out.add("uuid")
    elif tag == "enum":
        decl = t["enum"] if isinstance(t, dict) and "enum" in t else (t["optional"]["enum"] if isinstance(t, dict) and "optional" in t else None)
        shadow = False
        if decl:
            val = decl["members"][e][1]
            shadow = "str" in val and any(n == val["str"] and j != e for j, (n, _) in enumerate(decl["members"]))
            out.add("enum:" + decl["mixin"] + ":" + next(iter(val)) + (":shadow" if shadow else ""))
    elif tag in ("list", "set", "tuple"):
        out.add(tag + (":empty" if not e else ""))
        if isinstance(t, dict):
            tt = t.get("optional", t) if "optional" in t else t
            (ttag, te), = tt.items()
            for i, x in enumerate(e):
                leaf_classes(te[i] if ttag == "tuple" else te, x, out)
    elif tag == "dict":
        tt = t.get("optional", t) if "optional" in t else t
        out.add("dict:" + tt["dict"][0] + (":empty" if not e else ""))
        for _, x in e:
            leaf_classes(tt["dict"][1], x, out)
    elif tag == "data":
        tt = t.get("optional", t) if "optional" in t else t
        out.add("data")
        ftys = field_types(tt)
        for n, x in e:
            leaf_classes(ftys[json.dumps(n)], x, out)


def shape(t) -> str:
    if isinstance(t, str):
        return t
    (tag, e), = t.items()
    if tag == "enum":
        return "enum"
    if tag in ("list", "set", "tuplevar", "optional"):
        return f"{tag}[{shape(e)}]"
    if tag == "tuple":
        return "tuple[" + ",".join(shape(x) for x in e) + "]"
    if tag == "dict":
        return f"dict[{e[0]},{shape(e[1])}]"
    if tag == "cut":
        return "self"
    if is_rich(t):
        o = e.get("opts", {})
        flags = [k for k in ("ci", "gen", "max_depth", "mode") if o.get(k)] + (["dfs=%s" % o["dfs"]] if o.get("dfs") is not None else [])
        return "cls{" + ",".join(
            (fv["role"] + ("*" if fv["ci"] else "") + ("@" if fv["name"] != fv["att"] else "") + ("+" if len(fv["keys"]) > 1 + (fv["name"] != fv["att"]) else "")
             + ":" + shape(fv["ty"])) for fv in views(t)) + "}[" + ",".join(flags) + "]"
    return "data{" + ",".join(shape(ft) for _, ft in e) + "}"


NATIVE = {"none", "bool", "int", "float", "str"}


def trivial(t) -> bool:
    """only types JSON represents natively (no encoder / converter involved)"""
    if isinstance(t, str):
        return t in NATIVE
    (tag, e), = t.items()
    if tag in ("list", "optional"):
        return trivial(e)
    if tag == "dict":
        return e[0] == "str" and trivial(e[1])
    if tag == "data":
        return not is_rich(t) and all(trivial(ft) for _, ft in e)
    return False


# ----------------------------------------------------------------------------------------------
# static obligations: the tables the model copies
# ----------------------------------------------------------------------------------------------

def source_tables():
    tr = ast.parse((REPO / "utype" / "utils" / "transform.py").read_text())
    out = {}
    date_fmt = {}
    for node in ast.walk(tr):
        if isinstance(node, ast.ClassDef) and node.name == "DateFormat":
            for st in node.body:
                if isinstance(st, ast.Assign) and isinstance(st.value, ast.Constant):
                    date_fmt[st.targets[0].id] = st.value.value
    for node in ast.walk(tr):
        if isinstance(node, ast.ClassDef) and node.name == "TypeTransformer":
            for st in node.body:
                if isinstance(st, ast.Assign) and isinstance(st.targets[0], ast.Name):
                    name = st.targets[0].id
                    if name in ("DATE_FORMATS", "DATETIME_FORMATS"):
                        vals = []
                        for el in st.value.elts:
                            if isinstance(el, ast.Constant):
                                vals.append(el.value)
                            elif isinstance(el, ast.Attribute):
                                vals.append(date_fmt.get(el.attr))
                        out[name] = vals
                    elif name in ("NULL_VALUES", "FALSE_VALUES", "TRUE_VALUES"):
                        out[name] = tuple(ast.literal_eval(st.value))
                    elif name == "DURATION_REGS":
                        regs = []
                        for el in st.value.elts:
                            # re.compile("..." "...")
                            regs.append(ast.literal_eval(el.args[0]))
                        out[name] = regs
    en = ast.parse((REPO / "utype" / "utils" / "encode.py").read_text())
    encs = []
    for node in en.body:
        if isinstance(node, ast.Assign) and isinstance(node.targets[0], ast.Name) and node.targets[0].id in ("MAX_SAFE_NUMBER", "MIN_SAFE_NUMBER"):
            out[node.targets[0].id] = ast.literal_eval(node.value)
        if isinstance(node, ast.FunctionDef):
            for dec in node.decorator_list:
                if isinstance(dec, ast.Call) and getattr(dec.func, "id", "") == "register_encoder":
                    encs.append(",".join(ast.unparse(a) for a in dec.args))
    out["ENCODERS"] = encs
    return out


class C14(Check):
    prop = "C14"
    props_modules = ["Utv.Props.C14"]
    driver = "C14"
    impl = "harness.c14:impl"
    case_timeout = 20.0
    budget = {"quick": 5000, "thorough": 120000}
    search_budget = {"quick": 3000, "thorough": 20000}
    rule = ("seeded data-class declarations x boundary-rich instances x encoder entry point, in three equal streams: (1) one field "
            "of a random type; (2) 1-3 plain required fields; (3) the class side - Field(alias) / alias_generator camel|pascal / "
            "alias_from, per-field and class-wide case_insensitive, data_first_search None|True|False, Options(mode) with per-field mode, "
            "defaults / default_factory, required=False, no_output, no_input, output @property with 1-3 declared dependencies, max_depth "
            "2-4 with Optional['Self'] / List['Self'] chains up to (rarely beyond) the limit; 35 % of those instances mutated through "
            "attribute / item assignment, update({}), update(**kw), |= (1-3 operations) before encoding; 1/12 of the cases are classes with containers "
            "taken over as they are (bare list / dict, Any, List[list], Dict[str, list], List[dict], Optional[list], List[Any], Tuple[list, dict]) "
            "holding random JSON values (specification only, no Lean type); every text that parses back equal is parsed three times with in-place "
            "changes of the first result in between (equal each time, nothing mutable shared).  Field types over int float str "
            "bool None bytes Decimal date datetime time timedelta UUID Enum (plain / int / str mixin) List Set Tuple[...] Tuple[T, ...] "
            "Dict[str|int, T] Optional[T] nested classes (plain or rich), depth <= 2 quick / 3 thorough; values: negative / positive / "
            "second- and microsecond-granular UTC offsets, negative and microsecond durations, timedelta.min/max, Decimals with 1-15 digits "
            "and exponents -400..400 incl. the subnormal edge and 2^53, huge ints, -0.0, 5e-324, escapes / astral text, empty containers; "
            "thorough adds a deterministic grid of offsets x clocks, durations and Decimal coefficient x exponent pairs.  non-trivial = the "
            "declaration has a field type JSON does not represent natively or is a rich class; distinct by (declaration shape incl. field "
            "kinds / alias / case flags / options, set of leaf value classes)")
    assumptions = [
        "PrimLaws (CPython's strptime / time.fromisoformat / re / timedelta(float) / float(Decimal) / repr(float) / Decimal(str) / UUID / UTF-8 / json "
        "on the encoders' output) are hypotheses of the theorems: audited against the running interpreter on generated values every run, "
        "and satisfied by the concrete Lean instance P0 (C14_primlaws_P0)",
        "data classes = Schema subclasses; a required no_output field, an assigned no_input field, a property with undeclared "
        "dependencies, pop/del/setdefault and untyped additions are outside (not rebuildable from output by design / C07); str = Unicode scalar values (no lone surrogates); |int| < 10^4000 "
        "(CPython's int/str digit limit); dict keys str or int; time values naive or aware at millisecond precision; frozenset / deque / "
        "attribute-based DataClass are outside (no encoder registered)",
    ]

    def corpus(self):
        return [dict(c, cfg=FIXED) for c in super().corpus()]

    def cases(self, tier, rng, n):
        out = []
        if tier == "thorough":
            out += grid_cases(rng)
        depth = 3 if tier == "thorough" else 2
        # one-field cases (sharp replays) and multi-field cases
        for i in range(n):
            if i % 12 == 5:
                out.append(gen_raw_case(rng))   # containers taken over as they are (bare list / dict, Any, List[list] ...)
            elif i % 12 == 11:
                out.append(gen_probe(rng))      # look-alike text into typed fields: model of the decoders vs the real ones
            elif i % 3 == 0:
                t = gen_type(rng, depth - 1)
                out.append(one_field(t, gen_value(rng, t), rng.choice(["encoder", "serializer"])))
            elif i % 3 == 1:
                out.append(gen_case(rng, depth))
            else:
                # the class side: aliases, case-insensitivity, options, kinds of fields, self-reference, mutation
                out.append(gen_rich_case(rng, depth))
        return out

    def model_line(self, case):
        if case.get("raw"):
            # no Lean type for an untyped container: the driver gets the empty class, the case is counted as unmodelled
            return {"cfg": FIXED, "ty": {"data": []}, "val": {"data": []}, "prims": prim_table({"data": []}, {"data": []})}
        if case.get("probe"):
            return {"cfg": case.get("cfg", FIXED), "ty": model_type(case["ty"]), "parse_tree": case["tree"], "prims": probe_prims(case["tree"])}
        val = strip_hidden(case["val"])
        return {"cfg": case.get("cfg", FIXED), "ty": model_type(case["ty"]), "val": val, "prims": prim_table(case["ty"], val)}

    # -- comparison model vs implementation ------------------------------------------------------
    def compare(self, case, io, mo):
        if case.get("raw"):
            self._unmodelled = getattr(self, "_unmodelled", 0) + 1
            self._compared = getattr(self, "_compared", 0) + 1
            return io.get("state")
        d = self._compare(case, io, mo)
        if isinstance(mo, dict) and (str(mo.get("enc", "")).startswith("unmodelled") or str(mo.get("parse", "")).startswith("unmodelled")):
            self._unmodelled = getattr(self, "_unmodelled", 0) + 1
        self._compared = getattr(self, "_compared", 0) + 1
        return d

    def _compare(self, case, io, mo):
        if case.get("probe"):
            if not isinstance(mo, dict) or "parse" not in mo:
                return f"driver: {str(mo)[:200]}"
            if mo["parse"].startswith("unmodelled"):
                return None
            ip = "perr" if io.get("parse", "").startswith("escape") else io.get("parse")
            if mo["parse"] != ip:
                return f"probe: parse outcome impl={io.get('parse')} model={mo['parse']}"
            if ip == "ok" and canon_val(mo["back"]) != io.get("back"):
                return "probe: parsed value differs"
            return None
        if not isinstance(mo, dict) or "enc" not in mo:
            return f"driver: {str(mo)[:200]}"
        if io.get("init") != "ok":
            # not constructible: no instance to talk about - but a declaration utype refuses for a key conflict must
            # fail the Lean `declChecked` as well (and one it accepts must pass it: the domain cross-check below)
            if "ConfigError" in str(io.get("init")) and "conflict" in str(io.get("init")) and mo.get("declChecked") is True \
                    and is_rich(case["ty"]) and '"id"' not in json.dumps(case["ty"]["data"]["fields"]):     # (no nested class that could be the refused one)
                return f"utype refuses the declaration ({io['init'][:90]}) but declChecked holds"
            return None
        if canon_val(mo["echo"]) != canon_val(case["val"]):
            return "driver decoded a different instance"
        if "state" in io:
            return "the instance is not in the state the operations describe (attribute / item assignment, update, |=)"
        if "decl" in io:
            # the harness's reading of the declaration (output names, accepted keys, lookup strategy) against the parser's
            vs = views(case["ty"])
            want = {fv["name"]: [k.lower() for k in fv["keys"]] if fv["ci"] else fv["keys"] for fv in vs}
            got = {n: ks for n, ks in io["decl"]["keys"].items()}
            if got != want:
                return f"declaration read differently: parser {got} harness {want}"
            if io["decl"]["dfs"] != class_opts(case["ty"])["dataFirst"]:
                return "lookup strategy read differently"
        dom = in_domain(case["ty"], case["val"])
        # the Lean domain leaves the known-defect Enum declarations out (EnumDecl.wf); the stated domain does not
        if not nonjson_enum(case["ty"]) and bool(mo["inDomain"]) != dom:
            return f"domain predicates differ: lean inDomain={mo['inDomain']} python in_domain={dom}"
        if bool(mo["hasInf"]) != has_inf(case["val"]) or bool(mo["setOfContainers"]) != set_of_containers(case["ty"]):
            return "known-defect predicates differ between Lean and the harness"
        if mo["enc"].startswith("unmodelled") or mo.get("parse", "").startswith("unmodelled"):
            return None
        if (mo["enc"] == "ok") != (io.get("enc") == "ok"):
            return f"encoding outcome: impl={io.get('enc')} model={mo['enc']}"
        if mo["enc"] != "ok":
            return None
        if canon_tree(case["ty"], mo["tree"]) != io.get("tree"):
            return "encoded JSON differs"
        if bool(mo["std"]) != bool(io.get("std")):
            return f"standard-JSON verdict: impl={io.get('std')} model={mo['std']}"
        ip = io.get("parse", "")
        if ip.startswith("escape"):
            ip = "perr"        # the model has one failure outcome; the kind is the spec's business (C04)
        if mo["parse"] != ip:
            return f"parse outcome: impl={io.get('parse')} model={mo['parse']}"
        if mo["parse"] == "ok":
            if canon_val(mo["back"]) != io.get("back"):
                return "parsed-back value differs"
            # Python's == is coarser than the model's structural equality only outside the domain (aware times
            # compare modulo the sub-second part of the offset); inside the domain the verdicts must coincide
            if (bool(mo["eq"]) and not io.get("equal")) or (dom and bool(mo["eq"]) != bool(io.get("equal"))):
                return f"equality verdict: impl={io.get('equal')} model={mo['eq']}"
        return None

    # -- the property, on what the implementation did ----------------------------------------------
    def spec(self, case, io, mo):
        if io.get("init") != "ok" or case.get("probe"):
            return None
        if case.get("raw"):
            # JSON values in containers taken over as they are: in the domain by construction
            if io.get("enc") != "ok":
                return f"encoding an in-domain instance raised {io.get('enc')}"
            if not io.get("std"):
                return "the encoder's output is not standard JSON (RFC 8259)"
            if io.get("parse") != "ok":
                return f"parsing the encoded text back failed: {io.get('parse')} {io.get('msg', '')}"
            if not io.get("equal"):
                return "the instance parsed back from its own encoding is not equal to the original"
            if not io.get("strict"):
                return "the instance parsed back from its own encoding holds a value of another type than the original (bool / int / float / str / None / list / dict)"
            return reparse_spec(io)
        # the instance as it is (after any mutation through the public API)
        if not in_domain(case["ty"], io.get("state") or case["val"]):
            return None
        if io.get("enc") != "ok":
            return f"encoding an in-domain instance raised {io.get('enc')}"
        if not io.get("std"):
            return "the encoder's output is not standard JSON (RFC 8259)"
        if io.get("parse") != "ok":
            return f"parsing the encoded text back failed: {io.get('parse')}"
        if not io.get("equal"):
            return "the instance parsed back from its own encoding is not equal to the original"
        return reparse_spec(io)

    def classify(self, case, io, why):
        if case.get("raw"):
            return None
        # a violation falls under a known finding only if every field that fails on its own fails in that
        # finding's clause and is of that finding's kind
        ftys = field_types(case["ty"])
        state = io.get("state") or case["val"]
        fields = {json.dumps(n): (ftys[json.dumps(n)], fv) for n, fv in state["data"]}
        bad = [(fields[json.dumps(n)], w) for n, w in io.get("bad_fields", [])]
        if not bad:
            return None
        if not all((w == "std" and has_inf(fv)) or (w == "parse" and (set_of_containers(ft) or nonjson_enum(ft))) for (ft, fv), w in bad):
            return None
        if "not standard JSON" in why and any(w == "std" for _, w in bad):
            return "float-inf-nonstandard-json"
        if "parsing the encoded text back failed" in why and any(w == "parse" and set_of_containers(ft) for (ft, _), w in bad):
            return "set-of-tuples-unhashable"
        if "parsing the encoded text back failed" in why and any(w == "parse" and nonjson_enum(ft) for (ft, _), w in bad):
            return "enum-non-json-value"
        return None

    def neighbours(self, case, rng):
        if case.get("probe"):
            return []
        if case.get("raw"):
            out = []
            for n, k, v in case["fields"]:
                out.append(dict(case, fields=[[n, k, v]]))
                out += [dict(case, fields=[[n, k, gen_raw_value(rng, k, 2)]]) for _ in range(6)]
            return out
        out = []
        t, v = case["ty"], case["val"]
        # each field alone, with its value and with fresh values of the same type
        ftys = field_types(t)
        for n, fv in v["data"]:
            ft = ftys[json.dumps(n)]
            if json.dumps(ft).find('"cut"') >= 0:
                continue
            for mode in ("encoder", "serializer"):
                out.append(one_field(ft, fv, mode))
            for _ in range(12):
                out.append(one_field(ft, gen_value(rng, ft), case.get("mode", "encoder")))
        if is_rich(t):
            out.append({k: x for k, x in case.items() if k not in ("ops", "init")} if "ops" not in case else
                       dict({k: x for k, x in case.items() if k not in ("ops", "init", "val")}, val=case["init"]))
        return out

    def key(self, case, io):
        if case.get("raw"):
            return None if io.get("init") != "ok" else "raw|" + ",".join(sorted(k for _, k, _ in case["fields"])) + "|" + ",".join(sorted({c for _, _, v in case["fields"] for c in json_classes(v)}))
        if case.get("probe") or trivial(case["ty"]) or io.get("init") != "ok":
            return None
        cl = set()
        leaf_classes(case["ty"], case["val"], cl)
        return shape(case["ty"]) + "|" + ",".join(sorted(cl))

    def distribution(self, case, io):
        if case.get("raw"):
            return "raw/" + case.get("mode", "encoder") + "/" + "+".join(sorted({k for _, k, _ in case["fields"]}))[:80]
        if case.get("probe"):
            return "probe/" + shape(case["ty"]["data"][0][1])
        if io.get("init") != "ok":
            return "refused/" + str(io.get("init"))[:40]
        cl = set()
        leaf_classes(case["ty"], case["val"], cl)
        heads = sorted({c.split(":")[0] for c in cl})
        return ("in" if in_domain(case["ty"], case["val"]) else "out") + "/" + case.get("mode", "encoder") + "/" + "+".join(heads)[:80]

    def extra_static(self, tier):
        bad = []
        try:
            src = source_tables()
            want = {"DATETIME_FORMATS": DATETIME_FORMATS, "DATE_FORMATS": DATE_FORMATS, "NULL_VALUES": NULL_VALUES,
                    "FALSE_VALUES": FALSE_VALUES, "TRUE_VALUES": TRUE_VALUES, "DURATION_REGS": DURATION_REGS,
                    "MAX_SAFE_NUMBER": MAX_SAFE_NUMBER, "MIN_SAFE_NUMBER": -MAX_SAFE_NUMBER, "ENCODERS": ENCODER_CLASSES}
            for k, v in want.items():
                if src.get(k) != v:
                    bad.append(f"table {k} in the source differs from the model's copy: {src.get(k)!r}")
        except Exception as e:  # the source no longer has the shape the extractor reads
            bad.append(f"table extraction failed: {type(e).__name__}: {e}")
        try:
            from .common import LEAN
            txt = (LEAN / "Utv" / "Model" / "C14.lean").read_text()
            for f in DATETIME_FORMATS + DATE_FORMATS + list(NULL_VALUES + FALSE_VALUES + TRUE_VALUES):
                if f'"{f}".toList' not in txt:
                    bad.append(f"harness table entry {f!r} is not in the Lean model")
            if str(MAX_SAFE_NUMBER) not in txt:
                bad.append("MAX_SAFE_NUMBER is not in the Lean model")
        except Exception as e:
            bad.append(f"model table check failed: {e}")
        n = 1500 if tier == "quick" else 20000
        from .common import env_seed
        laws = law_audit(env_seed(), n)
        self._law_cases = n
        bad += ["PrimLaws audit (CPython disagrees with a law): " + l for l in laws]
        return bad

    def finish_evidence(self, ev, tier):
        ev["coverage"]["primlaws_audit_values_per_law"] = getattr(self, "_law_cases", 0)
        ev["coverage"]["unmodelled_cases"] = getattr(self, "_unmodelled", 0)
        ev["coverage"]["modelled_ratio"] = round(1 - getattr(self, "_unmodelled", 0) / max(1, getattr(self, "_compared", 1)), 4)
        ev["coverage"]["exhaustive"] = False
        if tier == "thorough":
            ev["coverage"]["exhaustive_part"] = "deterministic grid: 22 UTC offsets x 3 clocks (datetime, time), 36 durations, 8 Decimal coefficients x 78 exponents x sign"


CHECK = C14()
