import Utv.Lemmas.C10Top
/-!
C10: the reports of an (uncapped) collecting run name exactly the items that fail on their own.
Pure list reasoning about the closed form `reports` of Lemmas/C10Top.
-/
namespace Utv.C10

/-! ### small list facts -/

theorem find?_filter_self (p : α → Bool) (l : List α) : (l.filter p).find? p = l.find? p := by
  induction l with
  | nil => rfl
  | cons a l ih =>
    by_cases h : p a = true
    · simp [List.filter, h]
    · simp only [Bool.not_eq_true] at h
      simp [List.filter, h, ih]

theorem any_filter_self (p : α → Bool) (l : List α) : (l.filter p).any p = l.any p := by
  induction l with
  | nil => rfl
  | cons a l ih =>
    by_cases h : p a = true
    · simp [List.filter, h]
    · simp only [Bool.not_eq_true] at h
      simp [List.filter, h, ih]

theorem lookup_dataOf (data : Data) (i : String) : (dataOf data i).lookup i = data.lookup i := by
  unfold dataOf
  induction data with
  | nil => rfl
  | cons kv rest ih =>
    obtain ⟨k, v⟩ := kv
    by_cases h : k = i
    · subst h
      simp [List.filter, List.lookup]
    · have h1 : (k == i) = false := by simpa using h
      have h2 : (i == k) = false := by simpa using fun hh : i = k => h hh.symm
      simp [List.filter, List.lookup, h1, h2, ih]

theorem hasKey_mem (k : String) (d : Data) : hasKey k d = true ↔ ∃ v, (k, v) ∈ d := by
  unfold hasKey
  simp only [List.any_eq_true, beq_iff_eq]
  constructor
  · rintro ⟨⟨k', v⟩, hm, rfl⟩; exact ⟨v, hm⟩
  · rintro ⟨v, hm⟩; exact ⟨(k, v), hm, rfl⟩

/-! ### what each iteration reports -/

def Step.err? : Step α → Option Err
  | .keep _ => none
  | .report e _ => some e
  | .abort e _ => some e

theorem trace_filterMap {step : α → ι → Step α} (g : ι → Option Err) (hna : NoAbort step)
    (hg : ∀ a i, (step a i).err? = g i) (items : List ι) (a : α) :
    (trace step items a).1 = items.filterMap g := by
  induction items generalizing a with
  | nil => rfl
  | cons i is ih =>
    simp only [trace, List.filterMap_cons]
    have := hg a i
    cases hs : step a i with
    | keep a' => rw [hs] at this; simp only [Step.err?] at this; rw [← this]; exact ih a'
    | report e a' => rw [hs] at this; simp only [Step.err?] at this; rw [← this]; simp [ih a']
    | abort e x => exact absurd hs (hna a i e x)

def repField (rec : P) (m : Mode) (o : Opts) (f : FieldDecl) (v : Val) : Option Err :=
  (fieldValue rec m o f v).err?

theorem repField_item {rec : P} {m : Mode} {o : Opts} {f : FieldDecl} {v : Val} {e : Err}
    (h : repField rec m o f v = some e) : e.item = some f.name := by
  unfold repField fieldValue at h
  cases hty : f.ty with
  | none => simp [hty, Step.err?] at h
  | some T =>
    simp only [hty] at h
    cases hv : verdict rec T m o v with
    | some r => simp [hv, Step.err?] at h
    | none =>
      simp only [hv] at h
      cases hp : f.onError.getD o.invalidValues with
      | exclude =>
        simp only [hp] at h
        by_cases hr : f.required = true
        · simp only [hr, if_true, Step.err?, Option.some.injEq] at h; rw [← h]
        · simp [hr, Step.err?] at h
      | preserve => simp [hp, Step.err?] at h
      | throw => simp only [hp, Step.err?, Option.some.injEq] at h; rw [← h]

theorem store_err? (name : String) (res : Data) (s : Step (Option Val)) : (store name res s).err? = s.err? := by
  cases s with
  | keep r => cases r <;> rfl
  | report e r => cases r <;> rfl
  | abort e x => rfl

/-- what `parse_addition` reports for one additional key -/
def addRep (rec : P) (m : Mode) (o : Opts) (kv : String × Val) : Option Err :=
  (additionStep rec m o ([], []) kv).err?

theorem additionStep_err? (rec : P) (m : Mode) (o : Opts) (acc : Data × Data) (kv : String × Val) :
    (additionStep rec m o acc kv).err? = addRep rec m o kv := by
  unfold addRep additionStep
  cases o.addition with
  | none => rfl
  | no => rfl
  | yes =>
    simp only
    cases o.addTy with
    | none => rfl
    | some T =>
      simp only
      cases verdict rec T m o kv.2 with
      | some r => rfl
      | none => cases o.invalidValues <;> rfl
  | typed T0 =>
    simp only
    cases o.addTy with
    | none => rfl
    | some T =>
      simp only
      cases verdict rec T m o kv.2 with
      | some r => rfl
      | none => cases o.invalidValues <;> rfl

theorem addRep_item {rec : P} {m : Mode} {o : Opts} {kv : String × Val} {e : Err}
    (h : addRep rec m o kv = some e) : e.item = some kv.1 := by
  unfold addRep additionStep at h
  cases ha : o.addition with
  | none => simp [ha, Step.err?] at h
  | no => simp only [ha, Step.err?, Option.some.injEq] at h; rw [← h]
  | yes =>
    simp only [ha] at h
    cases ht : o.addTy with
    | none => simp [ht, Step.err?] at h
    | some T =>
      simp only [ht] at h
      cases hv : verdict rec T m o kv.2 with
      | some r => simp [hv, Step.err?] at h
      | none =>
        simp only [hv] at h
        cases hp : o.invalidValues with
        | exclude => simp [hp, Step.err?] at h
        | preserve => simp [hp, Step.err?] at h
        | throw => simp only [hp, Step.err?, Option.some.injEq] at h; rw [← h]
  | typed T0 =>
    simp only [ha] at h
    cases ht : o.addTy with
    | none => simp [ht, Step.err?] at h
    | some T =>
      simp only [ht] at h
      cases hv : verdict rec T m o kv.2 with
      | some r => simp [hv, Step.err?] at h
      | none =>
        simp only [hv] at h
        cases hp : o.invalidValues with
        | exclude => simp [hp, Step.err?] at h
        | preserve => simp [hp, Step.err?] at h
        | throw => simp only [hp, Step.err?, Option.some.injEq] at h; rw [← h]

/-- what the loop over the inputs of `data_first_parse` reports for one input entry (`ex`: names already taken
from positional arguments) -/
def g1 (rec : P) (m : Mode) (o : Opts) (decl : List FieldDecl) (ex : List String) (kv : String × Val) : Option Err :=
  match decl.find? (fun f => f.name == kv.1) with
  | none => addRep rec m o kv
  | some f =>
    if f.posOnly then addRep rec m o kv
    else if ex.contains f.name then none else repField rec m o f kv.2

theorem dfStep1_err? (rec : P) (m : Mode) (o : Opts) (decl : List FieldDecl) (ex : List String)
    (acc : Data × Data) (kv : String × Val) :
    (dfStep1 rec m o decl ex acc kv).err? = g1 rec m o decl ex kv := by
  unfold dfStep1 g1
  cases hfind : decl.find? (fun f => f.name == kv.1) with
  | none => exact additionStep_err? rec m o acc kv
  | some f =>
    simp only
    by_cases hp : f.posOnly = true
    · simp only [hp, if_true]; exact additionStep_err? rec m o acc kv
    · simp only [hp, Bool.false_eq_true, if_false]
      by_cases hx : ex.contains f.name = true
      · simp only [hx, if_true]; rfl
      · simp only [hx, Bool.false_eq_true, if_false]
        have := store_err? f.name acc.1 (fieldValue rec m o f kv.2)
        unfold repField
        rw [← this]
        cases store f.name acc.1 (fieldValue rec m o f kv.2) <;> rfl

theorem g1_item {rec : P} {m : Mode} {o : Opts} {decl : List FieldDecl} {ex : List String} {kv : String × Val}
    {e : Err} (h : g1 rec m o decl ex kv = some e) : e.item = some kv.1 := by
  unfold g1 at h
  split at h
  · exact addRep_item h
  · rename_i f hf
    have := List.find?_some hf
    simp only [beq_iff_eq] at this
    rw [← this]
    split at h
    · rw [this]; exact addRep_item h
    · split at h
      · simp at h
      · exact repField_item h

theorem g1_declOf (rec : P) (m : Mode) (o : Opts) (decl : List FieldDecl) (ex : List String) (k : String) (v : Val) :
    g1 rec m o (declOf decl k) ex (k, v) = g1 rec m o decl ex (k, v) := by
  unfold g1 declOf
  simp only
  rw [find?_filter_self (fun f => f.name == k) decl]

/-- what the field loop of `field_first_parse` reports for one field -/
def h1 (rec : P) (m : Mode) (o : Opts) (data : Data) (ex : List String) (f : FieldDecl) : Option Err :=
  if ex.contains f.name then none
  else
    match data.lookup f.name with
    | none => if f.required then some { kind := .absence, item := some f.name } else none
    | some v => repField rec m o f v

theorem ffStep1_err? (rec : P) (m : Mode) (o : Opts) (data : Data) (ex : List String) (acc : Data) (f : FieldDecl) :
    (ffStep1 rec m o data ex acc f).err? = h1 rec m o data ex f := by
  unfold ffStep1 h1
  by_cases hx : ex.contains f.name = true
  · simp only [hx, if_true]; rfl
  · simp only [hx, Bool.false_eq_true, if_false]
    cases hl : data.lookup f.name with
    | none =>
      simp only
      by_cases hr : f.required = true
      · simp only [hr, if_true]; rfl
      · simp only [hr, Bool.false_eq_true, if_false]
        cases f.default <;> rfl
    | some v => exact store_err? _ _ _

theorem h1_item {rec : P} {m : Mode} {o : Opts} {data : Data} {ex : List String} {f : FieldDecl} {e : Err}
    (h : h1 rec m o data ex f = some e) : e.item = some f.name := by
  unfold h1 at h
  split at h
  · simp at h
  · split at h
    · split at h
      · simp only [Option.some.injEq] at h; rw [← h]
      · simp at h
    · exact repField_item h

/-- what the addition loop of `field_first_parse` reports for one input entry -/
def h2 (rec : P) (m : Mode) (o : Opts) (decl : List FieldDecl) (ex : List String) (kv : String × Val) : Option Err :=
  if decl.any (fun f => f.name == kv.1 && !ex.contains f.name) then none else addRep rec m o kv

theorem ffStep2_err? (rec : P) (m : Mode) (o : Opts) (decl : List FieldDecl) (ex : List String)
    (acc : Data × Data) (kv : String × Val) :
    (ffStep2 rec m o decl ex acc kv).err? = h2 rec m o decl ex kv := by
  unfold ffStep2 h2
  split
  · rfl
  · exact additionStep_err? rec m o acc kv

theorem h2_item {rec : P} {m : Mode} {o : Opts} {decl : List FieldDecl} {ex : List String} {kv : String × Val}
    {e : Err} (h : h2 rec m o decl ex kv = some e) : e.item = some kv.1 := by
  unfold h2 at h
  split at h
  · simp at h
  · exact addRep_item h

theorem any_filter_and (p q : α → Bool) (l : List α) :
    (l.filter p).any (fun a => p a && q a) = l.any (fun a => p a && q a) := by
  induction l with
  | nil => rfl
  | cons a l ih =>
    by_cases h : p a = true
    · simp [List.filter, h, ih]
    · simp only [Bool.not_eq_true] at h
      simp [List.filter, h, ih]

theorem h2_declOf (rec : P) (m : Mode) (o : Opts) (decl : List FieldDecl) (ex : List String) (k : String) (v : Val) :
    h2 rec m o (declOf decl k) ex (k, v) = h2 rec m o decl ex (k, v) := by
  unfold h2 declOf
  simp only
  rw [any_filter_and (fun f => f.name == k) (fun f => !ex.contains f.name) decl]

theorem addRep_none_of_not_given {rec : P} {m : Mode} {o : Opts} (h : o.addition.given = false) (kv : String × Val) :
    addRep rec m o kv = none := by
  unfold addRep additionStep
  cases ha : o.addition with
  | none => rfl
  | no => rw [ha] at h; simp [Addition.given] at h
  | yes => rw [ha] at h; simp [Addition.given] at h
  | typed T => rw [ha] at h; simp [Addition.given] at h

theorem depsReports_false (rec : P) (m : Mode) (o : Opts) (decl : List FieldDecl) (ex : List String) (data : Data) :
    depsReports rec m o decl ex data false = [] := by
  simp [depsReports, trace, depsStep]

theorem depsReports_true (rec : P) (m : Mode) (o : Opts) (decl : List FieldDecl) (ex : List String) (data : Data) :
    depsReports rec m o decl ex data true =
      if (depsLack rec m o decl ex data).isEmpty then [] else [{ kind := .depsAbsence }] := by
  unfold depsReports depsStep
  by_cases h : (depsLack rec m o decl ex data).isEmpty = true
  · simp [trace, h]
  · simp [trace, h]

theorem countReports_false (o : Opts) (n : Nat) : countReports o n false = [] := by
  simp [countReports, trace]

theorem reportsFF_eq (rec : P) (m : Mode) (o : Opts) (decl : List FieldDecl) (ex : List String) (data : Data) :
    reportsFF rec m o decl ex false data = decl.filterMap (h1 rec m o data ex) ++ data.filterMap (h2 rec m o decl ex) := by
  unfold reportsFF
  rw [depsReports_false, List.nil_append]
  rw [trace_filterMap (h1 rec m o data ex) (ffStep1_noAbort rec m o data ex) (ffStep1_err? rec m o data ex)]
  by_cases ha : o.addition.given = true
  · simp only [ha, if_true]
    rw [trace_filterMap (h2 rec m o decl ex) (ffStep2_noAbort rec m o decl ex) (ffStep2_err? rec m o decl ex)]
  · simp only [ha, Bool.false_eq_true, if_false]
    have : data.filterMap (h2 rec m o decl ex) = [] := by
      rw [List.filterMap_eq_nil_iff]
      intro kv _
      unfold h2
      split
      · rfl
      · exact addRep_none_of_not_given (by simpa using ha) kv
    rw [this]

/-! ### field-first: reports and items -/

theorem ff_sound (rec : P) (m : Mode) (o : Opts) (decl : List FieldDecl) (ex : List String) (data : Data) (e : Err)
    (he : e ∈ reportsFF rec m o decl ex false data) :
    ∃ i, e.item = some i ∧ isItem decl data i = true ∧
      reportsFF rec m o (declOf decl i) ex false (dataOf data i) ≠ [] := by
  rw [reportsFF_eq] at he
  rcases List.mem_append.mp he with he | he
  · obtain ⟨f, hf, hfe⟩ := List.mem_filterMap.mp he
    refine ⟨f.name, h1_item hfe, ?_, ?_⟩
    · simp only [isItem, Bool.or_eq_true, List.any_eq_true, beq_iff_eq]
      left; exact ⟨f, hf, rfl⟩
    · rw [reportsFF_eq]
      intro hnil
      have hmem : e ∈ (declOf decl f.name).filterMap (h1 rec m o (dataOf data f.name) ex) := by
        apply List.mem_filterMap.mpr
        refine ⟨f, ?_, ?_⟩
        · simp [declOf, hf]
        · unfold h1 at hfe ⊢
          rw [lookup_dataOf]
          exact hfe
      rw [List.append_eq_nil_iff] at hnil
      rw [hnil.1] at hmem
      cases hmem
  · obtain ⟨kv, hkv, hke⟩ := List.mem_filterMap.mp he
    obtain ⟨k, v⟩ := kv
    refine ⟨k, h2_item hke, ?_, ?_⟩
    · simp only [isItem, Bool.or_eq_true]
      right; exact (hasKey_mem k data).mpr ⟨v, hkv⟩
    · rw [reportsFF_eq]
      intro hnil
      have hmem : e ∈ (dataOf data k).filterMap (h2 rec m o (declOf decl k) ex) := by
        apply List.mem_filterMap.mpr
        refine ⟨(k, v), ?_, ?_⟩
        · simp [dataOf, hkv]
        · rw [h2_declOf]; exact hke
      rw [List.append_eq_nil_iff] at hnil
      rw [hnil.2] at hmem
      cases hmem

theorem ff_complete (rec : P) (m : Mode) (o : Opts) (decl : List FieldDecl) (ex : List String) (data : Data)
    (i : String) (hne : reportsFF rec m o (declOf decl i) ex false (dataOf data i) ≠ []) :
    ∃ e ∈ reportsFF rec m o decl ex false data, e.item = some i := by
  rw [reportsFF_eq] at hne
  rw [reportsFF_eq]
  obtain ⟨e', he'⟩ := List.exists_mem_of_ne_nil _ hne
  rcases List.mem_append.mp he' with he' | he'
  · obtain ⟨f, hf, hfe⟩ := List.mem_filterMap.mp he'
    simp only [declOf, List.mem_filter, beq_iff_eq] at hf
    obtain ⟨hfd, hfn⟩ := hf
    refine ⟨e', List.mem_append.mpr (Or.inl (List.mem_filterMap.mpr ⟨f, hfd, ?_⟩)), ?_⟩
    · unfold h1 at hfe ⊢
      rw [hfn, lookup_dataOf] at hfe
      rw [hfn]
      exact hfe
    · rw [← hfn]; exact h1_item hfe
  · obtain ⟨kv, hkv, hke⟩ := List.mem_filterMap.mp he'
    obtain ⟨k, v⟩ := kv
    simp only [dataOf, List.mem_filter, beq_iff_eq] at hkv
    obtain ⟨hkd, hki⟩ := hkv
    subst hki
    refine ⟨e', List.mem_append.mpr (Or.inr (List.mem_filterMap.mpr ⟨(k, v), hkd, ?_⟩)), h2_item hke⟩
    rw [h2_declOf] at hke
    exact hke

/-! ### data-first (after C06's repair the second loop only asks whether the field was given) -/

/-- what the loop over the declared fields of `data_first_parse` reports for one field -/
def g2 (data : Data) (ex : List String) (f : FieldDecl) : Option Err :=
  if hasKey f.name data || ex.contains f.name then none
  else if f.required then some { kind := .absence, item := some f.name } else none

theorem dfStep2_err? (data : Data) (ex : List String) (acc : Data) (f : FieldDecl) :
    (dfStep2 data ex acc f).err? = g2 data ex f := by
  unfold dfStep2 g2
  by_cases hk : (hasKey f.name data || ex.contains f.name) = true
  · simp only [hk, if_true]; rfl
  · simp only [hk, Bool.false_eq_true, if_false]
    by_cases hr : f.required = true
    · simp only [hr, if_true]; rfl
    · simp only [hr, Bool.false_eq_true, if_false]
      cases f.default <;> rfl

theorem g2_item {data : Data} {ex : List String} {f : FieldDecl} {e : Err} (h : g2 data ex f = some e) :
    e.item = some f.name := by
  unfold g2 at h
  split at h
  · simp at h
  · split at h
    · simp only [Option.some.injEq] at h; rw [← h]
    · simp at h

theorem hasKey_dataOf (data : Data) (i : String) : hasKey i (dataOf data i) = hasKey i data := by
  unfold hasKey dataOf
  exact any_filter_self (fun p => p.1 == i) data

theorem reportsDF_eq (rec : P) (m : Mode) (o : Opts) (decl : List FieldDecl) (ex : List String) (data : Data) :
    reportsDF rec m o decl ex false data = data.filterMap (g1 rec m o decl ex) ++ decl.filterMap (g2 data ex) := by
  unfold reportsDF
  rw [depsReports_false, List.append_nil]
  rw [trace_filterMap (g1 rec m o decl ex) (dfStep1_noAbort rec m o decl ex) (dfStep1_err? rec m o decl ex),
    trace_filterMap (g2 data ex) (dfStep2_noAbort data ex) (dfStep2_err? data ex)]

theorem mem_dataOf {data : Data} {i k : String} {v : Val} : (k, v) ∈ dataOf data i ↔ (k, v) ∈ data ∧ k = i := by
  simp [dataOf]

theorem mem_declOf {decl : List FieldDecl} {i : String} {f : FieldDecl} : f ∈ declOf decl i ↔ f ∈ decl ∧ f.name = i := by
  simp [declOf]

theorem df_sound (rec : P) (m : Mode) (o : Opts) (decl : List FieldDecl) (ex : List String)
    (data : Data) (e : Err) (he : e ∈ reportsDF rec m o decl ex false data) :
    ∃ i, e.item = some i ∧ isItem decl data i = true ∧
      reportsDF rec m o (declOf decl i) ex false (dataOf data i) ≠ [] := by
  rw [reportsDF_eq] at he
  rcases List.mem_append.mp he with he | he
  · obtain ⟨kv, hkv, hke⟩ := List.mem_filterMap.mp he
    obtain ⟨k, v⟩ := kv
    refine ⟨k, g1_item hke, ?_, ?_⟩
    · simp only [isItem, Bool.or_eq_true]
      right; exact (hasKey_mem k data).mpr ⟨v, hkv⟩
    · rw [reportsDF_eq]
      intro hnil
      have hmem : e ∈ (dataOf data k).filterMap (g1 rec m o (declOf decl k) ex) := by
        apply List.mem_filterMap.mpr
        exact ⟨(k, v), mem_dataOf.mpr ⟨hkv, rfl⟩, by rw [g1_declOf]; exact hke⟩
      rw [List.append_eq_nil_iff] at hnil
      rw [hnil.1] at hmem
      cases hmem
  · obtain ⟨f, hf, hfe⟩ := List.mem_filterMap.mp he
    refine ⟨f.name, g2_item hfe, ?_, ?_⟩
    · simp only [isItem, Bool.or_eq_true, List.any_eq_true, beq_iff_eq]
      left; exact ⟨f, hf, rfl⟩
    · rw [reportsDF_eq]
      intro hnil
      have hmem : e ∈ (declOf decl f.name).filterMap (g2 (dataOf data f.name) ex) := by
        apply List.mem_filterMap.mpr
        refine ⟨f, mem_declOf.mpr ⟨hf, rfl⟩, ?_⟩
        unfold g2 at hfe ⊢
        rw [hasKey_dataOf]
        exact hfe
      rw [List.append_eq_nil_iff] at hnil
      rw [hnil.2] at hmem
      cases hmem

theorem df_complete (rec : P) (m : Mode) (o : Opts) (decl : List FieldDecl) (ex : List String)
    (data : Data) (i : String) (hne : reportsDF rec m o (declOf decl i) ex false (dataOf data i) ≠ []) :
    ∃ e ∈ reportsDF rec m o decl ex false data, e.item = some i := by
  rw [reportsDF_eq] at hne
  rw [reportsDF_eq]
  obtain ⟨e', he'⟩ := List.exists_mem_of_ne_nil _ hne
  rcases List.mem_append.mp he' with he' | he'
  · obtain ⟨kv, hkv, hke⟩ := List.mem_filterMap.mp he'
    obtain ⟨k, v⟩ := kv
    obtain ⟨hkd, rfl⟩ := mem_dataOf.mp hkv
    rw [g1_declOf] at hke
    exact ⟨e', List.mem_append.mpr (Or.inl (List.mem_filterMap.mpr ⟨(k, v), hkd, hke⟩)), g1_item hke⟩
  · obtain ⟨f, hf, hfe⟩ := List.mem_filterMap.mp he'
    obtain ⟨hfd, hfn⟩ := mem_declOf.mp hf
    subst hfn
    refine ⟨e', List.mem_append.mpr (Or.inr (List.mem_filterMap.mpr ⟨f, hfd, ?_⟩)), g2_item hfe⟩
    unfold g2 at hfe ⊢
    rw [hasKey_dataOf] at hfe
    exact hfe

/-! ### both strategies -/

theorem reportsX_sound (rec : P) (m : Mode) (o : Opts) (decl : List FieldDecl) (ex : List String)
    (data : Data) (e : Err) (he : e ∈ reportsX rec m o decl ex false data) :
    ∃ i, e.item = some i ∧ isItem decl data i = true ∧
      reportsX rec m o (declOf decl i) ex false (dataOf data i) ≠ [] := by
  unfold reportsX at he ⊢
  simp only [countReports_false, List.nil_append] at he ⊢
  by_cases hd : o.dfs = true
  · simp only [hd, if_true] at he ⊢; exact df_sound rec m o decl ex data e he
  · simp only [hd, Bool.false_eq_true, if_false] at he ⊢; exact ff_sound rec m o decl ex data e he

theorem reportsX_complete (rec : P) (m : Mode) (o : Opts) (decl : List FieldDecl) (ex : List String)
    (data : Data) (i : String) (hne : reportsX rec m o (declOf decl i) ex false (dataOf data i) ≠ []) :
    ∃ e ∈ reportsX rec m o decl ex false data, e.item = some i := by
  unfold reportsX at hne ⊢
  simp only [countReports_false, List.nil_append] at hne ⊢
  by_cases hd : o.dfs = true
  · simp only [hd, if_true] at hne ⊢; exact df_complete rec m o decl ex data i hne
  · simp only [hd, Bool.false_eq_true, if_false] at hne ⊢; exact ff_complete rec m o decl ex data i hne

/-! ### the errors of the whole mapping -/

theorem countReports_true (o : Opts) (n : Nat) :
    countReports o n true =
      (match o.maxParams with
        | some k => if k != 0 && n > k then [({ kind := .paramsExceed } : Err)] else []
        | none => []) ++
      (match o.minParams with
        | some k => if k != 0 && n < k then [({ kind := .paramsLack } : Err)] else []
        | none => []) := by
  unfold countReports
  simp only [if_true, trace, countStep, Bool.false_eq_true, if_false]
  cases o.maxParams with
  | none =>
    cases o.minParams with
    | none => rfl
    | some k2 => by_cases h2 : (k2 != 0 && decide (n < k2)) = true <;> simp [h2]
  | some k1 =>
    by_cases h1 : (k1 != 0 && decide (n > k1)) = true
    · cases o.minParams with
      | none => simp [h1]
      | some k2 => by_cases h2 : (k2 != 0 && decide (n < k2)) = true <;> simp [h1, h2]
    · cases o.minParams with
      | none => simp [h1]
      | some k2 => by_cases h2 : (k2 != 0 && decide (n < k2)) = true <;> simp [h1, h2]

theorem mem_shuffle_df {α : Type} (A B D L1 L2 : List α) (e : α) :
    e ∈ (A ++ B) ++ (L1 ++ (L2 ++ D)) ↔ e ∈ (A ++ B) ++ D ∨ e ∈ L1 ++ L2 := by
  simp only [List.mem_append]
  grind

theorem mem_shuffle_ff {α : Type} (A B D L1 L2 : List α) (e : α) :
    e ∈ (A ++ B) ++ (L1 ++ (D ++ L2)) ↔ e ∈ (A ++ B) ++ D ∨ e ∈ L1 ++ L2 := by
  simp only [List.mem_append]
  grind

/-- with the checks of the whole mapping on, a parse reports the item-level errors plus `globalReports` -/
theorem mem_reportsX_true (rec : P) (m : Mode) (o : Opts) (decl : List FieldDecl) (ex : List String) (data : Data)
    (e : Err) :
    e ∈ reportsX rec m o decl ex true data ↔
      e ∈ globalReports rec m o decl ex data ∨ e ∈ reportsX rec m o decl ex false data := by
  unfold reportsX globalReports
  rw [countReports_true, countReports_false]
  by_cases hd : o.dfs = true
  · simp only [hd, if_true, reportsDF, depsReports_true, depsReports_false, List.append_nil, List.nil_append]
    exact mem_shuffle_df _ _ _ _ _ e
  · simp only [hd, Bool.false_eq_true, if_false, reportsFF, depsReports_true, depsReports_false, List.nil_append]
    exact mem_shuffle_ff _ _ _ _ _ e

theorem globalReports_item (rec : P) (m : Mode) (o : Opts) (decl : List FieldDecl) (ex : List String) (data : Data)
    (e : Err) (he : e ∈ globalReports rec m o decl ex data) : e.item = none := by
  unfold globalReports at he
  simp only [List.mem_append] at he
  rcases he with (he | he) | he
  · cases hm : o.maxParams with
    | none => rw [hm] at he; simp at he
    | some k =>
      rw [hm] at he
      simp only at he
      split at he
      · simp only [List.mem_singleton] at he; rw [he]
      · simp at he
  · cases hm : o.minParams with
    | none => rw [hm] at he; simp at he
    | some k =>
      rw [hm] at he
      simp only at he
      split at he
      · simp only [List.mem_singleton] at he; rw [he]
      · simp at he
  · split at he
    · simp at he
    · simp only [List.mem_singleton] at he; rw [he]

end Utv.C10
