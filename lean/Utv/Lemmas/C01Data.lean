import Utv.Lemmas.C01Loops
/-! C01 — the field loop of a data class / function: what is stored under a declared field's name came out of that
field's conversion (or is its declared default); a required field is never missing. -/
namespace Utv.C01
open Utv.Conv

theorem lookupKey_some_mem {name : String} : ∀ {l : List (V × V)} {x : V}, lookupKey name l = some x →
    ∃ c, (V.str c name, x) ∈ l := by
  intro l
  induction l with
  | nil => intro x h; simp [lookupKey] at h
  | cons e rest ih =>
    intro x h
    obtain ⟨k, y⟩ := e
    cases k <;> simp only [lookupKey] at h
    case str c s =>
      split at h
      · rename_i hs
        simp at h hs; subst h; subst hs
        exact ⟨c, by simp⟩
      · obtain ⟨c', hc'⟩ := ih h; exact ⟨c', by simp [hc']⟩
    all_goals (obtain ⟨c', hc'⟩ := ih h; exact ⟨c', by simp [hc']⟩)

theorem lookupKey_append (name : String) : ∀ (a b : List (V × V)),
    lookupKey name (a ++ b) = (match lookupKey name a with | some x => some x | none => lookupKey name b) := by
  intro a
  induction a with
  | nil => intro b; simp [lookupKey]
  | cons e rest ih =>
    intro b
    obtain ⟨k, y⟩ := e
    cases k <;> simp only [List.cons_append, lookupKey, ih]
    case str c s => split <;> simp

/-- one field under a non-'preserve' policy -/
theorem fieldStep_conf (p : Ty → V → Outcome V) (co : Opts) (f : FieldDecl) (kvs : List (V × V)) (s : Option V)
    (hpol : f.onError.getD co.invalidValues ≠ .preserve) (Q : V → Prop) (hp : ∀ x y, p f.ty x = .ok y → Q y)
    (h : fieldStep p co f kvs = .ok s) :
    (∀ y, s = some y → Q y ∨ f.default = some y) ∧ (s = none → f.required = false) := by
  suffices hm : (match s with
      | some y => Q y ∨ f.default = some y
      | none => f.required = false) by
    cases s with
    | none => exact ⟨by simp, fun _ => hm⟩
    | some y => exact ⟨fun y' hy' => by cases hy'; exact hm, by simp⟩
  unfold fieldStep at h
  split at h
  · rename_i x hx
    split at h
    · rename_i y hy
      simp at h; subst h
      exact Or.inl (hp x y hy)
    · simp at h
    · simp at h
    · split at h
      · split at h
        · simp at h
        · rename_i hreq
          simp at h
          cases s with
          | none => simpa using hreq
          | some y => exact Or.inr h
      · rename_i hpres; exact absurd hpres hpol
      · simp at h
  · split at h
    · simp at h
    · rename_i hreq
      simp at h
      cases s with
      | none => simpa using hreq
      | some y => exact Or.inr h

/-- every key of the field loop's result is a declared field's name -/
theorem fieldsLoop_keys (p : Ty → V → Outcome V) (co : Opts) (kvs : List (V × V)) :
    ∀ fs out, fieldsLoop p co kvs fs = .ok out → ∀ name x, lookupKey name out = some x → ∃ f ∈ fs, f.name = name := by
  intro fs
  induction fs with
  | nil => intro out h name x hx; simp [fieldsLoop] at h; subst h; simp [lookupKey] at hx
  | cons g gs ih =>
    intro out h name x hx
    simp only [fieldsLoop] at h
    obtain ⟨s, hs, h⟩ := Outcome.bind_eq_ok.mp h
    obtain ⟨rest, hrest, h⟩ := Outcome.bind_eq_ok.mp h
    simp only [Outcome.pure_eq, Outcome.ok.injEq] at h
    subst h
    cases s with
    | none =>
      obtain ⟨f, hf, hn⟩ := ih rest hrest name x hx
      exact ⟨f, by simp [hf], hn⟩
    | some y =>
      simp only [lookupKey] at hx
      split at hx
      · rename_i hn; simp at hn; exact ⟨g, by simp, hn⟩
      · obtain ⟨f, hf, hn⟩ := ih rest hrest name x hx
        exact ⟨f, by simp [hf], hn⟩

/-- with distinct field names, what is stored under a field's name is exactly what that field's step produced -/
theorem fieldsLoop_lookup (p : Ty → V → Outcome V) (co : Opts) (kvs : List (V × V)) :
    ∀ fs out, (fs.map (·.name)).Nodup → fieldsLoop p co kvs fs = .ok out →
      ∀ f ∈ fs, fieldStep p co f kvs = .ok (lookupKey f.name out) := by
  intro fs
  induction fs with
  | nil => intro out _ _ f hf; simp at hf
  | cons g gs ih =>
    intro out hnd h f hf
    simp only [List.map_cons, List.nodup_cons, List.mem_map, not_exists, not_and] at hnd
    obtain ⟨hg, hnd'⟩ := hnd
    simp only [fieldsLoop] at h
    obtain ⟨s, hs, h⟩ := Outcome.bind_eq_ok.mp h
    obtain ⟨rest, hrest, h⟩ := Outcome.bind_eq_ok.mp h
    simp only [Outcome.pure_eq, Outcome.ok.injEq] at h
    subst h
    simp only [List.mem_cons] at hf
    rcases hf with rfl | hf
    · cases s with
      | some y => simpa [lookupKey] using hs
      | none =>
        simp only
        cases hl : lookupKey f.name rest with
        | none => exact hs
        | some x =>
          obtain ⟨f', hf', hn⟩ := fieldsLoop_keys p co kvs gs rest hrest f.name x hl
          exact absurd hn (hg f' hf')
    · have hne : g.name ≠ f.name := fun e => hg f hf e.symm
      have := ih rest hnd' hrest f hf
      cases s with
      | none => exact this
      | some y =>
        simp only [lookupKey]
        rw [if_neg (by simpa using hne)]
        exact this

/-- keys that no field takes never carry a field's name -/
theorem additions_no_field (co : Opts) (fields : List FieldDecl) (kvs ex : List (V × V))
    (h : additions co fields kvs = .ok ex) : ∀ f ∈ fields, lookupKey f.name ex = none := by
  intro f hf
  cases hl : lookupKey f.name ex with
  | none => rfl
  | some x =>
    exfalso
    obtain ⟨c, hmem⟩ := lookupKey_some_mem hl
    unfold additions at h
    simp only at h
    split at h
    · simp at h; subst h; simp at hmem
    · split at h
      · simp at h
      · simp at h; subst h; simp at hmem
      · simp only [Outcome.ok.injEq] at h
        subst h
        simp only [List.mem_filter] at hmem
        have := hmem.2
        simp only [Bool.not_eq_true', List.any_eq_false, beq_iff_eq] at this
        exact this f hf rfl

theorem initFields_conf (p : Ty → V → Outcome V) (co : Opts) (fields : List FieldDecl) (kvs out : List (V × V))
    (hnd : (fields.map (·.name)).Nodup)
    (hpol : ∀ f ∈ fields, f.onError.getD co.invalidValues ≠ .preserve)
    (Q : Ty → V → Prop) (hp : ∀ f ∈ fields, ∀ x y, p f.ty x = .ok y → Q f.ty y)
    (h : initFields p co fields kvs = .ok out) :
    ∀ f ∈ fields, match lookupKey f.name out with
      | some y => Q f.ty y ∨ f.default = some y
      | none => f.required = false := by
  unfold initFields at h
  split at h
  · simp at h
  · obtain ⟨fs, hfs, h⟩ := Outcome.bind_eq_ok.mp h
    obtain ⟨ex, hex, h⟩ := Outcome.bind_eq_ok.mp h
    simp only [Outcome.pure_eq, Outcome.ok.injEq] at h
    subst h
    intro f hf
    have hstep := fieldsLoop_lookup p co kvs fields fs hnd hfs f hf
    have hex' := additions_no_field co fields kvs ex hex f hf
    rw [lookupKey_append]
    obtain ⟨h1, h2⟩ := fieldStep_conf p co f kvs _ (hpol f hf) (Q f.ty) (hp f hf) hstep
    cases hl : lookupKey f.name fs with
    | some y => simpa using h1 y hl
    | none => simpa [hex'] using h2 hl

end Utv.C01
