"""C15 — seeded generators: JSON Schemas over the supported fragment and instances for them.

Everything here is data (JSON); nothing from utype is imported.  The fragment (DESIGN.md §6 C15, design.d/C15.md):
type (one name or a list), format, multipleOf / maximum / minimum / exclusive*, maxLength / minLength / pattern,
enum / const, items / prefixItems, maxItems / minItems / uniqueItems, properties / required / additionalProperties /
dependentRequired, maxProperties / minProperties, anyOf / oneOf / allOf — nested, with and without `type`.
"""
from __future__ import annotations

import random

PRIMS = ["string", "integer", "number", "boolean", "null"]
NAMES = ["a", "b", "c", "items", "keys", "copy", "get", "class", "def", "a-b", "a_b", "a b", "a.b", "1x", "-",
         "_a", "__init__", "__options__", "self", "é", "name", "type", "values", "update", "pop", "a_b_1",
         "A", "data", "None", "field_", "x-y"]
STRS = ["", "a", "ab", "abc", "abcd", "ba", "1", "2020-01-01", "x y", "é", "éé", "P1D", "10:00:00",
        "2020-01-01T10:00:00", "a0eebc99-9c0b-4ef8-bb6d-6bb9bd380a11", "1.2.3.4", "true", "3"]
PATTERNS = ["^a", "a", "b$", "^[a-z]+$", "^[0-9]+$", "^.{2}$", "a|b", "^$", "^2020", "[0-9]"]
FORMATS = ["date", "date-time", "time", "duration", "uuid", "binary", "ipv4", "ipv6", "email", "int32", "float",
           "decimal", "integer", "int", "bigint", "string", "number", "boolean", "bool", "null", "object", "array", "uri"]
FORMAT_SAMPLES = {"date": "2020-01-01", "date-time": "2020-01-01T10:00:00", "time": "10:00:00", "duration": "P1D",
                  "uuid": "a0eebc99-9c0b-4ef8-bb6d-6bb9bd380a11", "ipv4": "1.2.3.4", "binary": "ab"}
INTS = [-2, -1, 0, 1, 2, 3, 4, 5, 6, 10]
FLOATS = [-1.5, -0.5, 0.5, 1.5, 2.5, 2.25, 3.0, 0.25, 4.0, 1.0, 0.0]
MULTS = [1, 2, 3, 0.5, 0.25, 1.5, 5]


def num(rng, floats=0.3):
    return rng.choice(FLOATS) if rng.random() < floats else rng.choice(INTS)


def scalar(rng):
    k = rng.random()
    if k < 0.3:
        return rng.choice(INTS)
    if k < 0.45:
        return rng.choice(FLOATS)
    if k < 0.75:
        return rng.choice(STRS)
    if k < 0.9:
        return rng.random() < 0.5
    return None


def any_value(rng, depth=2):
    k = rng.random()
    if depth <= 0 or k < 0.6:
        return scalar(rng)
    if k < 0.8:
        return [any_value(rng, depth - 1) for _ in range(rng.randint(0, 3))]
    return {rng.choice(NAMES): any_value(rng, depth - 1) for _ in range(rng.randint(0, 3))}


# ---- keyword groups ----------------------------------------------------------------------------

def kw_number(rng, s, integer=False):
    if rng.random() < 0.5:
        s["minimum" if rng.random() < 0.7 else "exclusiveMinimum"] = num(rng, 0.0 if integer and rng.random() < 0.8 else 0.3)
    if rng.random() < 0.5:
        s["maximum" if rng.random() < 0.7 else "exclusiveMaximum"] = num(rng, 0.0 if integer and rng.random() < 0.8 else 0.3)
    if rng.random() < 0.08:
        s["minimum"] = num(rng)          # may sit next to exclusiveMinimum (degenerate for utype)
    if rng.random() < 0.3:
        s["multipleOf"] = rng.choice(MULTS[:3] if integer and rng.random() < 0.7 else MULTS)


def kw_string(rng, s):
    if rng.random() < 0.45:
        s["minLength"] = rng.choice([0, 1, 1, 2, 3])
    if rng.random() < 0.45:
        s["maxLength"] = rng.choice([0, 1, 2, 3, 3, 4])
    if rng.random() < 0.35:
        s["pattern"] = rng.choice(PATTERNS)


def kw_array(rng, s, depth):
    k = rng.random()
    if k < 0.55:
        s["items"] = gen_schema(rng, depth - 1)
    elif k < 0.85:
        s["prefixItems"] = [gen_schema(rng, depth - 1) for _ in range(rng.randint(1, 3))]
        j = rng.random()
        if j < 0.3:
            s["items"] = False
        elif j < 0.55:
            s["items"] = gen_schema(rng, depth - 1)
    if rng.random() < 0.35:
        s["minItems"] = rng.choice([0, 1, 1, 2, 3])
    if rng.random() < 0.35:
        s["maxItems"] = rng.choice([0, 1, 2, 2, 3, 4])
    if rng.random() < 0.25:
        s["uniqueItems"] = rng.random() < 0.85


def kw_object(rng, s, depth):
    names = []
    if rng.random() < 0.8:
        names = rng.sample(NAMES, rng.randint(1, 4)) if rng.random() < 0.5 else rng.sample(NAMES[:3] + ["d"], rng.randint(1, 3))
        s["properties"] = {n: gen_schema(rng, depth - 1) for n in names}
    pool = names + ([rng.choice(NAMES)] if rng.random() < 0.25 else [])
    if pool and rng.random() < 0.55:
        s["required"] = rng.sample(pool, rng.randint(1, min(len(pool), 2)))
    k = rng.random()
    if k < 0.2:
        s["additionalProperties"] = False
    elif k < 0.3:
        s["additionalProperties"] = True
    elif k < 0.5:
        s["additionalProperties"] = gen_schema(rng, depth - 1)
    if pool and rng.random() < 0.25:
        deps = {}
        for n in rng.sample(pool, rng.randint(1, min(len(pool), 2))):
            others = [m for m in pool + (["z"] if rng.random() < 0.2 else []) if m != n]
            if others:
                deps[n] = rng.sample(others, rng.randint(1, min(len(others), 2)))
        if deps:
            s["dependentRequired"] = deps
    if rng.random() < 0.25:
        s["minProperties"] = rng.choice([0, 1, 1, 2, 3])
    if rng.random() < 0.25:
        s["maxProperties"] = rng.choice([0, 1, 2, 2, 3, 4])


def kw_for(rng, s, t, depth):
    if t == "integer":
        kw_number(rng, s, True)
    elif t == "number":
        kw_number(rng, s)
    elif t == "string":
        kw_string(rng, s)
    elif t == "array":
        kw_array(rng, s, depth)
    elif t == "object":
        kw_object(rng, s, depth)


def enum_for(rng, s, t, depth):
    """add enum / const with values that (mostly) fit the schema so far"""
    vals = []
    for _ in range(rng.randint(1, 4)):
        if rng.random() < 0.8:
            vals.append(gen_instance(rng, s, depth))
        else:
            vals.append(scalar(rng))
    uniq = []
    for v in vals:
        if not any(type(u) == type(v) and u == v for u in uniq) and not any(
                isinstance(u, (int, float)) and isinstance(v, (int, float)) and not isinstance(u, bool) and not isinstance(v, bool) and u == v for u in uniq):
            uniq.append(v)
    if rng.random() < 0.7:
        s["enum"] = uniq
    else:
        s["const"] = uniq[0]
    if rng.random() < 0.05 and "enum" in s:
        s["const"] = rng.choice(uniq)


def gen_schema(rng: random.Random, depth: int = 3) -> dict:
    s: dict = {}
    k = rng.random()
    structural = depth > 0
    if k < 0.08:
        return s                                         # {}
    if k < 0.55:                                         # one explicit type
        t = rng.choice(PRIMS + (["array", "object"] * 2 if structural else []))
        s["type"] = t
        kw_for(rng, s, t, depth)
        if rng.random() < 0.12:                          # keywords of another type next to it (annotations there)
            kw_for(rng, s, rng.choice(["integer", "string", "array", "object"]) if structural else rng.choice(["integer", "string"]), 1 if structural else 0)
        if t in ("string", "number", "integer") and rng.random() < 0.25:
            s["format"] = rng.choice(FORMATS)
        elif rng.random() < 0.03:
            s["format"] = rng.choice(FORMATS)
    elif k < 0.63:                                       # a list of types
        ts = rng.sample(PRIMS + (["array", "object"] if structural else []), rng.randint(1, 3))
        s["type"] = ts
        for t in ts:
            if rng.random() < 0.7:
                kw_for(rng, s, t, depth)
    elif k < 0.75:                                       # no type, keywords only
        for t in rng.sample(["integer", "string"] + (["array", "object"] if structural else []), rng.randint(1, 2)):
            kw_for(rng, s, t, depth)
    elif k < 0.80:                                       # no type, enum/const only (added below)
        pass
    elif structural:                                     # combinators, alone or next to a type / keywords
        if rng.random() < 0.35:
            t = rng.choice(PRIMS + ["array", "object"])
            s["type"] = t
            if rng.random() < 0.5:
                kw_for(rng, s, t, depth - 1)
        for _ in range(1 if rng.random() < 0.8 else 2):
            op = rng.choice(["anyOf", "oneOf", "allOf"])
            n = rng.randint(1, 3)
            if "type" in s and rng.random() < 0.7:
                # conditions about the same type
                subs = []
                for _ in range(n):
                    sub = {}
                    if rng.random() < 0.3:
                        sub["type"] = s["type"]
                    kw_for(rng, sub, s["type"], depth - 1)
                    subs.append(sub)
                s[op] = subs
            else:
                s[op] = [gen_schema(rng, depth - 1) for _ in range(n)]
    else:
        t = rng.choice(PRIMS)
        s["type"] = t
        kw_for(rng, s, t, depth)
    if (k >= 0.75 and k < 0.80) or rng.random() < 0.12:
        enum_for(rng, s, s.get("type"), depth)
    return s


# ---- instances ---------------------------------------------------------------------------------

def _pick_type(rng, s):
    t = s.get("type")
    if isinstance(t, list):
        return rng.choice(t) if t else None
    if t:
        return t
    for kws, name in ((("minimum", "maximum", "exclusiveMinimum", "exclusiveMaximum", "multipleOf"), "number"),
                      (("items", "prefixItems", "minItems", "maxItems", "uniqueItems"), "array"),
                      (("properties", "required", "additionalProperties", "dependentRequired", "minProperties", "maxProperties"), "object"),
                      (("minLength", "maxLength", "pattern"), "string")):
        if any(k in s for k in kws):
            return name
    return None


def _num_for(rng, s, integer):
    lo = s.get("minimum", s.get("exclusiveMinimum"))
    hi = s.get("maximum", s.get("exclusiveMaximum"))
    m = s.get("multipleOf")
    cands = []
    for b in (lo, hi):
        if b is not None:
            cands += [b, b + 1, b - 1, b + 0.5, b - 0.5]
    if m:
        cands += [m, 2 * m, 3 * m, -m, 0]
        if lo is not None:
            cands += [((lo // m) + 1) * m, (lo // m) * m]
    cands += [rng.choice(INTS), rng.choice(FLOATS)]
    if integer:
        ints = [int(c) for c in cands if float(c).is_integer()]
        cands = ints or [rng.choice(INTS)]
        if rng.random() < 0.15:
            return float(rng.choice(cands))     # 3.0 is an integer in JSON Schema
    v = rng.choice(cands)
    return v


def _str_for(rng, s):
    lo, hi = s.get("minLength", 0), s.get("maxLength", 6)
    fmt = s.get("format")
    if fmt in FORMAT_SAMPLES and rng.random() < 0.8:
        return FORMAT_SAMPLES[fmt]
    pool = [x for x in STRS if lo <= len(x) <= hi] or STRS
    p = s.get("pattern")
    if p and rng.random() < 0.8:
        import re
        ok = [x for x in pool if re.search(p, x)]
        if ok:
            return rng.choice(ok)
    return rng.choice(pool)


def gen_instance(rng: random.Random, s, depth: int = 3):
    """an instance aimed at satisfying `s` (best effort; the validator decides)"""
    if not isinstance(s, dict):
        return any_value(rng, 1)
    if "const" in s and rng.random() < 0.9:
        return s["const"]
    if s.get("enum") and rng.random() < 0.9:
        return rng.choice(s["enum"])
    for op in ("allOf", "anyOf", "oneOf"):
        if s.get(op) and rng.random() < 0.5:
            subs = s[op]
            base = {k: v for k, v in s.items() if k not in ("allOf", "anyOf", "oneOf")}
            merged = dict(base)
            for sub in (subs if op == "allOf" else [rng.choice(subs)]):
                if isinstance(sub, dict):
                    for k, v in sub.items():
                        if k == "properties" and isinstance(merged.get(k), dict):
                            merged[k] = {**merged[k], **v}
                        elif k == "required" and isinstance(merged.get(k), list):
                            merged[k] = merged[k] + [x for x in v if x not in merged[k]]
                        else:
                            merged.setdefault(k, v) if k == "type" else merged.__setitem__(k, v)
            return gen_instance(rng, merged, depth - 1) if depth > 0 else any_value(rng, 1)
    t = _pick_type(rng, s)
    if t is None:
        return any_value(rng, 1)
    if t == "null":
        return None
    if t == "boolean":
        return rng.random() < 0.5
    if t == "integer":
        return _num_for(rng, s, True)
    if t == "number":
        return _num_for(rng, s, False)
    if t == "string":
        return _str_for(rng, s)
    if t == "array":
        pre = s.get("prefixItems") or []
        items = s.get("items")
        lo, hi = s.get("minItems", 0), s.get("maxItems", 4)
        out = [gen_instance(rng, p, depth - 1) for p in pre]
        n_extra = 0
        if items is not False:
            want = rng.randint(min(lo, 5), max(min(hi, 4), min(lo, 5)))
            n_extra = max(0, want - len(out))
        for _ in range(n_extra):
            out.append(gen_instance(rng, items, depth - 1) if isinstance(items, dict) else any_value(rng, 1))
        if pre and rng.random() < 0.1:
            out = out[:rng.randint(0, len(pre))]
        return out
    if t == "object":
        props = s.get("properties") or {}
        req = list(s.get("required") or [])
        ap = s.get("additionalProperties", True)
        out = {}
        for n, ps in props.items():
            if n in req or rng.random() < 0.7:
                out[n] = gen_instance(rng, ps, depth - 1)
        for n in req:
            if n not in out:
                out[n] = gen_instance(rng, ap, depth - 1) if isinstance(ap, dict) else any_value(rng, 1)
        for n, ds in (s.get("dependentRequired") or {}).items():
            if n in out:
                for d in ds:
                    if d not in out:
                        out[d] = gen_instance(rng, props.get(d, ap if isinstance(ap, dict) else {}), depth - 1)
        lo = s.get("minProperties", 0)
        tries = 0
        while (ap is not False) and (len(out) < lo or rng.random() < 0.25) and tries < 6:
            tries += 1
            n = rng.choice(NAMES + ["z", "y", "x"])
            if n not in out and n not in props:
                out[n] = gen_instance(rng, ap, depth - 1) if isinstance(ap, dict) else any_value(rng, 1)
        return out
    return any_value(rng, 1)


def mutate(rng: random.Random, v, depth=2):
    """a neighbour of an instance: the kind of value that sits just outside a schema"""
    k = rng.random()
    if isinstance(v, bool):
        return rng.choice([int(v), not v, str(v).lower(), None])
    if isinstance(v, (int, float)):
        return rng.choice([v + 1, v - 1, v + 0.5, -v, float(v), str(v), v * 2, bool(v) if v in (0, 1) else v + 2, None, [v]])
    if isinstance(v, str):
        return rng.choice([v + "a", v[:-1], "", v + v, v.upper(), 0, None, [v], rng.choice(STRS)])
    if v is None:
        return rng.choice([0, "", False, [], {}])
    if isinstance(v, list):
        if k < 0.25 and v:
            i = rng.randrange(len(v))
            return v[:i] + v[i + 1:]
        if k < 0.5:
            return v + [v[0] if v and rng.random() < 0.5 else scalar(rng)]
        if k < 0.8 and v and depth > 0:
            i = rng.randrange(len(v))
            return v[:i] + [mutate(rng, v[i], depth - 1)] + v[i + 1:]
        return rng.choice([{}, None, "x", list(reversed(v))])
    if isinstance(v, dict):
        ks = list(v)
        if k < 0.25 and ks:
            d = dict(v)
            d.pop(rng.choice(ks))
            return d
        if k < 0.5:
            d = dict(v)
            d[rng.choice(NAMES + ["z"])] = scalar(rng)
            return d
        if k < 0.8 and ks and depth > 0:
            d = dict(v)
            n = rng.choice(ks)
            d[n] = mutate(rng, v[n], depth - 1)
            return d
        return rng.choice([[], None, "x", 0])
    return v


def gen_case(rng: random.Random, depth: int = 3, n_inputs: int = 6) -> dict:
    s = gen_schema(rng, depth)
    inputs = []
    for _ in range(n_inputs):
        v = gen_instance(rng, s, depth)
        if rng.random() < 0.35:
            v = mutate(rng, v)
        inputs.append(v)
    inputs.append(any_value(rng, 2))
    return {"schema": s, "inputs": inputs}
