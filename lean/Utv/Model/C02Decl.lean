import Utv.Model.Rule
/-!
C02 — how a constrained type is *declared* and what its parse then checks, beyond the validator loop:

* `Rule.__init_subclass__` (rule.py:1207-1322) compiles `__validators__` from the constraint attributes that are
  **visible on the class**, i.e. found by `getattr` through the MRO (`Constraints.generate_validators`,
  rule.py:840-873) — own body, every base, every level, `Rule.annotate(...)` (which is `LogicalType(name, (cls,),
  attrs)`, rule.py:1427-1440) and `Field(...)` constraints (which reach `Rule.annotate(constraints=…)` through
  `parse_annotation`, rule.py:1520-1544).
* `Rule._parse_contains` (rule.py:1826-1867): `contains` / `min_contains` / `max_contains` are enforced *outside*
  `__validators__`.
* `Rule.parse` (rule.py:1689-1760) on a value that already has the origin type: args parser, validator loop,
  contains, `post_validate` hook.

Everything the property does not speak about is a parameter: the element acceptor of `contains`, the args parser and
the hook are arbitrary functions, so the theorems hold for all of them.
-/
namespace Utv.C02D
open Utv.Py Utv.Gen Utv.Rule

/-- what a class body binds a constraint name to -/
inductive Attr where
  | val (v : PyVal) (lax : Bool)     -- `key = v` / `key = Lax(v)`
  | cancel                           -- `key = unprovided` (rule.py:846-849: a subclass cancels an inherited constraint)
  deriving Repr

/-- the constraint-relevant part of one class body -/
abbrev Body := List (String × Attr)

/-- `getattr(cls, key)`: the first class in MRO order whose body binds `key` -/
def lookup : List Body → String → Option Attr
  | [], _ => none
  | b :: rest, key =>
    match b.lookup key with
    | some a => some a
    | none => lookup rest key

/-- validator name of a constraint in a mode (rule.py:861-865) -/
def vname (key : String) (lax : Bool) : String := if lax then "lax_" ++ key else key

/-- rule.py:843-853: walk `__constraints__` in table order, take what `getattr` finds, skip cancelled ones -/
def collect (mro : List Body) : List (String × PyVal) :=
  Tables.constraintOrder.filterMap fun key =>
    match lookup mro key with
    | some (.val v lax) => some (vname key lax, v)
    | _ => none

/-- `cls.__validators__` as (validator name, bound), rule.py:1321 + 840-873 -/
def compile (mro : List Body) : List (String × PyVal) := normalise (collect mro)

/-! ### contains / min_contains / max_contains -/

structure ContainsCfg where
  declared : Bool          -- `cls.contains` is truthy (a type)
  minC : Option Int        -- `cls.min_contains` (None = not declared)
  maxC : Option Int        -- `cls.max_contains`
  deriving Repr

/-- the counting loop rule.py:1820-1828: `contains += 1` for every item the `contains` type converts -/
def countLoop (acc : PyVal → Bool) : List PyVal → Nat → Nat
  | [], n => n
  | x :: xs, n => countLoop acc xs (if acc x then n + 1 else n)

/-- rule.py:1826-1867 (fail-fast context; the three ConstraintErrors are one error class here) -/
def parseContains (acc : PyVal → Bool) (c : ContainsCfg) (v : PyVal) : M PyVal :=
  if !c.declared then pure v
  else do
    let xs ← Py.iter v
    let n := countLoop acc xs 0
    if n == 0 then throw .valueError
    else if (match c.minC with | some m => decide ((n : Int) < m) | none => false) then throw .valueError
    else if (match c.maxC with | some m => decide ((n : Int) > m) | none => false) then throw .valueError
    else pure v

/-- `cls.contains`, `cls.min_contains`, `cls.max_contains` read through the MRO (the class `Rule` itself binds all
three to `None`, rule.py:1178-1180) -/
def containsCfg (mro : List Body) : ContainsCfg :=
  { declared := match lookup mro "contains" with
      | some (.val v _) => Py.truthy v
      | _ => false
    minC := match lookup mro "min_contains" with
      | some (.val b _) => asInt? b          -- ints and bools (True is 1); other bound types are outside the model
      | _ => none
    maxC := match lookup mro "max_contains" with
      | some (.val b _) => asInt? b
      | _ => none }

/-! ### the parse of a value that already has the origin type -/

structure Decl where
  validators : List (String × PyVal)
  args : Option (PyVal → M PyVal)      -- `cls.__args_parser__` (None when the class has no `__args__`)
  cont : ContainsCfg
  acc : PyVal → Bool                   -- does the `contains` type convert this item?
  post : PyVal → M PyVal               -- `cls.post_validate`
  pack : PyVal → M PyVal := pure       -- `cls.__origin__(value)`: the converted items packed into the origin container
                                       -- (a set de-duplicates); only reached through the args parser (rule.py:1733-1743,
                                       -- guarded by `not __abstract__ and type(value) != __origin__`: the guard is part of `pack`)
  pre : PyVal → M PyVal := pure        -- `cls.pre_validate` (rule.py:1706), runs before everything else
  applied : Bool := false              -- `cls.__applied__` (set by `@utype.apply`, decorator.py:193): a value that is an
                                       -- instance of the origin type is taken as it is (rule.py:1710-1715)

/-- rule.py:1733-1743: the args parser converts the items, the result is packed into the origin container — **before**
any constraint runs, so that every constraint looks at the value that is going to be returned -/
def applyArgs (d : Decl) (v : PyVal) : M PyVal :=
  match d.args with
  | some f => do
    let items ← f v
    d.pack items
  | none => pure v

/-- rule.py:1699-1770 for `isinstance(value, origin)`, default options (fail-fast) -/
def parseCore (P : Prims) (d : Decl) (v : PyVal) : M PyVal := do
  let v1 ← applyArgs d v
  let v2 ← validate P d.validators v1
  let v3 ← parseContains d.acc d.cont v2
  d.post v3

/-- `Rule.parse` on a value of the origin type: `pre_validate` first; for a hidden (`@utype.apply`) type an instance of the
origin is final — args, validators and contains are all skipped (by design of `apply`); otherwise the core above -/
def parseTyped (P : Prims) (d : Decl) (v : PyVal) : M PyVal := do
  let v ← d.pre v
  if d.applied then d.post v else parseCore P d v

/-- the declaration as the class statement produces it -/
def declOf (mro : List Body) (args : Option (PyVal → M PyVal)) (acc : PyVal → Bool) (post : PyVal → M PyVal)
    (pack : PyVal → M PyVal := pure) : Decl :=
  { validators := compile mro, args := args, cont := containsCfg mro, acc := acc, post := post, pack := pack }

/-! ### `Sub[item]` — parametrising a (sub)class (`Rule.__class_getitem__`, rule.py:1194-1205, and the re-binding of the
helper for every subclass in `__init_subclass__`, rule.py:1309-1319): `cls.annotate(cls.__origin__, *args)` is
`LogicalType(name, (cls,), {__args__: args})`, i.e. one more class body — binding `__args__` only — in front of the MRO of
**the class that was subscripted** (not of the base the helper was first created for). -/

def argsBody (args : PyVal) (ellipsis : Bool) : Body :=
  [("__args__", .val args false)] ++ (if ellipsis then [("__ellipsis_args__", .val (.bool true) false)] else [])

def getitemMro (mro : List Body) (args : PyVal) (ellipsis : Bool) : List Body := argsBody args ellipsis :: mro

/-! ### a declared type as a member of a union (`T | None`, `Optional[T]`, `Union[T, U]`; `logical_parse`, rule.py:382-424)
on a value of T's origin type.  Stage 1 is `type(value) == con` with `con` the member *itself*: a member that is a Rule
class is never the class of a plain value, whatever its origin is; only a plain class member can short-cut.  Then up to
three passes (strict, no-loss, lenient) call the members' parsers in order; the first success wins. -/

inductive Member where
  | rule (parse : Nat → PyVal → M PyVal)          -- a constrained type: its parse at stage i
  | plain (c : Cls) (conv : Nat → PyVal → M PyVal) -- a plain class: its converter at stage i

def Member.exact : Member → PyVal → Bool
  | .rule _, _ => false
  | .plain c _, v => typeOf v == c

def Member.run : Member → Nat → PyVal → M PyVal
  | .rule p, i, v => p i v
  | .plain _ conv, i, v => conv i v

/-- one pass: the first member whose parser accepts -/
def tryMembers (i : Nat) (v : PyVal) : List Member → Option PyVal
  | [] => none
  | m :: ms => match m.run i v with
    | .ok r => some r
    | .error _ => tryMembers i v ms

def tryStages (v : PyVal) (ms : List Member) : List Nat → M PyVal
  | [] => throw .valueError
  | i :: is => match tryMembers i v ms with
    | some r => pure r
    | none => tryStages v ms is

def unionParse (ms : List Member) (stages : List Nat) (v : PyVal) : M PyVal :=
  if ms.any (fun m => m.exact v) then pure v else tryStages v ms stages

/-! ### two more places where a declared type is reached (round 4)

* the Send slot of a `@utype.parse` generator (`func.py:782-793, 873-884`): `sent = yield item`; a sent value other than `None`
  is parsed with the declared Send type — whatever its truth value.
* a field whose whole annotation is a forward reference (`qty: "Quantity" = Field(le=100)`): the `Field(...)` constraints are stored
  with the pending reference (`register_forward_ref`) and applied when the name resolves (`base.py:_resolve_forward_refs` →
  `Rule.parse_annotation(annotation=value, constraints=constraints)` = `annotate`): one more class body in front of the target's MRO. -/

def sendSlot (parse : PyVal → M PyVal) (sent : PyVal) : M PyVal :=
  match sent with
  | .none => pure .none
  | v => parse v

def resolveForwardRef (fieldConstraints : Body) (targetMro : List Body) : List Body := fieldConstraints :: targetMro

end Utv.C02D
