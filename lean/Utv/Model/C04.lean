/-
C04 — the exception-wrapping architecture of utype's public entry points.

What is modelled (hand-written, branch for branch, *after* the `fixes/C04-*.patch` repairs; every
repaired site keeps its pre-fix behaviour behind a `Legacy` flag so that the defect stays provable):

  RuntimeContext.handle_error / raise_error / collect_tmp_error / enter   options.py:329-480
  Rule.parse                                                              rule.py:1681-1749
  Rule._parse_contains / _parse_tuple_args / _parse_seq_args / _parse_map_args
                                                                          rule.py:1803-2034
  LogicalType.logical_parse  (& | ^ ~)                                    rule.py:359-470

(`Model/C04Data.lean`: ParserField.parse_value, parse_data, data-class init, FunctionParser;
 `Model/C04Ts.lean`: the timestamp loops of `to_datetime`.)

What is *not* the property's business is abstract: values are an arbitrary type `V`; every
operation that can raise (converter call, validator call, `origin(value)`, dict insertion, user
hooks, element access, the function body) is a field of `World` returning `ok v | raise e | diverge`
for an arbitrary exception class `e` — ParseError subclass or not.  Theorems (Props/C04.lean)
quantify over every `World`.

Tied to the code by harness/c04.py: scripted components (types registered through
`register_transformer`, values with raising `__len__/__hash__/__ne__`) are driven through the real
public API and through `drivers/C04.lean`; outcome class, ParseError subclass, wrapping site, item and
`origin_exc` class are compared.
-/
namespace Utv.C04

abbrev Ty := Nat

/-! ### Exceptions -/

/-- What the harness can observe of one exception object. -/
structure Info where
  perr   : Bool                 -- isinstance(e, utype.utils.exceptions.ParseError)
  cls    : Nat                  -- class id (table in harness/c04.py)
  site   : Nat := 0             -- 0: raised by a component; otherwise the wrapping site below
  origin : Option Nat := none   -- class id of `origin_exc`
  item   : Option Nat := none   -- `item=` (index / field id) when the site records one
  deriving DecidableEq, Repr, Inhabited

inductive Exc where
  | one (i : Info)
  | collected (es : List Info)  -- CollectedParseError(errors=es)   exceptions.py:286-289
  deriving DecidableEq, Repr

/- class ids of the ParseError family (exceptions.py:41-309) and of the builtins the model raises itself -/
namespace K
def parse : Nat := 1
def constraint : Nat := 2
def absence : Nat := 3
def tupleExceed : Nat := 4
def exceed : Nat := 5
def aliasConflict : Nat := 6
def collected : Nat := 7
def negate : Nat := 8
def oneOf : Nat := 9
def discriminator : Nat := 10
def depsAbsence : Nat := 11
def paramsExceed : Nat := 12
def paramsLack : Nat := 13
def depth : Nat := 14
def typeError : Nat := 100
def valueError : Nat := 101
def indexError : Nat := 103
end K

/- wrapping sites (file:line of the `except` / `raise` that builds the error) -/
namespace Site
def ruleOrigin : Nat := 1      -- rule.py:1704-1708
def ruleRewrap : Nat := 2      -- rule.py:1722 (wrapped by fixes/C04-rewrap-origin)
def validator : Nat := 3       -- rule.py:1731-1741
def contains : Nat := 4        -- rule.py:1819-1842
def seqItem : Nat := 5         -- rule.py:1962-1973
def tupleItem : Nat := 6       -- rule.py:1914-1922
def tupleAddition : Nat := 7   -- rule.py:1933-1941
def mapKey : Nat := 8          -- rule.py:1998-2010
def mapValue : Nat := 9        -- rule.py:2018-2030
def mapInsert : Nat := 10      -- rule.py:2033 (wrapped by fixes/C04-map-key-insert)
def tupleExceed : Nat := 11    -- rule.py:1899
def tupleAbsence : Nat := 12   -- rule.py:1903
def allOf : Nat := 13          -- rule.py:371-373 (wrapped by fixes/C04-allof-raw-reraise)
def oneOf : Nat := 14          -- rule.py:447-451
def negate : Nat := 15         -- rule.py:460
def fieldValue : Nat := 16     -- field.py:1066-1089
def fieldDiscDict : Nat := 17  -- field.py:1030-1040
def discMismatch : Nat := 18   -- field.py:1047
def addition : Nat := 19       -- base.py:410-420
def exceed : Nat := 20         -- base.py:395
def aliasConflict : Nat := 21  -- base.py:458, 554
def absence : Nat := 22        -- base.py:485, 560
def depsAbsence : Nat := 23    -- base.py:501, 600
def paramsExceed : Nat := 24   -- base.py:363
def paramsLack : Nat := 25     -- base.py:370
def initDataclass : Nat := 26  -- cls.py:608-609
def posType : Nat := 27        -- func.py:587-597
def result : Nat := 28         -- func.py:707-711
def posAbsence : Nat := 29     -- func.py:651
def depth : Nat := 30          -- options.py:372-375
def initPositional : Nat := 31 -- cls.py:523-526 (`Cls(<dict>)`, fixes/C04-nonstring-keys)
def readItems : Nat := 32      -- rule.py:1830-1838 `_read_items` (fixes/C04-container-protocol-and-init-names)
end Site

def Exc.isPerr : Exc → Bool
  | .one i => i.perr
  | .collected _ => true

def Exc.info : Exc → Info
  | .one i => i
  | .collected _ => { perr := true, cls := K.collected }

def Exc.cls (e : Exc) : Nat := e.info.cls

/-- a ParseError subclass `k` built at `site` -/
def mk (k site : Nat) (item : Option Nat := none) : Exc :=
  .one { perr := true, cls := k, site := site, item := item }

/-- `exc.ParseError(..., origin_exc=e)` built at `site` -/
def wrap (site : Nat) (e : Exc) (item : Option Nat := none) : Exc :=
  .one { perr := true, cls := K.parse, site := site, origin := some e.cls, item := item }

def builtinExc (cls : Nat) : Exc := .one { perr := false, cls := cls }

/-! ### Outcomes, state, monad -/

inductive Ev where
  | enterBody              -- the body of a decorated function starts
  | attrsSet               -- `set_attributes` ran: the instance carries parsed data
  | postInit               -- `__post_init__` / `__validate__` hook ran
  deriving DecidableEq, Repr

/-- the mutable part of a `RuntimeContext` (options.py:358-359) + an event trace -/
structure St where
  errors : List Info := []
  tmp    : List Info := []
  trace  : List Ev := []
  deriving Repr, DecidableEq

inductive Res (α : Type) where
  | ok (a : α)
  | raise (e : Exc)
  | diverge
  deriving Repr

/-- a computation over one context object; exceptions do not roll the context back -/
def M (α : Type) : Type := St → Res α × St

instance : Monad M where
  pure a := fun s => (.ok a, s)
  bind m f := fun s =>
    match m s with
    | (.ok a, s') => f a s'
    | (.raise e, s') => (.raise e, s')
    | (.diverge, s') => (.diverge, s')

def raise {α : Type} (e : Exc) : M α := fun s => (.raise e, s)
def divergeM {α : Type} : M α := fun s => (.diverge, s)

/-- `try: m  except Exception as e: h e` — every exception class is caught (components raise
subclasses of `Exception`; `KeyboardInterrupt`/`SystemExit` are outside the model) -/
def tryExcept {α : Type} (m : M α) (h : Exc → M α) : M α := fun s =>
  match m s with
  | (.raise e, s') => h e s'
  | r => r

/-- `try: m  except (A, B) as e: h e` — only the classes selected by `p` are caught -/
def tryExceptIf {α : Type} (p : Exc → Bool) (m : M α) (h : Exc → M α) : M α := fun s =>
  match m s with
  | (.raise e, s') => if p e then h e s' else (.raise e, s')
  | r => r

def emit (ev : Ev) : M Unit := fun s => (.ok (), { s with trace := s.trace ++ [ev] })

/-! ### Options that reach the error paths -/

inductive Policy where
  | throw | exclude | preserve
  deriving DecidableEq, Repr

/-- `options.addition`: None / False / True / a type -/
inductive Addition where
  | unset | forbid | allow | typed (t : Ty)
  deriving DecidableEq, Repr

structure Opts where
  collect : Bool := false
  maxErrors : Option Nat := none
  invalidItems : Policy := .throw
  invalidKeys : Policy := .throw
  invalidValues : Policy := .throw
  addition : Addition := .unset
  noDataLoss : Bool := false
  noExplicitCast : Bool := false
  ignoreConstraints : Bool := false
  ignoreAliasConflicts : Bool := false
  ignoreRequired : Bool := false
  dataFirst : Bool := false
  castKeywordStr : Bool := false
  maxParams : Option Nat := none
  minParams : Option Nat := none
  override : Bool := false          -- these options replace those of the classes parsed underneath (options.py:253)
  deriving Repr

/-- the pre-fix behaviour of each repaired site (all `false` = the code with fixes/C04-*.patch) -/
structure Legacy where
  seqIndex : Bool := false        -- handler evaluates `value[i]` on the container (rule.py:1964)
  tupleMissing : Bool := false    -- no `continue` after a collected AbsenceError (rule.py:1902-1916)
  rewrap : Bool := false          -- `cls.__origin__(value)` unprotected (rule.py:1722)
  mapInsert : Bool := false       -- `result[key] = val` unprotected (rule.py:2033)
  containsNarrow : Bool := false  -- `except (TypeError, ValueError)` in _parse_contains (rule.py:1814)
  allOfRaw : Bool := false        -- `&` hands the raw exception to handle_error (rule.py:372)
  aliasCompare : Bool := false    -- `!=` on user values unprotected (base.py:457, 553)
  discLookup : Bool := false      -- `discriminator in map` unprotected (field.py:1043)
  rawIteration : Bool := false    -- the parser loops iterate / index / `.items()` the container itself, outside any try (rule.py:1838, 1935, 1996, 2035)
  initNamedParams : Bool := false -- generated `__init__(_obj_self, _d=None, **kwargs)`: data keys `_obj_self` / `_d` collide (cls.py:499)
  mapKeyStr : Bool := false       -- `f"{_key}<key>"` rendered outside any try (rule.py:2014)
  nonStrKeys : Bool := false      -- init_dataclass hands a mapping with non-str keys to `cls.__init__(inst, **data)` (cls.py:606)
  deriving Repr

def Legacy.none : Legacy := {}

/-! ### RuntimeContext (options.py:329-480) -/

/-- `handle_error(e, force_raise)` — options.py:463-480 -/
def handleError (o : Opts) (e : Exc) (force : Bool := false) : M Unit := fun s =>
  let s1 := { s with errors := s.errors ++ [e.info] }
  if force || !o.collect then (.raise e, s1)
  else match o.maxErrors with
    | some m => if s1.errors.length ≥ m then (.raise (.collected (s1.errors ++ s1.tmp)), s1) else (.ok (), s1)
    | none => (.ok (), s1)

/-- `raise_error()` — options.py:444-452 -/
def raiseError : M Unit := fun s =>
  if s.errors.isEmpty && s.tmp.isEmpty then (.ok (), s)
  else (.raise (.collected (s.errors ++ s.tmp)), s)

/-- `collect_tmp_error(e)` — options.py:454-458 -/
def collectTmp (e : Exc) : M Unit := fun s => (.ok (), { s with tmp := s.tmp ++ [e.info] })

/-- `clear_tmp_error()` — options.py:460-461 -/
def clearTmp : M Unit := fun s => (.ok (), { s with tmp := [] })

/-- the body of `with context.enter(...) as c:` runs against a context with its own error lists
(options.py:358-359, 389-404); the outer lists are untouched by it -/
def isolated {α : Type} (m : M α) : M α := fun s =>
  match m { s with errors := [], tmp := [] } with
  | (r, s') => (r, { s' with errors := s.errors, tmp := s.tmp })

/-! ### Components -/

structure World (V : Type) where
  /-- `transformer(value, t)` / `transformer.apply(value, t, func)` in common mode -/
  conv : Ty → V → M V
  /-- the same inside the strict (1) / no-data-loss (2) stages of a union, rule.py:383-411 -/
  convAt : Nat → Ty → V → M V
  /-- `RuntimeContext.__init__` raises DepthExceedError for this route, options.py:372-375 -/
  depthExceeded : Nat → Bool
  isNone : V → Bool
  /-- `type(value) == t` -/
  typeIs : V → Ty → Bool
  /-- `list(value)`: walking through the converted container — an instance of a list / tuple / set *subclass* comes
  back from the converter unchanged, so its own `__iter__` / `__len__` may raise anything or never end -/
  readItems : V → M (List V)
  /-- `list(value.items())` of the converted mapping (a dict subclass: `items()` may raise / never end) -/
  readPairs : V → M (List (V × V))
  /-- `value[i]` is defined (list/tuple) or a TypeError (set/frozenset): only the pre-fix seq handler indexes -/
  indexable : V → Bool
  /-- `warnings.warn(...)` of `collect_waring` (options.py:484-487): raises the warning under an 'error' filter -/
  warn : Nat → M Unit
  ofList : List V → V
  /-- `cls.__origin__(result)` at the end of `_parse_tuple_args` (a tuple from a list: cannot fail) -/
  ofTuple : List V → V
  ofPairs : List (V × V) → V
  /-- `cls.__origin__(value)` -/
  construct : Ty → V → M V
  /-- `result[key] = val`: hashing the converted key -/
  insertKey : V → M Unit
  /-- `f"{_key}<key>"`: `str()` of a raw mapping key (route and error item), rule.py:2014-2018 -/
  keyStr : V → M Unit
  /-- validator number k of `__validators__` -/
  validate : Nat → V → M V
  /-- `pre_validate` / `post_validate` (developer hooks, identity by default) -/
  pre : V → M V
  post : V → M V
  /-- class id is a subclass of TypeError or ValueError -/
  isTypeOrValueError : Nat → Bool

variable {V : Type}

/-- entering a child context: only DepthExceedError can come out of the constructor -/
def enterCheck (W : World V) (route : Nat) : M Unit :=
  if W.depthExceeded route then raise (mk K.depth Site.depth) else pure ()

/-- `value[i]` on a container whose items are `xs` -/
def getItem (W : World V) (v : V) (xs : List V) (i : Nat) : M V :=
  if !W.indexable v then raise (builtinExc K.typeError)
  else match xs[i]? with
    | some x => pure x
    | none => raise (builtinExc K.indexError)

/-- `cls._read_items(value, context)` (rule.py:1830-1838): the items are read once, inside a `try`; a failure of the
container's own protocol is a forced ParseError.  Legacy: the loops walked the container directly. -/
def readItemsOf (W : World V) (L : Legacy) (o : Opts) (v : V) : M (List V) :=
  if L.rawIteration then W.readItems v
  else tryExcept (W.readItems v) (fun e => do handleError o (wrap Site.readItems e) true; pure [])

def readPairsOf (W : World V) (L : Legacy) (o : Opts) (v : V) : M (List (V × V)) :=
  if L.rawIteration then W.readPairs v
  else tryExcept (W.readPairs v) (fun e => do handleError o (wrap Site.readItems e) true; pure [])

/-! ### Rule._parse_seq_args — rule.py:1947-1974 -/

def seqLoop (W : World V) (L : Legacy) (o : Opts) (t : Ty) (v : V) (all : List V) : List V → Nat → List V → M (List V)
  | [], _, acc => pure acc
  | x :: xs, i, acc => do
    enterCheck W i
    let r ← tryExcept (do let y ← isolated (W.conv t x); pure (some y)) (fun e => do
      -- legacy: `value=value[i]` is evaluated on the container (a set is not subscriptable)
      let _ ← if L.seqIndex then getItem W v all i else pure x
      let err := wrap Site.seqItem e (some i)
      match o.invalidItems with
      | .exclude => do W.warn Site.seqItem; pure none
      | .preserve => do W.warn Site.seqItem; pure (some x)
      | .throw => do handleError o err; pure none)
    seqLoop W L o t v all xs (i + 1) (match r with | some y => acc ++ [y] | none => acc)

def seqArgs (W : World V) (L : Legacy) (o : Opts) (t : Ty) (v : V) : M V := do
  let xs ← readItemsOf W L o v
  let r ← seqLoop W L o t v xs xs 0 []
  pure (W.ofList r)

/-! ### Rule._parse_tuple_args — rule.py:1891-1945 -/

/-- `for item in range(len(args), len(value)): handle_error(TupleExceedError(item=item, ...))` -/
def exceedLoop (o : Opts) : List Nat → M Unit
  | [] => pure ()
  | i :: is => do handleError o (mk K.tupleExceed Site.tupleExceed (some i)); exceedLoop o is

def tupleLoop (W : World V) (L : Legacy) (o : Opts) (v : List V) : List Ty → Nat → List V → M (List V)
  | [], _, acc => pure acc
  | t :: ts, i, acc =>
    match v[i]? with
    | none => do
      handleError o (mk K.absence Site.tupleAbsence (some i))
      if L.tupleMissing then
        -- legacy: no `continue`: `value[i]` raises IndexError in the `try`, and once more in the handler
        raise (builtinExc K.indexError)
      else tupleLoop W L o v ts (i + 1) acc
    | some x => do
      enterCheck W i
      let r ← tryExcept (do let y ← isolated (W.conv t x); pure (some y)) (fun e => do
        let err := wrap Site.tupleItem e (some i)
        if o.invalidItems == .preserve then do W.warn Site.tupleItem; pure (some x)
        else do handleError o err; pure none)
      tupleLoop W L o v ts (i + 1) (match r with | some y => acc ++ [y] | none => acc)

/-- typed `options.addition`: the items beyond the prefix are converted to it, rule.py:1925-1941 -/
def tupleExtra (W : World V) (o : Opts) (t : Ty) : List V → Nat → List V → M (List V)
  | [], _, acc => pure acc
  | x :: xs, i, acc => do
    enterCheck W i
    let r ← tryExcept (do let y ← isolated (W.conv t x); pure (some y)) (fun e => do
      let err := wrap Site.tupleAddition e (some i)
      if o.invalidItems == .preserve then do W.warn Site.tupleAddition; pure (some x)
      else do handleError o err; pure none)
    tupleExtra W o t xs (i + 1) (match r with | some y => acc ++ [y] | none => acc)

def tupleArgs (W : World V) (L : Legacy) (o : Opts) (ts : List Ty) (v0 : V) : M V := do
  let v ← readItemsOf W L o v0
  let n := v.length
  if n > ts.length && (o.addition == .forbid || o.noDataLoss) then
    exceedLoop o ((List.range n).drop ts.length)
  let r ← tupleLoop W L o v ts 0 []
  let r ← match o.addition with
    | .typed t => tupleExtra W o t (v.drop ts.length) ts.length r
    | .allow => pure (r ++ v.drop ts.length)
    | _ => pure r
  pure (W.ofTuple r)

/-! ### Rule._parse_map_args — rule.py:1996-2066 -/

/-- the route / error item of a raw key is rendered first (`f"{_key}<key>"`); a key that cannot be rendered gets a
placeholder (fixes/C04-unrenderable-values); legacy: the f-string sits outside any `try` -/
def renderKey (W : World V) (L : Legacy) (k : V) : M Unit :=
  if L.mapKeyStr then W.keyStr k else tryExcept (W.keyStr k) (fun _ => pure ())

def mapLoop (W : World V) (L : Legacy) (o : Opts) (kt : Ty) (vt : Option Ty) :
    List (V × V) → Nat → List (V × V) → M (List (V × V))
  | [], _, acc => pure acc
  | (k, x) :: rest, i, acc => do
    renderKey W L k
    enterCheck W i
    -- key: `some key` to go on, `none` = `continue`
    let key ← tryExcept (do let y ← isolated (W.conv kt k); pure (some y)) (fun e => do
      let err := wrap Site.mapKey e (some i)
      match o.invalidKeys with
      | .exclude => do W.warn Site.mapKey; pure none
      | .preserve => do W.warn Site.mapKey; pure (some k)
      | .throw => do handleError o err; pure none)
    match key with
    | none => mapLoop W L o kt vt rest (i + 1) acc
    | some key => do
      let val ← match vt with
        | none => pure (some x)
        | some vt => do
          enterCheck W i
          tryExcept (do let y ← isolated (W.conv vt x); pure (some y)) (fun e => do
            let err := wrap Site.mapValue e (some i)
            match o.invalidValues with
            | .exclude => do W.warn Site.mapValue; pure none
            | .preserve => do W.warn Site.mapValue; pure (some x)
            | .throw => do handleError o err; pure none)
      match val with
      | none => mapLoop W L o kt vt rest (i + 1) acc
      | some val => do
        -- `result[key] = val`
        let stored ←
          if L.mapInsert then do W.insertKey key; pure true
          else tryExcept (do W.insertKey key; pure true) (fun e => do
            handleError o (wrap Site.mapInsert e (some i)); pure false)
        mapLoop W L o kt vt rest (i + 1) (if stored then acc ++ [(key, val)] else acc)

def mapArgs (W : World V) (L : Legacy) (o : Opts) (kt : Ty) (vt : Option Ty) (v : V) : M V := do
  let ps ← readPairsOf W L o v
  let r ← mapLoop W L o kt vt ps 0 []
  pure (W.ofPairs r)

/-! ### Rule._parse_contains — rule.py:1803-1843 -/

def containsCount (W : World V) (L : Legacy) (t : Ty) : List V → Nat → Nat → M Nat
  | [], _, c => pure c
  | x :: xs, i, c => do
    enterCheck W i
    let hit ←
      if L.containsNarrow then
        -- legacy: `except (TypeError, ValueError)` — ParseError is both, anything else passes through
        tryExceptIf (fun e => e.isPerr || W.isTypeOrValueError e.cls)
          (do let _ ← isolated (W.conv t x); pure true) (fun _ => pure false)
      else tryExcept (do let _ ← isolated (W.conv t x); pure true) (fun _ => pure false)
    containsCount W L t xs (i + 1) (if hit then c + 1 else c)

def parseContains (W : World V) (L : Legacy) (o : Opts) (t : Ty) (minC maxC : Option Nat) (v : V) : M V := do
  let xs ← readItemsOf W L o v
  let c ← containsCount W L t xs 0 0
  if c == 0 then handleError o (mk K.constraint Site.contains)
  else if (match minC with | some m => decide (c < m) | none => false) then
    handleError o (mk K.constraint Site.contains)
  else if (match maxC with | some m => decide (c > m) | none => false) then
    handleError o (mk K.constraint Site.contains)
  pure v

/-! ### Rule.parse — rule.py:1681-1749 -/

inductive ArgsParser where
  | none
  | seq (t : Ty)
  | tuple (ts : List Ty)
  | map (k : Ty) (v : Option Ty)
  deriving Repr

structure RuleDecl where
  origin : Option Ty := none
  args : ArgsParser := .none
  abstract : Bool := false
  validators : List Nat := []
  contains : Option Ty := none
  minContains : Option Nat := none
  maxContains : Option Nat := none
  deriving Repr

/-- the validator loop, rule.py:1727-1741 -/
def validatorsLoop (W : World V) (o : Opts) : List Nat → V → M V
  | [], v => pure v
  | k :: ks, v => do
    let v' ← tryExcept (W.validate k v) (fun e => do
      let err := if e.isPerr && e.cls == K.constraint then e
                 else .one { perr := true, cls := K.constraint, site := Site.validator, origin := some e.cls, item := some k }
      handleError o err
      pure v)
    validatorsLoop W o ks v'

def argsParse (W : World V) (L : Legacy) (o : Opts) (R : RuleDecl) (v : V) : M V :=
  match R.origin, R.args with
  | _, .none => pure v
  | none, _ => pure v                 -- resolve_args_parser: no origin, no parser (rule.py:1879)
  | some ot, ap => do
    let v ← match ap with
      | .none => pure v
      | .seq t => seqArgs W L o t v
      | .tuple ts => tupleArgs W L o ts v
      | .map k vt => mapArgs W L o k vt v
    -- rule.py:1719-1722
    if !R.abstract && !W.typeIs v ot then
      if L.rewrap then W.construct ot v
      else tryExcept (W.construct ot v) (fun e => do
        handleError o (wrap Site.ruleRewrap e) true; pure v)
    else pure v

def ruleParse (W : World V) (L : Legacy) (o : Opts) (R : RuleDecl) (v : V) : M V := do
  let v ← W.pre v
  -- origin transform, rule.py:1700-1714 (the `__applied__` pass-through of @utype.apply is not modelled)
  let (v, done) ← match R.origin with
    | none => pure (v, false)
    | some ot => do
      let v ← tryExcept (W.conv ot v) (fun e => do
        handleError o (wrap Site.ruleOrigin e) true; pure v)
      pure (v, W.isNone v)
  if done then pure v else
  let v ← argsParse W L o R v
  let v ← if o.ignoreConstraints then pure v else do
    let v ← validatorsLoop W o R.validators v
    match R.contains with
    | some t => parseContains W L o t R.minContains R.maxContains v
    | none => pure v
  raiseError
  W.post v

/-! ### LogicalType.logical_parse — rule.py:359-470 -/

inductive Comb where
  | all | any | xor | not
  deriving DecidableEq, Repr

/-- `&`: each argument converts the value the previous one produced; first failure stops the loop -/
def allLoop (W : World V) (L : Legacy) (o : Opts) : List Ty → V → M V
  | [], v => pure v
  | t :: ts, v => do
    let r ← tryExcept (do let y ← W.conv t v; pure (some y)) (fun e => do
      let err := if L.allOfRaw || e.isPerr then e else wrap Site.allOf e
      handleError o err
      pure none)
    match r with
    | some y => allLoop W L o ts y
    | none => pure v                     -- `break`

/-- one stage of `|`: the first argument that converts wins (`some`), failures are parked in tmp_errors -/
def anyStage (W : World V) (stage : Nat) : List Ty → V → M (Option V)
  | [], _ => pure none
  | t :: ts, v => do
    enterCheck W 0
    let r ← tryExcept (do let y ← isolated (if stage == 0 then W.conv t v else W.convAt stage t v); pure (some y))
      (fun e => do collectTmp e; pure none)
    match r with
    | some y => do clearTmp; pure (some y)
    | none => anyStage W stage ts v

/-- `^` (rule.py:432-455, after the C09 repair): every condition converts the ORIGINAL input in its own
child context; a failure is parked in tmp_errors (`continue`); the first acceptance sets `xor`/`result`; a
second one is OneOfViolatedError, handed to `handle_error` *outside* the `try`, then `break` with `xor = None`.
State: (result, xor). -/
def xorLoop (W : World V) (o : Opts) (v : V) : List Ty → V → Option Ty → M (V × Option Ty)
  | [], res, x => pure (res, x)
  | t :: ts, res, x => do
    enterCheck W 0
    let r ← tryExcept (do let y ← isolated (W.conv t v); pure (some y)) (fun e => do collectTmp e; pure none)
    match r with
    | none => xorLoop W o v ts res x
    | some y =>
      match x with
      | none => xorLoop W o v ts y (some t)
      | some _ => do
        handleError o (mk K.oneOf Site.oneOf)
        pure (res, none)

def notLoop (W : World V) (o : Opts) : List Ty → V → M Unit
  | [], _ => pure ()
  | t :: ts, v => do
    enterCheck W 0
    let go ← tryExcept (do
        let _ ← isolated (W.conv t v)
        handleError o (mk K.negate Site.negate)
        pure true)
      (fun _ => pure false)                -- `except Exception: break`
    if go then notLoop W o ts v else pure ()

def logicalParse (W : World V) (L : Legacy) (o : Opts) (c : Comb) (args : List Ty) (v : V) : M V :=
  match c with
  | .all => do
    let y ← allLoop W L o args v
    raiseError
    pure y
  | .any =>
    -- 1. exact type: returned as is
    if args.any (fun t => W.typeIs v t) then pure v else do
    -- 2. strict mode
    let r ← if !o.noDataLoss || !o.noExplicitCast then anyStage W 1 args v else pure none
    match r with
    | some y => pure y
    | none => do
      -- 3. no data loss
      let r ← if !o.noDataLoss && !o.noExplicitCast then anyStage W 2 args v else pure none
      match r with
      | some y => pure y
      | none => do
        -- 4. common mode
        let r ← anyStage W 0 args v
        match r with
        | some y => pure y
        | none => do
          raiseError
          pure v
  | .xor => do
    -- no exact-type shortcut any more: a value of one condition's type is still checked against the others
    let r ← xorLoop W o v args v none
    if r.2.isSome then do
      clearTmp
      raiseError
      pure r.1                           -- `value = result`
    else do
      raiseError
      pure v
  | .not => do
    notLoop W o args v
    raiseError
    pure v

end Utv.C04
