"""C09 — logical type combinators mean what they say.

Correspondence (T2): a case is an operator expression over leaf descriptors (builtin classes, constrained `Rule`
subclasses, typing generics, literals, data classes, Any, None), an option set and an input value.  The worker
instantiates the leaves and evaluates the expression with the real operators / classmethods, extracts the structure
of the resulting type, measures every leaf *in isolation* on the input and on every value a leaf can turn it into
(all three option sets a union stage can use), and calls the built type.  The Lean driver builds the same expression
with the model of `combine`/`combine_by`/operators and runs the model of `logical_parse` over the measured leaf
tables; structure and outcome (value or exception-class tree) are compared.

Spec sweep (the oracle of the failing-input search): `spec` below evaluates the property's own sentences on what the
implementation did — for EVERY combinator node of the real structure, on every measured value and option set, using
the node's arguments measured in isolation on the real code — and the construction algebra on the real structure.
"""
from __future__ import annotations

import itertools
import json
import random

from .common import Check, run_driver, run_impl

COLLECTED, ONEOF, NEGATE = "CollectedParseError", "OneOfViolatedError", "NegateViolatedError"
FIXED_ERR_IDS = {COLLECTED: 0, ONEOF: 1, NEGATE: 2, "ParseError": 3}
NON_PARSE_BASE = 1000      # model convention (Err.nonParseBase): ids below = ParseError and subclasses, from here on = others
MAX_VALUES = 18

# ------------------------------------------------------------------------------------------------
# descriptors
# ------------------------------------------------------------------------------------------------

NONE_LEAF = {"kind": "cls", "name": "NoneType"}
LEAF_POOL = [
    {"kind": "cls", "name": "int"},
    {"kind": "cls", "name": "str"},
    {"kind": "cls", "name": "float"},
    {"kind": "cls", "name": "bool"},
    {"kind": "cls", "name": "bytes"},
    {"kind": "cls", "name": "list"},
    {"kind": "cls", "name": "dict"},
    {"kind": "cls", "name": "date"},
    {"kind": "cls", "name": "Decimal"},
    {"kind": "rule", "name": "PosInt", "origin": "int", "cons": {"gt": 0}},
    {"kind": "rule", "name": "WeekDay", "origin": "int", "cons": {"gt": 0, "le": 7}},
    {"kind": "rule", "name": "Slug", "origin": "str", "cons": {"regex": "[a-z]+"}},
    {"kind": "rule", "name": "Dotted", "origin": "str", "cons": {"regex": "\\d+\\.\\d+"}},
    {"kind": "rule", "name": "Short", "origin": "str", "cons": {"max_length": 3}},
    {"kind": "rule", "name": "NegFloat", "origin": "float", "cons": {"lt": 0}},
    {"kind": "rule", "name": "EvenInt", "origin": "int", "cons": {"multiple_of": 2}},
    # rules whose acceptance is decided outside `__validators__`: contains-only, hook-only, args-only, bare, library
    {"kind": "rule", "name": "HasPositive", "origin": "list", "cons": {"max_contains": 2},
     "contains": {"kind": "rule", "name": "PosInt", "origin": "int", "cons": {"gt": 0}}},
    {"kind": "rule", "name": "HasStr", "origin": "list", "cons": {"min_contains": 2}, "contains": {"kind": "cls", "name": "str"}},
    {"kind": "rule", "name": "NanOnly", "origin": "float", "cons": {}, "hook": "post_nan"},
    {"kind": "rule", "name": "NonNegInt", "origin": "int", "cons": {}, "hook": "post_nonneg"},
    {"kind": "rule", "name": "NonEmptyStr", "origin": "str", "cons": {}, "hook": "pre_nonempty"},
    {"kind": "rule", "name": "EvenDict", "origin": "dict", "cons": {}, "hook": "post_evenlen"},
    {"kind": "rule", "name": "BareInt", "origin": "int", "cons": {}},
    {"kind": "rule", "name": "BareList", "origin": "list", "cons": {}},
    {"kind": "rule", "name": "IntList", "origin": "list", "cons": {}, "args": ["int"]},
    {"kind": "rule", "name": "StrIntTuple", "origin": "tuple", "cons": {}, "args": ["str", "int"]},
    {"kind": "rule", "lib": "NanFloat", "name": "NanFloat", "origin": "float", "cons": {}},
    {"kind": "rule", "lib": "InfinityFloat", "name": "InfinityFloat", "origin": "float", "cons": {}},
    # RELATED leaves: a rule and its stricter subclasses, a data class and its subclass ("base" = name of the parent leaf,
    # which is always placed before it in a case)
    {"kind": "rule", "name": "Percent", "origin": "int", "cons": {"ge": 0, "le": 100}},
    {"kind": "rule", "name": "Grade", "base": "Percent", "origin": "int", "cons": {"le": 10}},
    {"kind": "rule", "name": "Tiny", "base": "Grade", "origin": "int", "cons": {"le": 3}},
    {"kind": "rule", "name": "ShortSlug", "base": "Slug", "origin": "str", "cons": {"max_length": 3}},
    {"kind": "rule", "name": "FewPositive", "base": "HasPositive", "origin": "list", "cons": {"max_contains": 1}},
    {"kind": "alias", "spec": "List[int]"},
    {"kind": "alias", "spec": "List[str]"},
    {"kind": "alias", "spec": "Dict[str, int]"},
    {"kind": "alias", "spec": "Tuple[str, int]"},
    {"kind": "alias", "spec": "Literal['mon', 'tue']"},
    {"kind": "lit", "value": {"i": "3"}},
    {"kind": "lit", "value": True},
    {"kind": "lit", "value": {"f": "2.5"}},        # (a str literal operand would be a forward reference: C17's business)
    {"kind": "dc", "name": "DcA", "fields": [["a", "int", None]]},
    {"kind": "dc", "name": "DcUser", "fields": [["name", "str", None], ["age", "int", None]]},
    {"kind": "dc", "name": "DcOpt", "fields": [["a", "int", None], ["b", "str", {"s": ""}]]},
    {"kind": "dc", "name": "DcAB", "base": "DcA", "fields": [["b", "str", None]]},
    {"kind": "any"},
    {"kind": "none"},
    {"kind": "rulebase"},
    {"kind": "str", "name": "FwdA"},            # a string operand: ForwardRef by name (stays unresolved: C17's business)
    {"kind": "self"},                           # typing.Self, kept as it is by _parse_arg
]
UTYPE_KINDS = ("rule", "dc")          # operands whose metaclass makes Python call utype's operators

VALUE_POOL = [
    None, True, False,
    {"i": "0"}, {"i": "1"}, {"i": "3"}, {"i": "4"}, {"i": "8"}, {"i": "-3"}, {"i": "10"}, {"i": "50"}, {"i": "101"}, {"s": "50"},
    {"f": "3.0"}, {"f": "3.5"}, {"f": "-2.5"}, {"f": "nan"}, {"f": "inf"}, {"f": "1e300"}, {"d": "Infinity"}, {"s": "inf"},
    {"s": "3"}, {"s": "3.0"}, {"s": "3.5"}, {"s": "-2"}, {"s": "8"}, {"s": "abc"}, {"s": "a"}, {"s": "mon"}, {"s": "abcd"},
    {"s": ""}, {"s": "null"}, {"s": "true"}, {"s": "1.25"}, {"s": "2000-01-02"}, {"s": "[1, 2]"}, {"s": "x y"},
    {"b": "3"}, {"b": "abc"}, {"b": "tue"},
    {"d": "3"}, {"d": "3.0"}, {"d": "2.5"},
    {"l": []}, {"l": [{"i": "1"}, {"s": "2"}]}, {"l": [{"s": "a"}]}, {"l": [{"s": "x"}, {"s": "3"}]}, {"l": [{"i": "3"}]},
    {"l": [{"i": "-1"}, {"i": "-2"}]}, {"l": [{"i": "1"}, {"i": "2"}, {"i": "3"}]}, {"l": [{"i": "1"}, {"i": "-1"}]},
    {"l": [{"s": "a"}, {"s": "b"}]},
    {"t": [{"s": "x"}, {"i": "1"}]}, {"t": [{"s": "x"}, {"s": "y"}]}, {"t": [{"i": "1"}]},
    {"m": []}, {"m": [[{"s": "a"}, {"s": "1"}]]}, {"m": [[{"s": "a"}, {"i": "2"}], [{"s": "b"}, {"s": "x"}]]},
    {"m": [[{"s": "name"}, {"s": "bob"}], [{"s": "age"}, {"s": "3"}]]},
    {"m": [[{"s": "a"}, {"s": "1"}], [{"s": "b"}, {"s": "x"}]]},
    {"date": "2000-01-02"},
    {"inst": "DcA", "kw": [["a", {"i": "1"}]]},
    {"inst": "DcUser", "kw": [["name", {"s": "bob"}], ["age", {"i": "3"}]]},
    {"inst": "DcOpt", "kw": [["a", {"i": "1"}]]},
]

OPTS_POOL = [
    {}, {}, {}, {},
    {"no_data_loss": True}, {"no_explicit_cast": True}, {"no_data_loss": True, "no_explicit_cast": True},
    {"collect_errors": True}, {"collect_errors": True, "max_errors": 1}, {"collect_errors": True, "max_errors": 2},
    {"collect_errors": True, "no_explicit_cast": True},
    {"override": True}, {"override": True, "no_data_loss": True}, {"override": True, "collect_errors": True},
    {"max_depth": 1}, {"max_depth": 2, "collect_errors": True},     # a combinator does not add nesting levels (depth itself: C18)
]


def variants(opts: dict) -> list:
    """the (no_data_loss, no_explicit_cast) pairs of the option sets a union stage can use — written from the
    documentation of the stages (strict, then lossless, then the caller's), not from the code"""
    base = (bool(opts.get("no_data_loss")), bool(opts.get("no_explicit_cast")))
    if opts.get("override"):
        return [base]
    out = [base]
    for v in ((True, True), (True, base[1])):
        if v not in out:
            out.append(v)
    return out


def stage_variants(opts: dict, var) -> list:
    """option sets of the union stages when the union itself runs under variant `var`"""
    ndl, nec = var
    if opts.get("override"):
        return [var]
    out = []
    if not ndl or not nec:
        out.append((True, True))
    if not ndl and not nec:
        out.append((True, nec))
    out.append(var)
    return out


# ------------------------------------------------------------------------------------------------
# adapter (runs in worker processes against the real utype)
# ------------------------------------------------------------------------------------------------

def _env():
    import datetime
    import decimal
    import typing
    ns = {k: getattr(typing, k) for k in ("List", "Dict", "Tuple", "Set", "Optional", "Union", "Literal", "Any")}
    cls = {"int": int, "str": str, "float": float, "bool": bool, "bytes": bytes, "list": list, "dict": dict,
           "NoneType": type(None), "date": datetime.date, "Decimal": decimal.Decimal, "tuple": tuple, "set": set}
    return ns, cls


def decode_value(j, dcs=None):
    import datetime
    import decimal
    if j is None or isinstance(j, bool):
        return j
    if "i" in j:
        return int(j["i"])
    if "f" in j:
        return float(j["f"])
    if "s" in j:
        return j["s"]
    if "b" in j:
        return j["b"].encode("latin1")
    if "d" in j:
        return decimal.Decimal(j["d"])
    if "l" in j:
        return [decode_value(x, dcs) for x in j["l"]]
    if "t" in j:
        return tuple(decode_value(x, dcs) for x in j["t"])
    if "m" in j:
        return {decode_value(k, dcs): decode_value(v, dcs) for k, v in j["m"]}
    if "date" in j:
        return datetime.date.fromisoformat(j["date"])
    if "inst" in j:
        c = (dcs or {}).get(j["inst"])
        if c is None:
            return {k: decode_value(v, dcs) for k, v in j["kw"]}
        return c(**{k: decode_value(v, dcs) for k, v in j["kw"]})
    raise ValueError(f"bad value descriptor {j}")


def enc(v):
    import datetime
    import decimal
    t = type(v)
    if v is None or t is bool:
        return v
    if t is int:
        return {"i": str(v)}
    if t is float:
        return {"f": repr(v)}
    if t is str:
        return {"s": v}
    if t is bytes:
        return {"b": v.decode("latin1")}
    if t is decimal.Decimal:
        return {"d": str(v)}
    if t is list:
        return {"l": [enc(x) for x in v]}
    if t is tuple:
        return {"t": [enc(x) for x in v]}
    if t in (set, frozenset):
        return {"S": sorted((enc(x) for x in v), key=lambda x: json.dumps(x, sort_keys=True))}
    if t is dict:
        return {"m": [[enc(k), enc(x)] for k, x in v.items()]}
    if t is datetime.date:
        return {"date": v.isoformat()}
    if isinstance(v, dict) and hasattr(t, "__parser__"):
        return {"inst": t.__name__, "kw": [[k, enc(x)] for k, x in v.items()]}
    return {"x": t.__name__, "r": repr(v)[:80]}


def errtree(e):
    from utype.utils.exceptions import ParseError
    sub = getattr(e, "errors", None) if type(e).__name__ == COLLECTED else None
    t = {"e": type(e).__name__, "sub": [errtree(x) for x in (sub or [])]}
    if not isinstance(e, ParseError):
        t["np"] = True          # not a ParseError: a conjunction wraps it (rule.py:372-373)
    return t


def strip_np(t):
    return {"e": t["e"], "sub": [strip_np(x) for x in t["sub"]]}


def _h_post_nan(v):
    import math
    if not math.isnan(v):
        raise ValueError("not nan")
    return v


def _h_post_nonneg(v):
    if v < 0:
        raise ValueError("negative")
    return v


def _h_pre_nonempty(v):
    if v == "" or v == b"":
        raise ValueError("empty")
    return v


def _h_post_evenlen(v):
    if len(v) % 2:
        raise ValueError("odd length")
    return v


# user hooks of a Rule (acceptance decided outside `__validators__`)
HOOKS = {"post_nan": ("post_validate", _h_post_nan), "post_nonneg": ("post_validate", _h_post_nonneg),
         "pre_nonempty": ("pre_validate", _h_pre_nonempty), "post_evenlen": ("post_validate", _h_post_evenlen)}


def _mk_leaf(d, made=None):
    """`made`: name -> class of the leaves built so far (for `base`)"""
    import typing
    from utype import Rule, Schema
    ns, cls = _env()
    k = d["kind"]
    if k == "cls":
        return cls[d["name"]]
    if k == "rule":
        if d.get("lib"):
            from utype import types
            return getattr(types, d["lib"])
        attrs = dict(d["cons"])
        if d.get("contains"):
            attrs["contains"] = _mk_leaf(d["contains"])
        if d.get("args"):
            attrs["__args__"] = tuple(cls[a] for a in d["args"])
        if d.get("hook"):
            which, fn = HOOKS[d["hook"]]

            def hook(c, value, context=None, _fn=fn):
                return _fn(value)

            attrs[which] = classmethod(hook)
        if d.get("base"):
            return type(d["name"], ((made or {})[d["base"]],), attrs)        # a stricter subclass of another leaf
        return type(d["name"], (cls[d["origin"]], Rule), attrs)
    if k == "alias":
        return eval(d["spec"], dict(ns))
    if k == "lit":
        return decode_value(d["value"])
    if k == "dc":
        attrs = {"__annotations__": {n: cls[t] for n, t, _ in d["fields"]}, "__module__": __name__}
        for n, _, dv in d["fields"]:
            if dv is not None:
                attrs[n] = decode_value(dv)
        return type(d["name"], ((made or {})[d["base"]] if d.get("base") else Schema,), attrs)
    if k == "str":
        return d["name"]                 # a string operand = a forward reference by name (never resolved here)
    if k == "self":
        from utype.utils.compat import Self
        return Self
    if k == "any":
        return typing.Any
    if k == "none":
        return None
    if k == "rulebase":
        return Rule
    raise ValueError(k)


def _mk_leaves(leaves):
    import typing
    made, raws = {}, []
    for d in leaves:
        if d["kind"] == "tunion":        # typing.Union[...] of earlier leaves of the case (classes / None)
            raws.append(typing.Union[tuple(raws[i] for i in d["of"])])
            continue
        r = _mk_leaf(d, made)
        raws.append(r)
        if d.get("name") and d["kind"] in ("rule", "dc"):
            made[d["name"]] = r
    return raws


def _seen(d, raw):
    """the leaf as a combinator sees it"""
    from utype.parser.rule import LogicalType
    from utype.utils.compat import ForwardRef
    if d["kind"] in ("alias", "lit", "none", "tunion"):
        return LogicalType._parse_arg(raw)
    if d["kind"] == "str":
        return ForwardRef(raw)
    return raw


class _Foreign(Exception):
    """the expression never reaches utype (Python's own `type.__or__`, typing's `__or__`, TypeError between two
    plain classes)"""


class _BuildError(Exception):
    """an operator applied to a utype type raised instead of building a type"""


def _is_utype(x):
    from utype.parser.rule import LogicalType
    from utype.schema import LogicalMeta
    return isinstance(x, (LogicalType, LogicalMeta))


OPS = {"|": lambda a, b: a | b, "^": lambda a, b: a ^ b, "&": lambda a, b: a & b}
CALLS = {"|": "any_of", "^": "one_of", "&": "all_of", "~": "not_of"}


def _is_operand(x, raws):
    import typing
    from utype.parser.rule import LogicalType
    from utype.schema import LogicalMeta
    if isinstance(x, (LogicalType, LogicalMeta)) or x is typing.Any or x is None or type(x).__name__ == "ForwardRef":
        return True
    return any(x is r for r in raws)


def _eval_expr(e, raws, built, log=None):
    """`log` collects every negation step (kind, operand object, result object)"""
    from utype.parser.rule import LogicalType
    if "atom" in e:
        return raws[e["atom"]]
    if "ref" in e:
        return built[e["ref"]]
    if "bin" in e:
        l, r = _eval_expr(e["l"], raws, built, log), _eval_expr(e["r"], raws, built, log)
        if not (_is_utype(l) or _is_utype(r)):
            raise _Foreign("no utype operand")       # Python's own `int | str`, `3 | 3`, `None & int` …
        try:
            res = OPS[e["bin"]](l, r)
        except Exception as ex:
            if _is_utype(l) or _is_utype(r):
                raise _BuildError(f"{type(ex).__name__} in <{type(l).__name__}> {e['bin']} <{type(r).__name__}>")
            raise _Foreign(type(ex).__name__)
    elif "inv" in e:
        x = _eval_expr(e["inv"], raws, built, log)
        if not _is_utype(x):
            raise _Foreign("no utype operand")
        try:
            res = ~x
        except Exception as ex:
            if _is_utype(x):
                raise _BuildError(f"{type(ex).__name__} in ~<{type(x).__name__}>")
            raise _Foreign(type(ex).__name__)
    else:
        args = [_eval_expr(a, raws, built, log) for a in e["args"]]
        try:
            res = getattr(LogicalType, CALLS[e["call"]])(*args)
        except Exception as ex:
            raise _BuildError(f"{type(ex).__name__} in {CALLS[e['call']]}")
    if not _is_operand(res, raws):
        raise _Foreign(type(res).__name__)       # typing.Union / types.UnionType: the expression never reached utype
    if log is not None:
        if "inv" in e:
            log.append(("inv", x, res))
        elif e.get("call") == "~" and len(args) == 1 and (_is_utype(args[0]) or isinstance(args[0], type)):
            log.append(("not_of", args[0], res))
    return res


def _kw(opts, var=None):
    kw = {k: v for k, v in opts.items() if v not in (None, False)}
    if var is not None:
        for name, on in zip(("no_data_loss", "no_explicit_cast"), var):
            if on:
                kw[name] = True
            else:
                kw.pop(name, None)
    return kw


def _copy(v):
    import copy
    try:
        return copy.deepcopy(v)
    except Exception:
        return v


def _call(T, kw, v, dirty=None, info=None):
    """the public entry points: a combinator type is called, anything else goes through the transformer.
    `dirty`: the context handed in already holds an error ("errors") or a pending one ("tmp").
    `info` (a dict) receives what the call left in the context it was given."""
    from utype import Options, exc
    from utype.parser.rule import LogicalType
    ctx = Options(**kw).make_context()
    if dirty == "errors":
        ctx.errors.append(exc.ParseError("an earlier error"))
    elif dirty == "tmp":
        ctx.tmp_errors.append(exc.ParseError("an earlier pending error"))
    try:
        if isinstance(T, LogicalType) and T.combinator:
            r = T(_copy(v), context=ctx) if (kw or dirty) else T(_copy(v))
        else:
            r = ctx.transformer(_copy(v), T)
    except RecursionError:
        return ("err", {"e": "RecursionError", "sub": [], "np": True})
    except Exception as e:
        if info is not None:
            info["rec"] = [errtree(x) for x in ctx.errors]
        return ("err", errtree(e))
    if info is not None:
        info["dirty"] = bool(ctx.errors or ctx.tmp_errors)
    return ("ok", r)


def impl(case):
    import typing
    from utype import Rule
    from utype.parser.rule import LogicalType
    if case.get("op") == "probe":
        return _probe(case)
    leaves = case["leaves"]
    raws = _mk_leaves(leaves)
    dcs = {d["name"]: raws[i] for i, d in enumerate(leaves) if d["kind"] == "dc"}
    # the leaf as a combinator sees it
    seen = [_seen(leaves[i], r) for i, r in enumerate(raws)]
    sig = {repr(seen[i]): i for i, d in enumerate(leaves) if d["kind"] in ("alias", "lit")}
    out = {}
    built, neglog = [], []
    try:
        for d in case["defs"]:
            built.append(_eval_expr(d, raws, built, neglog))
    except _Foreign as f:
        return {"struct": None, "foreign": str(f)}
    except _BuildError as f:
        return {"struct": None, "builderr": str(f)}
    root = built[-1]
    if root is None:
        root = type(None)
    # field forms: the built type annotates a data-class field (as it is, or as Optional[...]); the type under test is
    # what the class parser made of the annotation, and the root call goes through the class
    via, holder = case.get("via"), None
    if via:
        from utype import Options, Schema
        ann = typing.Optional[root] if via == "optional_field" else root
        attrs = {"__annotations__": {"f": ann}, "__module__": __name__}
        if _kw(case["opts"]):
            attrs["__options__"] = Options(**_kw(case["opts"]))
        if root is typing.Any:
            via = None              # (the class parser turns a bare `Any` annotation into `Rule`: nothing of C09 in it)
    if via:
        try:
            holder = type("Holder", (Schema,), attrs)
            root = holder.__parser__.fields["f"].type
        except Exception as ex:
            return {"struct": None, "builderr": f"{type(ex).__name__} declaring a field annotated with the built type"}

    ids, nodes = {}, []

    def ident(x):
        return ids.setdefault(id(x), len(ids))

    def leaf_index(x):
        for i, d in enumerate(leaves):
            if d["kind"] in ("cls", "rule", "dc") and x is raws[i]:
                return i
        if x is type(None):
            return 0
        for i, d in enumerate(leaves):
            if d["kind"] == "self" and x is raws[i]:
                return i
            if d["kind"] == "str" and type(x).__name__ == "ForwardRef" and getattr(x, "__forward_arg__", None) == raws[i]:
                return i
        return None

    node_index = {}

    def unwrap(x):
        # `Rule[AnyOf(...)]`: the anonymous wrapper Rule.annotate puts around a typing.Union / Optional annotation
        while (isinstance(x, LogicalType) and not x.combinator and leaf_index(x) is None and x is not Rule
               and isinstance(getattr(x, "__origin__", None), LogicalType) and x.__origin__.combinator
               and not x.__args__ and not x.__validators__ and x.__name__ == "Rule"):
            x = x.__origin__
        return x

    def struct(x):
        x = unwrap(x)
        if x is typing.Any:
            return {"any": True}, {"special": "any"}
        if x is Rule:
            return {"rulebase": True}, {"special": "rulebase"}
        if isinstance(x, LogicalType) and x.combinator:
            if id(x) in node_index:
                k = node_index[id(x)]
                if nodes[k]["struct"] is None:            # the type is (indirectly) an operand of itself
                    return {"cycle": k}, {"node": k}
                return nodes[k]["struct"], {"node": k}
            k = len(nodes)
            node_index[id(x)] = k
            nodes.append({"comb": x.combinator, "obj": x, "children": [], "struct": None})
            n_id = ident(x)
            ss, cs = [], []
            for a in x.args:
                s, c = struct(a)
                ss.append(s)
                cs.append(c)
            nodes[k]["children"] = cs
            nodes[k]["struct"] = {"comb": x.combinator, "args": ss, "id": n_id}
            return nodes[k]["struct"], {"node": k}
        i = leaf_index(x)
        if i is not None:
            return {"leaf": i}, {"leaf": i}
        if isinstance(x, LogicalType) and repr(x) in sig:
            return {"annot": sig[repr(x)], "id": ident(x)}, {"leaf": sig[repr(x)], "obj": x}
        return {"unknown": repr(x)[:80]}, {"unknown": True}

    # the structure after EVERY construction step (not only the last), and every negation step ⟨operand, result⟩
    steps = [struct(type(None) if b is None else b)[0] for b in built[:-1]]
    s_root, c_root = struct(root)
    out["struct"] = s_root
    out["structs"] = steps + [s_root] if not via else None
    invs = []
    for kind_, x, res in neglog:
        sx, cx = struct(x)
        sr, cr = struct(res)
        ux, ur = unwrap(x), unwrap(res)
        rec = {"kind": kind_, "operand": sx, "result": sr,
               "operand_ref": {k: v for k, v in cx.items() if k != "obj"}, "result_ref": {k: v for k, v in cr.items() if k != "obj"}}
        if isinstance(ux, LogicalType) and ux.combinator == "~" and len(ux.args) == 1:
            rec["result_is_inner"] = res is ux.args[0]                     # ~~T is T (the very object, wrapper included)
        if isinstance(ur, LogicalType) and ur.combinator == "~":
            rec["arg_is_operand"] = len(ur.args) == 1 and (ur.args[0] is x or ur.args[0] is ux)   # ~T has args [T]
        invs.append(rec)
    out["invs"] = invs

    # ---- measure: leaves in isolation and every combinator node, on the closure of values --------------------
    opts = case["opts"]
    vars_ = variants(opts)
    v0 = decode_value(case["value"], dcs)
    vals, order = {}, []

    def vid(obj):
        key = json.dumps(enc(obj), sort_keys=True)
        if key not in vals:
            if len(order) >= MAX_VALUES:
                return None
            vals[key] = (len(order), obj)
            order.append(key)
        return vals[key][0]

    vid(v0)
    table, exact, ntable = [], [], []
    incomplete = False
    measured = [(i, seen[i]) for i, d in enumerate(leaves) if d["kind"] != "tunion"]
    done = 0
    for _round in range(6):
        todo = order[done:]
        if not todo:
            break
        done = len(order)
        for key in todo:
            n, obj = vals[key]
            for i, LT in measured:
                if leaves[i]["kind"] in ("cls", "dc") and type(obj) == raws[i]:
                    exact.append([i, n])
                for var in vars_:
                    info = {}
                    kind, r = _call(LT, _kw(opts, var), obj, info=info)
                    if kind == "ok":
                        m = vid(r)
                        if m is None:
                            incomplete = True
                            continue
                        # (model assumption, checked: a leaf that returns normally leaves the context untouched)
                        table.append([i, var[0], var[1], n, dict({"ok": m}, **({"dirty": True} if info.get("dirty") else {}))])
                    else:
                        # errors the leaf RECORDED in the context it was given before raising (Rule.parse does)
                        table.append([i, var[0], var[1], n, {"err": r, "rec": info.get("rec", [])}])
    else:
        incomplete = True
    for key in order:
        n, obj = vals[key]
        for k, nd in enumerate(nodes):
            for var in vars_:
                kind, r = _call(nd["obj"], _kw(opts, var), obj)
                if kind == "ok":
                    rk = json.dumps(enc(r), sort_keys=True)
                    ntable.append([k, var[0], var[1], n, {"ok": vals[rk][0]} if rk in vals else {"ok": None, "enc": enc(r)}])
                else:
                    ntable.append([k, var[0], var[1], n, {"err": r}])
    if holder is not None:
        try:
            kind, r = "ok", holder(f=_copy(v0)).f
        except RecursionError:
            kind, r = "err", {"e": "RecursionError", "sub": [], "np": True}
        except Exception as e:
            kind, r = "err", errtree(e)
    else:
        kind, r = _call(root, _kw(opts), v0, dirty=case.get("dirty"))
    if kind == "ok":
        rk = json.dumps(enc(r), sort_keys=True)
        out["out"] = {"ok": vals[rk][0]} if rk in vals else {"ok": None, "enc": enc(r)}
    else:
        out["out"] = {"err": r}
    out.update(values=[json.loads(k) for k in order], variants=[list(v) for v in vars_], table=table, exact=exact,
               ntable=ntable, incomplete=incomplete,
               nodes=[{"comb": nd["comb"], "children": [{k: v for k, v in c.items() if k != "obj"} for c in nd["children"]]}
                      for nd in nodes],
               root=c_root if "obj" not in c_root else {"leaf": c_root["leaf"]})
    return out


def _probe(case):
    """acceptance matrix of the leaf pool on the value pool (default options): which leaves accept which value,
    whether they convert it, and for converting leaves what the others say about the converted value"""
    from utype.parser.rule import LogicalType
    leaves = case["leaves"]
    raws = _mk_leaves(leaves)
    dcs = {d["name"]: raws[i] for i, d in enumerate(leaves) if d["kind"] == "dc"}
    seen = [_seen(leaves[i], r) for i, r in enumerate(raws)]
    acc, conv, thread, origin, rej = [], [], [], [], []
    for j, vd in enumerate(case["values"]):
        v = decode_value(vd, dcs)
        key = json.dumps(enc(v), sort_keys=True)
        outs = {}
        for i, d in enumerate(leaves):
            if d["kind"] == "rule" and type(v) is getattr(raws[i], "__origin__", None):
                origin.append([i, j])       # the value is of exactly the rule's origin type
        for i, LT in enumerate(seen):
            kind, r = _call(LT, {}, v)
            if kind == "ok":
                acc.append([i, j])
                outs[i] = r
                if json.dumps(enc(r), sort_keys=True) != key:
                    conv.append([i, j])
            else:
                rej.append([i, j, r["e"]])
        for i, r in outs.items():
            if [i, j] not in conv:
                continue
            for b, LT in enumerate(seen):
                if b == i:
                    continue
                kind, _ = _call(LT, {}, r)
                if (kind == "ok") != (b in outs):
                    thread.append([i, b, j])      # leaf i converts value j; leaf b accepts exactly one of (value, converted)
    return {"acc": acc, "conv": conv, "thread": thread, "origin": origin, "rej": rej}


# ------------------------------------------------------------------------------------------------
# specification: the property's sentences, evaluated on what the implementation did
# ------------------------------------------------------------------------------------------------

def _is_ok(o):
    return isinstance(o, dict) and "ok" in o


def struct_eq(a, b) -> bool:
    """structural equality of two extracted types, ignoring object identity"""
    if not isinstance(a, dict) or not isinstance(b, dict):
        return a == b
    if set(a) - {"id"} != set(b) - {"id"}:
        return False
    if "comb" in a:
        return a["comb"] == b["comb"] and len(a["args"]) == len(b["args"]) and all(
            struct_eq(x, y) for x, y in zip(a["args"], b["args"]))
    if "annot" in a:
        return a["annot"] == b["annot"]
    if "leaf" in a:
        return a["leaf"] == b["leaf"]
    return True


def has_call(e) -> bool:
    if "call" in e:
        return True
    return any(has_call(x) for k in ("l", "r", "inv") if k in e for x in [e[k]]) or any(has_call(x) for x in e.get("args", []))


def algebra_violations(case, s, top=True) -> list:
    """duplicates and Any are absorbed, same-kind nesting is flattened, double negation cancels, a combinator keeps
    at least two operands — on the structure the real constructors produced"""
    out = []
    if not isinstance(s, dict) or "comb" not in s:
        return out
    c, args = s["comb"], s["args"]
    if any(isinstance(a, dict) and "cycle" in a for a in args):
        out.append(("cycle", f"a '{c}' type is an operand of itself"))
    for i in range(len(args)):
        for k in range(i + 1, len(args)):
            if struct_eq(args[i], args[k]):
                fresh = all(("annot" in a or "comb" in a) and args[i].get("id") != args[k].get("id") for a in (args[i], args[k]))
                out.append(("dup-by-identity" if fresh else "dup",
                            f"duplicate operands {i} and {k} of '{c}' are not absorbed"))
    if c != "~":
        if any("any" in a for a in args):
            out.append(("any", f"Any is an operand of '{c}' (not absorbed)"))
        if len(args) < 2:
            out.append(("arity", f"'{c}' with {len(args)} operand(s)"))
    elif len(args) != 1:
        out.append(("arity", f"'~' with {len(args)} operands"))
    for a in args:
        if "comb" in a and a["comb"] == c:
            # (Optional[T] in an annotation is `any_of(T, None)`, a classmethod call)
            kind = ("call-keeps-nesting" if any(has_call(d) for d in case["defs"]) or case.get("via") == "optional_field"
                    else "nest")
            out.append((kind, f"'{c}' directly inside '{c}' (not flattened)" if c != "~" else "double negation not cancelled"))
        out += algebra_violations(case, a, False)
    return out


def expected_chain(case, e, op):
    """the algebra the property states, applied step by step to `a <op> b <op> …` (any bracketing) over leaves:
    same-kind operands flatten, operands keep the order written (first occurrences), duplicates of a class are
    absorbed, Any makes | and ^ accept anything (`Rule`) and is dropped from &.
    Returns ("rb",) | ("leaf", key) | ("comb", [keys]) or None when `e` is not such a chain."""
    def step(parts):
        seq, seen = [], set()
        for k in parts:
            if k == "ANY":
                if op != "&":
                    return ("rb",)
                continue
            stable = k == "RB" or case["leaves"][k]["kind"] in ("cls", "rule", "dc", "str", "self")
            if stable:
                if k in seen:
                    continue
                seen.add(k)
            seq.append(k)
        if not seq:
            return ("rb",)
        if len(seq) == 1:
            return ("rb",) if seq[0] == "RB" else ("leaf", seq[0])
        return ("comb", seq)

    def parts(x):
        return list(x[1]) if x[0] == "comb" else (["RB"] if x[0] == "rb" else [x[1]])

    def atom(i):
        k = case["leaves"][i]["kind"]
        if k == "tunion":
            return ("tu", list(case["leaves"][i]["of"]))
        return ("leaf", "ANY") if k == "any" else ("rb",) if k == "rulebase" else ("leaf", 0 if k == "none" else i)

    def go(x):
        if "atom" in x:
            return atom(x["atom"])
        if x.get("bin") == op:
            l, r = go(x["l"]), go(x["r"])
            if l is None or r is None or l[0] == "tu":
                return None
            if r[0] == "tu":
                if op != "|":
                    return None             # kept as ONE wrapped operand: not a chain over leaves
                return step(parts(l) + r[1])   # `x | Union[a, b]` splats the members
            return step(parts(l) + parts(r))
        if x.get("call") == op and all("atom" in a for a in x["args"]):
            ats = [atom(a["atom"]) for a in x["args"]]
            if any(a[0] == "tu" for a in ats):
                return None
            return step([p for a in ats for p in parts(a)])
        return None

    return go(e)


def order_violations(case, s) -> list:
    """`a <op> b <op> c` has the operands a, b, c — in the order written (first occurrences; Any absorbed)"""
    if case.get("via"):
        return []
    if isinstance(s, list):            # one structure per construction step
        return [v for e, st in zip(case["defs"], s) for v in order_violations(dict(case, defs=[e]), st)]
    if len(case["defs"]) != 1:
        return []
    e = case["defs"][0]
    op = e.get("bin") or e.get("call")
    if op not in ("|", "^", "&") or "atom" in e:
        return []
    want = expected_chain(case, e, op)
    if want is None:
        return []

    def ref(x):
        if isinstance(x, dict) and "rulebase" in x:
            return "RB"
        return x.get("leaf", x.get("annot")) if isinstance(x, dict) and ("leaf" in x or "annot" in x) else None

    if want[0] == "rb":
        got_ok = ref(s) == "RB"
    elif want[0] == "leaf":
        got_ok = ref(s) == want[1]
    else:
        got_ok = isinstance(s, dict) and s.get("comb") == op and [ref(a) for a in s["args"]] == want[1]
    if got_ok:
        return []
    return [("order", f"'{op}'-chain {json.dumps(e)[:160]} should build {want} (operands in the order written), built {json.dumps(norm_ids(s))[:200]}")]


def negation_step_violations(case, io) -> list:
    """every negation step of the construction, whatever was built before it: `~T` (T not a negation) is a negation with
    the single operand T itself; `~~T` is T itself; and `~T` accepts exactly the inputs T — measured in isolation —
    rejects, unchanged"""
    out = []
    leaf_t = {(l, a, b, v): o for l, a, b, v, o in io.get("table", [])}
    node_t = {(k, a, b, v): o for k, a, b, v, o in io.get("ntable", [])}

    def look(ref, var, v):
        if "leaf" in ref:
            return leaf_t.get((ref["leaf"], var[0], var[1], v))
        if "node" in ref:
            return node_t.get((ref["node"], var[0], var[1], v))
        if "special" in ref:
            return {"ok": v}
        return None

    for n, rec in enumerate(io.get("invs") or []):
        so, sr = rec["operand"], rec["result"]
        if "unknown" in so or "unknown" in sr:
            continue
        op_is_neg = isinstance(so, dict) and so.get("comb") == "~" and len(so["args"]) == 1
        if op_is_neg:
            if rec["kind"] == "inv" and not rec.get("result_is_inner"):
                out.append(("neg-cancel", f"negation step {n}: ~~T is not T: ~{json.dumps(norm_ids(so))[:120]} gave {json.dumps(norm_ids(sr))[:120]}"))
            continue
        if not (isinstance(sr, dict) and sr.get("comb") == "~" and len(sr["args"]) == 1 and struct_eq(sr["args"][0], so)
                and rec.get("arg_is_operand")):
            out.append(("neg-args", f"negation step {n}: the negation of {json.dumps(norm_ids(so))[:120]} is {json.dumps(norm_ids(sr))[:160]}, "
                                    f"whose operand is not that type"))
        for var in map(tuple, io.get("variants", [])):
            for v in range(len(io.get("values", []))):
                T, R = look(rec["operand_ref"], var, v), look(rec["result_ref"], var, v)
                if T is None or R is None:
                    continue
                if _is_ok(R) == _is_ok(T):
                    out.append(("law", f"negation step {n}: ~T accepts={_is_ok(R)} although T = {json.dumps(norm_ids(so))[:100]} measured in "
                                       f"isolation accepts={_is_ok(T)} on value #{v} {json.dumps(io['values'][v])} (ndl={var[0]} nec={var[1]})"))
                    break
                if _is_ok(R) and R["ok"] != v:
                    out.append(("law", f"negation step {n}: ~T did not return the input unchanged on value #{v}"))
                    break
            else:
                continue
            break
    return out


def field_form_violations(case, io) -> list:
    """a combinator means the same whether it is called or annotates a data-class field: through the field it accepts
    exactly what the type itself accepts on that input, with the same value"""
    if not case.get("via") or "node" not in (io.get("root") or {}) or not io.get("variants"):
        return []
    var = io["variants"][0]
    direct = next((o for k, a, b, v, o in io["ntable"] if k == io["root"]["node"] and [a, b] == list(var) and v == 0), None)
    got = io.get("out")
    if direct is None or got is None:
        return []
    if _is_ok(got) != _is_ok(direct):
        return [("law", f"field form ({case['via']}): through the field the input is {'accepted' if _is_ok(got) else 'rejected (' + got['err']['e'] + ')'} "
                        f"but the combinator called directly {'accepts' if _is_ok(direct) else 'rejects'} it")]
    if _is_ok(got) and got["ok"] != direct["ok"]:
        return [("law", f"field form ({case['via']}): value {got} differs from the direct call's {direct}")]
    return []


def node_law_violations(case, io) -> list:
    """the combinator laws at every node of the real structure, from its arguments measured in isolation"""
    out = []
    opts = case["opts"]
    leaf_t = {(l, a, b, v): o for l, a, b, v, o in io["table"]}
    node_t = {(k, a, b, v): o for k, a, b, v, o in io["ntable"]}
    exact = {(l, v) for l, v in io["exact"]}

    def child(c, var, v):
        if "leaf" in c:
            return leaf_t.get((c["leaf"], var[0], var[1], v))
        if "node" in c:
            return node_t.get((c["node"], var[0], var[1], v))
        if "special" in c:
            return {"ok": v}          # Any / Rule accept everything unchanged
        return None

    nvals = len(io["values"])
    for k, nd in enumerate(io["nodes"]):
        comb, ch = nd["comb"], nd["children"]
        if any("unknown" in c for c in ch):
            continue
        for var in map(tuple, io["variants"]):
            for v in range(nvals):
                R = node_t.get((k, var[0], var[1], v))
                if R is None:
                    continue
                where = f"node {k} ('{comb}', {len(ch)} args) options ndl={var[0]} nec={var[1]} value #{v} {json.dumps(io['values'][v])}"
                A = [child(c, var, v) for c in ch]
                if comb != "&" and any(a is None for a in A):
                    continue
                if comb == "|":
                    if any("leaf" in c and (c["leaf"], v) in exact for c in ch):
                        if not (_is_ok(R) and R["ok"] == v):
                            out.append(f"union: value of exactly an argument's type is not returned unchanged at {where}: {R}")
                        continue
                    stage_outs = []
                    miss = False
                    for sv in stage_variants(opts, var):
                        for c in ch:
                            o = child(c, sv, v)
                            if o is None:
                                miss = True
                            elif _is_ok(o):
                                stage_outs.append(o["ok"])
                    if miss:
                        continue
                    if _is_ok(R) != bool(stage_outs):
                        out.append(f"union: accepts={_is_ok(R)} but {len(stage_outs)} (argument, stage) pairs accept at {where}")
                    elif _is_ok(R) and R["ok"] not in stage_outs:
                        out.append(f"union: returned value {R} is not the output of any accepting argument at {where}")
                elif comb == "^":
                    oks = [a["ok"] for a in A if _is_ok(a)]
                    if _is_ok(R) != (len(oks) == 1):
                        out.append(f"xor: accepts={_is_ok(R)} but {len(oks)} arguments accept the input at {where}")
                    elif _is_ok(R) and R["ok"] != oks[0]:
                        out.append(f"xor: returned {R} instead of the accepting argument's output #{oks[0]} at {where}")
                elif comb == "~":
                    if len(ch) != 1:
                        continue
                    if _is_ok(R) != (not _is_ok(A[0])):
                        out.append(f"negation: accepts={_is_ok(R)} although its argument accepts={_is_ok(A[0])} at {where}")
                    elif _is_ok(R) and R["ok"] != v:
                        out.append(f"negation: input not returned unchanged ({R}) at {where}")
                elif comb == "&":
                    w, failed, unknown = v, False, False
                    for c in ch:
                        o = child(c, var, w)
                        if o is None or (_is_ok(o) and o["ok"] is None):
                            unknown = True
                            break
                        if not _is_ok(o):
                            failed = True
                            break
                        w = o["ok"]
                    if unknown:
                        continue
                    if _is_ok(R) == failed:
                        out.append(f"conjunction: accepts={_is_ok(R)} but applying the arguments in order {'fails' if failed else 'succeeds'} at {where}")
                    elif _is_ok(R) and R["ok"] != w:
                        out.append(f"conjunction: returned {R} but the arguments applied in order give #{w} at {where}")
    return out


# ------------------------------------------------------------------------------------------------
# generator
# ------------------------------------------------------------------------------------------------

def _atoms(leaves, kinds):
    return [i for i, d in enumerate(leaves) if i > 0 and d["kind"] in kinds]


def gen_expr(rng, leaves, depth, ndefs):
    ut = _atoms(leaves, UTYPE_KINDS)
    anyk = list(range(1, len(leaves)))

    def atom(prefer_utype):
        if ndefs and rng.random() < 0.15:
            return {"ref": rng.randrange(ndefs)}
        return {"atom": rng.choice(ut if (prefer_utype and ut) else anyk)}

    def go(d, prefer):
        if d == 0 or rng.random() < 0.22:
            return atom(prefer)
        k = rng.random()
        if k < 0.62:
            op = rng.choice("||^^&")
            left_first = rng.random() < 0.5
            a = go(d - 1, left_first)
            b = go(d - 1, not left_first)
            return {"bin": op, "l": a, "r": b}
        if k < 0.76:
            return {"inv": go(d - 1, True)}
        if k < 0.80:
            return {"call": "~", "args": [go(d - 1, False)]}
        op = rng.choice("|^&")
        return {"call": op, "args": [go(d - 1, False) for _ in range(rng.choice([2, 2, 3]))]}

    return go(depth, True)


def mirror(e):
    if "bin" in e:
        return {"bin": e["bin"], "l": mirror(e["r"]), "r": mirror(e["l"])}
    if "inv" in e:
        return {"inv": mirror(e["inv"])}
    if "call" in e:
        return {"call": e["call"], "args": [mirror(a) for a in reversed(e["args"])]}
    return e


def chain(op, atoms):
    e = {"atom": atoms[0]}
    for a in atoms[1:]:
        e = {"bin": op, "l": e, "r": {"atom": a}}
    return e


class Probe:
    def __init__(self, res):
        self.acc = {(i, j) for i, j in res["acc"]}
        self.conv = {(i, j) for i, j in res["conv"]}
        self.thread = [tuple(t) for t in res["thread"]]
        # one or two inputs per ⟨leaf, exception class it rejects with⟩ (ValueError, TypeError, InvalidOperation,
        # OverflowError, ParseError, …): how a combinator handles a rejection must not depend on its class
        by = {}
        for i, j, e in res.get("rej", []):
            by.setdefault((i, e), []).append(j)
        self.rej_classes = [(i, e, js) for (i, e), js in sorted(by.items())]
        # ⟨rule leaf, value of exactly its origin type⟩, split by whether the leaf accepts the value
        self.origin_rej = [(i, j) for i, j in res.get("origin", []) if (i, j) not in self.acc]
        self.origin_acc = [(i, j) for i, j in res.get("origin", []) if (i, j) in self.acc]

    def hot_values(self, pool_idx):
        """values that at least two of the given pool leaves accept, or one converts"""
        hot = []
        for j in range(len(VALUE_POOL)):
            n = sum((i, j) in self.acc for i in pool_idx)
            if n >= 2 or any((i, j) in self.conv for i in pool_idx):
                hot.append(j)
        return hot


def with_bases(idx):
    names = {d.get("name"): i for i, d in enumerate(LEAF_POOL) if d.get("name")}
    out = set(idx)
    todo = list(idx)
    while todo:
        b = LEAF_POOL[todo.pop()].get("base")
        if b is not None and names[b] not in out:
            out.add(names[b])
            todo.append(names[b])
    return sorted(out)          # pool order puts a base before its subclasses


def pick_leaves(rng, k):
    idx = with_bases(rng.sample(range(len(LEAF_POOL)), k))
    if not any(LEAF_POOL[i]["kind"] in UTYPE_KINDS for i in idx):
        idx[rng.randrange(len(idx))] = rng.choice([i for i, d in enumerate(LEAF_POOL) if d["kind"] in UTYPE_KINDS])
        idx = with_bases(idx)
    return idx


def gen_case(rng, probe: Probe, depth=3):
    idx = pick_leaves(rng, rng.choice([2, 3, 3, 4, 4, 5]))
    leaves = [NONE_LEAF] + [LEAF_POOL[i] for i in idx]
    if rng.random() < 0.2:
        # a typing.Union / Optional of two or three leaves of the case (classes, rules, data classes, None)
        ok = [k for k, d in enumerate(leaves) if d["kind"] in ("cls", "rule", "dc")]
        if len(ok) >= 2:
            leaves = leaves + [{"kind": "tunion", "of": sorted(rng.sample(ok, rng.choice([2, 2, 3]) if len(ok) > 2 else 2))}]
    defs = []
    for _ in range(rng.choice([1, 1, 1, 2, 3])):
        defs.append(gen_expr(rng, leaves, rng.randint(1, depth), len(defs)))
    hot = probe.hot_values(idx)
    j = rng.choice(hot) if hot and rng.random() < 0.7 else rng.randrange(len(VALUE_POOL))
    return {"leaves": leaves, "defs": defs, "opts": dict(rng.choice(OPTS_POOL)), "value": VALUE_POOL[j]}


def case_leaves(pool_idx):
    """leaves of a case from pool indices (bases added, a base before its subclasses); pos[i] = atom index of pool leaf i"""
    idx = with_bases(pool_idx)
    return [NONE_LEAF] + [LEAF_POOL[i] for i in idx], {i: k + 1 for k, i in enumerate(idx)}


def related_cases(rng, probe: Probe, n):
    """multi-step construction over RELATED leaves (a rule / data class and its stricter subclasses): an expression on the
    base first, then the same on the subclass, and the other way round — negations by operator and by not_of, double
    negations, and every binary operator; the oracle looks at the type built by EVERY step"""
    names = {d.get("name"): i for i, d in enumerate(LEAF_POOL) if d.get("name")}
    pairs = []
    for i, d in enumerate(LEAF_POOL):
        b = d.get("base")
        while b is not None:
            pairs.append((names[b], i))
            b = LEAF_POOL[names[b]].get("base")
    out = []
    for _ in range(n):
        base, sub = rng.choice(pairs)
        other = rng.choice([i for i, d in enumerate(LEAF_POOL) if d["kind"] in ("cls", "rule", "dc") and i not in (base, sub)])
        leaves, pos = case_leaves([base, sub, other])
        B, S, X = {"atom": pos[base]}, {"atom": pos[sub]}, {"atom": pos[other]}
        first, second = (B, S) if rng.random() < 0.5 else (S, B)
        neg = lambda t, how: {"inv": t} if how == "op" else {"call": "~", "args": [t]}
        h1, h2 = rng.choice(["op", "op", "call"]), rng.choice(["op", "op", "call"])
        op = rng.choice("|^&")
        shapes = [
            [neg(first, h1), neg(second, h2)],
            [neg(first, h1), neg(second, h2), {"inv": {"ref": 1}}, {"inv": {"ref": 0}}],
            [neg(first, h1), {"bin": "&", "l": X, "r": neg(second, "op")}] if LEAF_POOL[other]["kind"] in UTYPE_KINDS
            else [neg(first, h1), {"call": "&", "args": [X, neg(second, "op")]}],
            [neg(first, "op"), neg(first, "op"), neg(second, h2), neg(second, "op")],
            [{"bin": op, "l": first, "r": X}, {"bin": op, "l": second, "r": X}],
            [{"bin": op, "l": first, "r": second}, {"bin": op, "l": second, "r": first}, neg(second, h2)],
            [{"inv": {"inv": first}}, {"inv": {"inv": second}}, neg(second, h2)],
            [{"bin": "|", "l": neg(first, "op"), "r": second}, {"bin": "|", "l": neg(second, "op"), "r": first}],
        ]
        hot = probe.hot_values([base, sub]) or list(range(len(VALUE_POOL)))
        # prefer inputs the two related leaves judge differently
        diff = [j for j in range(len(VALUE_POOL)) if ((base, j) in probe.acc) != ((sub, j) in probe.acc)]
        for defs in shapes:
            j = rng.choice(diff) if diff and rng.random() < 0.7 else rng.choice(hot)
            out.append({"leaves": leaves, "defs": defs, "opts": dict(rng.choice(OPTS_POOL[:8])), "value": VALUE_POOL[j]})
    return out


def threading_cases(rng, probe: Probe, n):
    """⟨leaf A converts x to y, leaf B accepts exactly one of x, y⟩ in both argument orders, under ^ & |"""
    out = []
    tr = list(probe.thread)
    rng.shuffle(tr)
    for a, b, j in tr[:n]:
        extra = rng.choice([None, None, rng.randrange(len(LEAF_POOL))])
        pool = [a, b] + ([extra] if extra is not None and extra not in (a, b) else [])
        leaves, pos = case_leaves(pool)
        for op in "^&|":
            for perm in itertools.permutations([pos[i] for i in pool]):
                kinds = [leaves[p]["kind"] for p in perm]
                if kinds[0] not in UTYPE_KINDS and (len(kinds) < 2 or kinds[1] not in UTYPE_KINDS):
                    e = {"call": op, "args": [{"atom": p} for p in perm]}
                else:
                    e = chain(op, list(perm))
                out.append({"leaves": leaves, "defs": [e], "opts": dict(rng.choice(OPTS_POOL[:8])), "value": VALUE_POOL[j]})
    return out


def origin_type_cases(rng, probe: Probe, n):
    """a rule leaf A with an input of exactly A's ORIGIN type that A rejects (or accepts): under |, ^, &, ~ with None /
    another leaf on either side, called directly, as a data-class field and as an Optional[...] field"""
    out = []
    pairs = list(probe.origin_rej) * 2 + list(probe.origin_acc)
    rng.shuffle(pairs)
    nleaf = len(LEAF_POOL)
    for a, j in pairs[:n]:
        b = rng.choice([i for i in range(nleaf) if i != a and LEAF_POOL[i]["kind"] not in ("any", "rulebase")])
        leaves, pos = case_leaves([a, b])
        leaves = leaves + [{"kind": "none"}]
        A, B, N = {"atom": pos[a]}, {"atom": pos[b]}, {"atom": len(leaves) - 1}
        forms = [{"bin": "|", "l": A, "r": N}, {"bin": "|", "l": N, "r": A}, {"bin": "|", "l": A, "r": B},
                 {"call": "|", "args": [B, A]}, {"bin": "^", "l": A, "r": N}, {"bin": "^", "l": A, "r": B},
                 {"inv": A}, {"bin": "|", "l": {"inv": A}, "r": N}, {"bin": "&", "l": A, "r": {"inv": B}},
                 {"bin": "|", "l": {"bin": "&", "l": A, "r": A}, "r": B}]
        for k, e in enumerate(forms):
            c = {"leaves": leaves, "defs": [e], "opts": dict(rng.choice(OPTS_POOL[:11])), "value": VALUE_POOL[j]}
            via = rng.choice([None, None, "field", "optional_field"]) if k < 6 else None
            if any(d["kind"] in ("str", "self") for d in leaves):
                via = None
            if via:
                c["via"] = via
            out.append(c)
        if not any(d["kind"] in ("str", "self") for d in leaves):
            out.append({"leaves": leaves, "defs": [A], "opts": {}, "value": VALUE_POOL[j], "via": "optional_field"})
    return out


def rejection_class_cases(rng, probe: Probe, per_class=1):
    """every leaf under every combinator on inputs it REJECTS, one (or more) per exception class it rejects with"""
    out = []
    for a, exc_name, js in probe.rej_classes:
        if LEAF_POOL[a]["kind"] in ("any", "rulebase", "none"):
            continue
        for j in rng.sample(js, min(per_class, len(js))):
            leaves, pos = case_leaves([a])
            leaves = leaves + [{"kind": "none"}, leaf_named("Slug")]
            A, N, S = {"atom": pos[a]}, {"atom": len(leaves) - 2}, {"atom": len(leaves) - 1}
            forms = [{"call": "~", "args": [A]}, {"call": "|", "args": [A, N]}, {"call": "^", "args": [A, S]},
                     {"call": "&", "args": [S, {"call": "~", "args": [A]}]}, {"call": "&", "args": [A, S]}]
            if LEAF_POOL[a]["kind"] in UTYPE_KINDS:
                forms.append({"inv": A})
            for e in forms:
                out.append({"leaves": leaves, "defs": [e], "opts": dict(rng.choice(OPTS_POOL[:9])), "value": VALUE_POOL[j]})
    return out


def perm_family(rng, probe: Probe):
    """one combinator over 2-4 leaves in EVERY argument order, same input"""
    idx = pick_leaves(rng, rng.choice([2, 3, 3, 4]))
    leaves = [NONE_LEAF] + [LEAF_POOL[i] for i in idx]
    op = rng.choice("^^|&")
    hot = probe.hot_values(idx)
    j = rng.choice(hot) if hot and rng.random() < 0.8 else rng.randrange(len(VALUE_POOL))
    opts = dict(rng.choice(OPTS_POOL))
    out = []
    perms = list(itertools.permutations(range(1, len(leaves))))
    if len(perms) > 24:                      # (bases brought along can make 5-6 leaves)
        perms = rng.sample(perms, 24)
    for perm in perms:
        out.append({"leaves": leaves, "defs": [{"call": op, "args": [{"atom": p} for p in perm]}], "opts": opts,
                    "value": VALUE_POOL[j]})
    return out


def leaf_named(n):
    return next(d for d in LEAF_POOL if (d.get("name") or d.get("spec")) == n)


def kind_matrix():
    """every ordered pair of operand kinds under every binary operator (which side's metaclass dispatches, which
    side is flattened), and `~` of every kind"""
    L = [NONE_LEAF, {"kind": "cls", "name": "int"}, leaf_named("Slug"), leaf_named("PosInt"), leaf_named("DcA"), {"kind": "any"},
         {"kind": "none"}, {"kind": "alias", "spec": "List[int]"}, {"kind": "lit", "value": {"i": "3"}},
         {"kind": "cls", "name": "str"}, leaf_named("DcUser"), {"kind": "rulebase"},
         {"kind": "str", "name": "FwdA"}, {"kind": "self"}, {"kind": "tunion", "of": [1, 9]}, {"kind": "tunion", "of": [0, 3]}]
    assert L[2]["name"] == "Slug" and L[3]["name"] == "PosInt" and L[4]["name"] == "DcA" and L[10]["name"] == "DcUser"
    A = lambda i: {"atom": i}

    def operands(op):
        other = {"|": "^", "^": "&", "&": "|"}[op]
        return {"cls": A(1), "rule": A(2), "irule": A(3), "dc": A(4), "any": A(5), "none": A(6), "alias": A(7), "lit": A(8),
                "same": {"bin": op, "l": A(2), "r": A(3)}, "other": {"bin": other, "l": A(3), "r": A(9)},
                "neg": {"inv": A(2)}, "dcsame": {"bin": op, "l": A(10), "r": A(2)}, "rulebase": A(11),
                "callsame": {"call": op, "args": [A(9), A(1)]},
                "fwd": A(12), "self": A(13), "union": A(14), "optional": A(15)}

    vals = [{"s": "3"}, {"s": "abc"}, {"l": [{"i": "1"}]}, {"m": [[{"s": "a"}, {"s": "1"}]]}, {"i": "3"}, None]
    out, n = [], 0
    for op in "|^&":
        ops = operands(op)
        for ka, a in ops.items():
            for kb, b in ops.items():
                n += 1
                out.append({"leaves": L, "defs": [{"bin": op, "l": a, "r": b}], "opts": {}, "value": vals[n % len(vals)]})
    for k, a in operands("|").items():
        n += 1
        out.append({"leaves": L, "defs": [{"inv": a}], "opts": {}, "value": vals[n % len(vals)]})
        out.append({"leaves": L, "defs": [{"inv": {"inv": a}}], "opts": {}, "value": vals[n % len(vals)]})
        out.append({"leaves": L, "defs": [{"call": "~", "args": [a]}], "opts": {}, "value": vals[n % len(vals)]})
    return out


def exhaustive_small():
    """every ordered pair (x 12 inputs) and every ordered triple (x 6 inputs) of 8 leaves under |, ^, &"""
    names = ["int", "str", "float", "PosInt", "Slug", "Dotted", "List[int]", "DcA"]
    pool = [d for n in names for d in LEAF_POOL if (d.get("name") or d.get("spec")) == n]
    assert len(pool) == len(names)
    leaves = [NONE_LEAF] + pool
    vals = [{"s": "3"}, {"s": "3.0"}, {"s": "abc"}, {"i": "3"}, {"i": "-3"}, {"f": "3.0"}, {"f": "3.5"}, {"b": "3"},
            {"l": [{"i": "1"}, {"s": "2"}]}, {"m": [[{"s": "a"}, {"s": "1"}]]}, True, {"inst": "DcA", "kw": [["a", {"i": "1"}]]}]

    def expr(op, perm):
        if leaves[perm[0]]["kind"] in UTYPE_KINDS or leaves[perm[1]]["kind"] in UTYPE_KINDS:
            return chain(op, list(perm))
        return {"call": op, "args": [{"atom": p} for p in perm]}

    out = []
    for op in "|^&":
        for perm in itertools.permutations(range(1, len(leaves)), 2):
            for v in vals:
                out.append({"leaves": leaves, "defs": [expr(op, perm)], "opts": {}, "value": v})
        for perm in itertools.permutations(range(1, 7), 3):
            for v in vals[:6]:
                out.append({"leaves": leaves, "defs": [expr(op, perm)], "opts": {}, "value": v})
    return out


# ------------------------------------------------------------------------------------------------

def norm_ids(s):
    """object identities → order of first appearance (so that model serials and id() are comparable)"""
    m = {}

    def go(x):
        if not isinstance(x, dict):
            return x
        y = {k: v for k, v in x.items() if k not in ("id", "args")}
        if "id" in x:
            y["id"] = m.setdefault(x["id"], len(m))
        if "args" in x:
            y["args"] = [go(a) for a in x["args"]]
        return y

    return go(s)


class C09(Check):
    prop = "C09"
    props_modules = ["Utv.Props.C09"]
    driver = "C09"
    impl = "harness.c09:impl"
    case_timeout = 20.0
    rule = ("operator expressions (|, ^, &, ~, any_of/one_of/all_of/not_of, shared sub-expressions, depth<=3) over 2-5 leaves "
            "drawn from 48 leaf descriptors incl. related ones (a rule / data class and its stricter subclasses; multi-step constructions on base then subclass and vice versa, oracle after every step) (builtin classes; Rule subclasses decided by validators, by contains/min/max_contains "
            "only, by pre/post_validate hooks only, by item types only, bare, library NanFloat/InfinityFloat; typing generics, "
            "literals, data classes, Any, None, Rule) x 61 input values x 14 option sets, called directly, as a data-class field "
            "and as an Optional[...] field; every rule leaf is paired with inputs of exactly its ORIGIN type that it rejects / accepts;  leaf-pairs where one leaf converts the input and "
            "another accepts exactly one of (input, converted) are found by probing the real leaves first and emitted in "
            "every argument order; permutation families emit one combinator in every order of its arguments.  "
            "non-trivial = the built type is a combinator and the input is not an exact-type hit of a union root; distinct "
            "by (structure with leaf names, option set, input value)")
    assumptions = [
        "argument parsers are abstract in the theorems; in T2 their behaviour is measured on the real leaves in isolation "
        "(ctx.transformer(value, leaf) under the same options) — an argument is assumed deterministic and to leave the "
        "caller's context untouched when it returns normally",
        "C09_union_accepts_iff assumes the subset law (Mono) of the arguments, which is C12's statement; the stage-wise "
        "theorems (C09_union_refines, C09_union_accepts_iff_stage) do not",
    ]
    budget = {"quick": 4000, "thorough": 60000}
    search_budget = {"quick": 3000, "thorough": 20000}
    _probe = None

    # ---- generation ----------------------------------------------------------------------------
    def probe(self) -> Probe:
        if self._probe is None:
            res = run_impl(self.impl, [{"op": "probe", "leaves": LEAF_POOL, "values": VALUE_POOL}], 120.0)[0]
            if "acc" not in res:
                raise RuntimeError(f"probe failed: {res}")
            self._probe = Probe(res)
        return self._probe

    def cases(self, tier, rng, n):
        pr = self.probe()
        out = []
        if tier != "search":
            out += kind_matrix()
        if tier == "thorough":
            out += exhaustive_small()
        if tier != "search":
            out += rejection_class_cases(rng, pr, 1 if tier == "quick" else 3)
        out += related_cases(rng, pr, {"quick": 60, "thorough": 500, "search": 100}.get(tier, 60))
        out += origin_type_cases(rng, pr, {"quick": 60, "thorough": 400, "search": 100}.get(tier, 60))
        out += threading_cases(rng, pr, {"quick": 12, "thorough": 150, "search": 40}.get(tier, 12))
        for _ in range({"quick": 25, "thorough": 300, "search": 60}.get(tier, 25)):
            out += perm_family(rng, pr)
        while len(out) < n:
            c = gen_case(rng, pr)
            k = rng.random()
            if k < 0.12 and not any(d["kind"] in ("str", "self") for d in c["leaves"]):
                # (a string / Self operand inside a class body is resolved by the class parser: C17's business)
                c["via"] = rng.choice(["field", "optional_field"])
            elif k < 0.18:
                c["dirty"] = rng.choice(["errors", "errors", "tmp"])     # the caller hands in a USED context
            out.append(c)
            if rng.random() < 0.4:
                out.append(dict(c, defs=[mirror(d) for d in c["defs"]]))
        return out

    # ---- model side ----------------------------------------------------------------------------
    def evaluate(self, cases):
        impl_outs = run_impl(self.impl, cases, self.case_timeout, extra_env=self.impl_env)
        lines = [self.model_line2(c, io) for c, io in zip(cases, impl_outs)]
        model_outs = run_driver(self.driver, lines)
        return impl_outs, model_outs

    @staticmethod
    def err_ids(io):
        names = dict(FIXED_ERR_IDS)

        def walk(t):
            if t["e"] not in names:
                names[t["e"]] = (NON_PARSE_BASE if t.get("np") else 7) + len(names)
            for s in t["sub"]:
                walk(s)

        for row in io.get("table", []):
            if "err" in row[4]:
                walk(row[4]["err"])
                for x in row[4].get("rec", []):
                    walk(x)
        return names

    def model_line2(self, case, io):
        kinds = [("tunion:" + ",".join(map(str, d["of"]))) if d["kind"] == "tunion" else d["kind"] for d in case["leaves"]]
        defs = list(case["defs"])
        if case.get("via") == "optional_field":
            # the class parser turns Optional[T] into LogicalType.any_of(T, None)
            if "none" not in kinds:
                kinds = kinds + ["none"]
            defs.append({"call": "|", "args": [{"ref": len(defs) - 1}, {"atom": kinds.index("none")}]})
        line = {"kinds": kinds, "defs": defs, "v": 0,
                "opts": {"ndl": bool(case["opts"].get("no_data_loss")), "nec": bool(case["opts"].get("no_explicit_cast")),
                         "collect": bool(case["opts"].get("collect_errors")), "max": case["opts"].get("max_errors"),
                         "override": bool(case["opts"].get("override"))},
                "table": [], "exact": [],
                # leaves that are Rule classes: Rule.parse ends with raise_error() on the context it was given
                "checks": [i for i, k in enumerate(kinds) if k in ("rule", "alias", "lit")]}
        if isinstance(io, dict) and "table" in io:
            names = self.err_ids(io)

            def conv(t):
                return {"e": names[t["e"]], "sub": [conv(s) for s in t["sub"]]}

            for l, a, b, v, o in io["table"]:
                line["table"].append([l, a, b, v, {"ok": o["ok"]} if "ok" in o else
                                      {"err": conv(o["err"]), "rec": [conv(x) for x in o.get("rec", [])]}])
            line["exact"] = io["exact"]
        if case.get("dirty"):
            earlier = {"e": FIXED_ERR_IDS["ParseError"], "sub": []}
            line["ctx"] = {"errors": [earlier] if case["dirty"] == "errors" else [],
                           "tmp": [earlier] if case["dirty"] == "tmp" else []}
        return line

    def compare(self, case, io, mo):
        if not isinstance(mo, dict) or "struct" not in mo:
            return f"driver: {mo}"
        if not isinstance(io, dict) or "struct" not in io:
            return f"impl: {io}"
        if io["struct"] is None or mo["struct"] is None:
            if io["struct"] is None and mo["struct"] is None and "builderr" not in io:
                return None
            return f"only one side builds a utype type: impl={io.get('foreign', io.get('builderr', io['struct']))} model={mo['struct']}"
        a, b = norm_ids(io["struct"]), norm_ids(mo["struct"])
        if io.get("structs") and mo.get("structs") and len(io["structs"]) == len(mo["structs"]):
            a = norm_ids({"steps": True, "args": io["structs"]})
            b = norm_ids({"steps": True, "args": mo["structs"]})
        if a != b:
            return f"constructed types differ: impl={json.dumps(a)} model={json.dumps(b)}"
        if io.get("incomplete"):
            return None
        if any(row[4].get("dirty") for row in io.get("table", [])):
            return "a leaf returned normally but left errors in the context it was given (model assumption `Leaves.call`)"
        m = mo.get("out", {})
        if "miss" in m:
            return f"model asked for an unmeasured leaf entry: {m['miss']}"
        r = io["out"]
        if "ok" in r:
            if m.get("ok") != r["ok"] or r["ok"] is None:
                return f"outcome differs: impl={r} model={m}"
            return None
        names = {v: k for k, v in self.err_ids(io).items()}

        def back(t):
            return {"e": names.get(t["e"], t["e"]), "sub": [back(s) for s in t["sub"]]}

        if "err" not in m:
            return f"outcome differs: impl={r} model={m}"
        if case.get("via"):
            return None           # through a field the exception is re-wrapped by the class parser: verdict only
        if case.get("dirty"):
            return None           # leaves are measured in clean contexts: with a used context only the verdict is compared
        got, want = strip_np(r["err"]), back(m["err"])
        if got != want:
            return f"outcome differs: impl={r} model={ {'err': back(m['err'])} }"
        return None

    def sweep(self, cases, impl_outs, model_outs, findings):
        """Failing inputs are re-run ALONE in a fresh interpreter before they are reported: a change that keeps state on
        library classes (a cache on `Rule`) can make a case fail only because of the cases the worker ran before it, and
        such a replay would not reproduce.  Cases that still fail alone are preferred; if none does, the
        history-dependent ones are reported as they are."""
        disagreements, unknown, known = super().sweep(cases, impl_outs, model_outs, findings)
        if unknown:
            by_len = sorted(unknown, key=lambda u: len(json.dumps(u["case"])))
            multi = [u for u in by_len if len(u["case"]["defs"]) > 1 or any(d.get("base") for d in u["case"]["leaves"])]
            cand = by_len[:12] + [u for u in multi if u not in by_len[:12]][:28]
            from concurrent.futures import ThreadPoolExecutor
            from .common import NCPU

            def alone(u):
                io = run_impl(self.impl, [u["case"]], self.case_timeout, jobs=1, extra_env=self.impl_env)[0]
                why = self.spec(u["case"], io, None) if not (isinstance(io, dict) and "__worker_exc__" in io) else None
                if why and not (self.classify(u["case"], io, why) in findings):
                    return dict(u, impl=io, why=why)
                return None

            with ThreadPoolExecutor(max_workers=max(1, NCPU)) as ex:
                confirmed = [c for c in ex.map(alone, cand) if c]
            if confirmed:
                rest = [u for u in unknown if u not in cand]
                unknown = confirmed + rest
                # run() reports the shortest case: make sure it is a confirmed one
                unknown.sort(key=lambda u: (u not in confirmed, len(json.dumps(u["case"]))))
                unknown = confirmed + [dict(u, case=u["case"]) for u in rest if len(json.dumps(u["case"])) >
                                       max(len(json.dumps(c["case"])) for c in confirmed)]
            else:
                for u in unknown:
                    u["why"] = "(fails only after other cases ran in the same interpreter) " + u["why"]
        return disagreements, unknown, known

    # ---- the property on the implementation's behaviour ------------------------------------------
    def violations(self, case, io):
        if not isinstance(io, dict) or "struct" not in io:
            return [("infra", f"adapter returned {io}")]
        if io["struct"] is None:
            if "builderr" in io:
                return [("build", f"an operator / constructor applied to a utype type raised: {io['builderr']}")]
            return []
        steps = io.get("structs") or [io["struct"]]
        out = []
        for st in steps:                 # the algebra holds after EVERY construction step
            out += algebra_violations(case, st)
        out += order_violations(case, steps if io.get("structs") else io["struct"])
        out += negation_step_violations(case, io)
        out += field_form_violations(case, io)
        out += [("law", w) for w in node_law_violations(case, io)]
        return out

    def spec(self, case, io, mo):
        if isinstance(io, dict) and (io.get("hang") or io.get("crash")):
            return f"parsing did not complete: {io}"
        v = self.violations(case, io)
        if not v:
            return None
        # report unknown classes first
        v.sort(key=lambda kv: kv[0] in ("dup-by-identity", "call-keeps-nesting"))
        return f"{v[0][0]}: {v[0][1]}" + (f" (+{len(v) - 1} more)" if len(v) > 1 else "")

    def classify(self, case, io, why):
        kinds = {k for k, _ in self.violations(case, io)}
        for fid in ("dup-by-identity", "call-keeps-nesting"):
            if kinds == {fid}:
                return fid
        if kinds and kinds <= {"dup-by-identity", "call-keeps-nesting"}:
            return "dup-by-identity" if why.startswith("dup-by-identity") else "call-keeps-nesting"
        return None

    # ---- evidence ------------------------------------------------------------------------------
    @staticmethod
    def shape(case, s):
        if not isinstance(s, dict):
            return "-"
        if "comb" in s:
            return s["comb"] + "(" + ",".join(C09.shape(case, a) for a in s["args"]) + ")"
        if "leaf" in s or "annot" in s:
            d = case["leaves"][s.get("leaf", s.get("annot"))]
            return d.get("name") or d.get("spec") or json.dumps(d.get("value"))
        return next(iter(s))

    def key(self, case, io):
        if not isinstance(io, dict) or not isinstance(io.get("struct"), dict) or "comb" not in io["struct"]:
            return None
        if io["struct"]["comb"] == "|" and any([c.get("leaf"), 0] in io["exact"] for c in io["nodes"][0]["children"] if "leaf" in c):
            return None
        return json.dumps([self.shape(case, io["struct"]), case["opts"], case["value"], case.get("via")], sort_keys=True)

    def distribution(self, case, io):
        if not isinstance(io, dict) or "struct" not in io:
            return "adapter-failure"
        if io["struct"] is None:
            return "not-utype:" + str(io.get("foreign", io.get("builderr")))
        s = io["struct"]
        root = s.get("comb", "leaf")
        depth = 0

        def d(x, k=1):
            nonlocal depth
            if isinstance(x, dict) and "comb" in x:
                depth = max(depth, k)
                for a in x["args"]:
                    d(a, k + 1)

        d(s)
        o = io.get("out", {})
        res = "ok" if "ok" in o else o.get("err", {}).get("e", "?")
        flags = "+".join(sorted(k for k, v in case["opts"].items() if v)) or "default"
        # C12's subset law on the measured leaves (hypothesis `Mono` of C09_union_accepts_iff): made visible here
        t = {(l, a, b, v): o for l, a, b, v, o in io.get("table", [])}
        base = tuple(io["variants"][0]) if io.get("variants") else (False, False)
        mono_bad = any((a, b) != base and "ok" in o and "ok" not in t.get((l, base[0], base[1], v), {"ok": 0})
                       for (l, a, b, v), o in t.items())
        # hypothesis `hL` of C09_tree_union_sound (transform.py: a value of exactly the class is returned as it is)
        exact_bad = any(t.get((l, a, b, v), {"ok": v}).get("ok") != v
                        for l, v in io.get("exact", []) for a, b in map(tuple, io.get("variants", [])))
        return (f"root={root}/depth={depth}/{res}/{flags}" + ("/incomplete" if io.get("incomplete") else "")
                + (f"/via-{case['via']}" if case.get("via") else "")
                + ("/leaf-not-monotone" if mono_bad else "") + ("/leaf-exact-law-broken" if exact_bad else ""))

    def neighbours(self, case, rng):
        out = [dict(case, defs=[mirror(d) for d in case["defs"]])]
        for o in OPTS_POOL[3:]:
            out.append(dict(case, opts=dict(o)))
        for _ in range(12):
            out.append(dict(case, value=rng.choice(VALUE_POOL)))
        return out

    def finish_evidence(self, ev, tier):
        ev["coverage"]["leaf_pool"] = len(LEAF_POOL)
        ev["coverage"]["value_pool"] = len(VALUE_POOL)
        ev["coverage"]["exhaustive"] = False
        if tier == "thorough":
            ev["coverage"]["exhaustive_part"] = ("every ordered pair of 8 leaves x 12 inputs and every ordered triple of 6 leaves "
                                                 "x 6 inputs under |, ^, & (default options); every ordered pair of 14 operand kinds "
                                                 "under |, ^, & and ~/~~/not_of of each kind")


CHECK = C09()
